(* Totality of the unfaulted Encrypt on live, cached sessions: it cannot fail (C01, and C02's "once the faults stop the next
   operation succeeds").  Part Z: no row carries the stamp 0.  Part T: the no-failure ("noerr") chain. *)
From Asherah Require Import Envelope.Session Envelope.Frame Envelope.FrameInst Envelope.Hoare Envelope.Coherent Envelope.Local Envelope.LiveD Envelope.LiveCloseD Envelope.ExpiryD Envelope.Rotation.
From Coq Require Import Lia.
Open Scope Z_scope.

(* ---- Part Z: nz_store is kept by everything, given that the operation's own time stamp is not 0 ------------------------ *)
Definition sameZ (w w' : world) : Prop := nz_store (w_store w) -> nz_store (w_store w').
Lemma sameZ_refl w : sameZ w w. Proof. intro H. exact H. Qed.
Lemma sameZ_trans a b c : sameZ a b -> sameZ b c -> sameZ a c. Proof. unfold sameZ. tauto. Qed.
Definition qZ {A} (m : M A) : Prop := qu sameZ m.
Lemma qZ_ret {A} (a : A) : qZ (ret a). Proof. apply (qu_ret sameZ sameZ_refl). Qed.
Lemma qZ_fail {A} e : qZ (@fail A e). Proof. apply (qu_fail sameZ sameZ_refl). Qed.
Lemma qZ_gets {A} (f : world -> A) : qZ (gets f). Proof. apply (qu_gets sameZ sameZ_refl). Qed.
Lemma qZ_bind {A B} (m : M A) (f : A -> M B) : qZ m -> (forall a, qZ (f a)) -> qZ (bind m f). Proof. apply (qu_bind sameZ sameZ_trans). Qed.
Lemma qZ_finally {A} (m : M A) (c : M unit) : qZ m -> qZ c -> qZ (finally m c). Proof. apply (qu_finally sameZ sameZ_trans). Qed.
Lemma qZ_try {A} (m : M A) : qZ m -> qZ (try_ m). Proof. apply (qu_try sameZ). Qed.
Lemma qZ_emit e : qZ (emit e). Proof. intro w. intro H. exact H. Qed.
Lemma qZ_next_call : qZ next_call. Proof. intro w. intro H. exact H. Qed.
Lemma qZ_bump_nonce : qZ bump_nonce. Proof. intro w. intro H. exact H. Qed.
Lemma qZ_store_insert id c r : c <> 0 -> qZ (store_insert id c r).
Proof.
  intros Nz w. unfold store_insert. destruct (store_find id c (w_store w)); [intro H; exact H|]. cbn [snd]. intros H i k r0 Hf. cbn in Hf.
  apply store_find_app_RC in Hf as [Hf|[E1 E2]]; [exact (H i k r0 Hf) | subst k; exact Nz].
Qed.
Lemma qZ_secret_alloc m : qZ (secret_alloc m). Proof. intro w. intro H. exact H. Qed.
Lemma qZ_secret_mark_closed sid : qZ (secret_mark_closed sid). Proof. intro w. unfold secret_mark_closed. destruct (nth_error (w_secrets w) sid); intro H; exact H. Qed.
Lemma qZ_kobj_alloc o : qZ (kobj_alloc o). Proof. intro w. intro H. exact H. Qed.
Lemma qZ_kobj_modify k g : qZ (kobj_modify k g). Proof. intro w. unfold kobj_modify. destruct (nth_error (w_kobjs w) k); intro H; exact H. Qed.
Lemma qZ_put_cache cid c : qZ (put_cache cid c). Proof. intro w. intro H. exact H. Qed.
Lemma qZ_put_session s x : qZ (put_session s x). Proof. intro w. intro H. exact H. Qed.
Global Hint Resolve qZ_emit qZ_next_call qZ_bump_nonce qZ_secret_alloc qZ_secret_mark_closed qZ_kobj_alloc qZ_kobj_modify qZ_put_cache qZ_put_session : qZ.

Ltac qZ_step :=
  first
    [ solve [auto with qZ]
    | apply qZ_ret | apply qZ_fail | apply qZ_gets
    | apply qZ_bind; [|intro]
    | apply qZ_finally
    | apply qZ_try
    | match goal with
      | |- qZ (match ?x with _ => _ end) => destruct x
      | |- qZ (let '(_, _) := ?x in _) => destruct x
      | |- qZ (if ?x then _ else _) => destruct x
      end ].
Ltac qZ_go := repeat qZ_step.

Lemma qZ_get_now : qZ get_now. Proof. apply qZ_gets. Qed.
Lemma qZ_get_store : qZ get_store. Proof. apply qZ_gets. Qed.
Lemma qZ_get_secrets : qZ get_secrets. Proof. apply qZ_gets. Qed.
Lemma qZ_get_kobjs : qZ get_kobjs. Proof. apply qZ_gets. Qed.
Lemma qZ_secret_count : qZ secret_count. Proof. apply qZ_gets. Qed.
Global Hint Resolve qZ_get_now qZ_get_store qZ_get_secrets qZ_get_kobjs qZ_secret_count : qZ.
Lemma qZ_m_load id c : qZ (m_load id c). Proof. unfold m_load. qZ_go. Qed.
Lemma qZ_m_load_latest id : qZ (m_load_latest id). Proof. unfold m_load_latest. qZ_go. Qed.
Lemma qZ_m_store id c r : c <> 0 -> qZ (m_store id c r).
Proof. intro Nz. pose proof (qZ_store_insert id c r Nz). unfold m_store. qZ_go. Qed.
Lemma qZ_kms_encrypt p : qZ (kms_encrypt p). Proof. unfold kms_encrypt. qZ_go. Qed.
Lemma qZ_kms_decrypt c : qZ (kms_decrypt c). Proof. unfold kms_decrypt. qZ_go. Qed.
Lemma qZ_aead_encrypt p k : qZ (aead_encrypt p k). Proof. unfold aead_encrypt. qZ_go. Qed.
Lemma qZ_aead_decrypt c k : qZ (aead_decrypt c k). Proof. unfold aead_decrypt. qZ_go. Qed.
Lemma qZ_secret_new m : qZ (secret_new m). Proof. unfold secret_new. qZ_go. Qed.
Lemma qZ_secret_random : qZ secret_random. Proof. unfold secret_random. qZ_go. Qed.
Lemma qZ_secret_close sid : qZ (secret_close sid). Proof. unfold secret_close. qZ_go. Qed.
Lemma qZ_secret_bytes sid : qZ (secret_bytes sid). Proof. unfold secret_bytes. qZ_go. Qed.
Lemma qZ_kobj_get k : qZ (kobj_get k). Proof. unfold kobj_get. qZ_go. Qed.
Global Hint Resolve qZ_m_load qZ_m_load_latest qZ_kms_encrypt qZ_kms_decrypt qZ_aead_encrypt qZ_aead_decrypt qZ_secret_new
  qZ_secret_random qZ_secret_close qZ_secret_bytes qZ_kobj_get : qZ.
Lemma qZ_ck_close k : qZ (ck_close k). Proof. unfold ck_close. qZ_go. Qed.
Global Hint Resolve qZ_ck_close : qZ.
Lemma qZ_cck_close k : qZ (cck_close k). Proof. unfold cck_close. qZ_go. Qed.
Lemma qZ_cck_increment k : qZ (cck_increment k). Proof. unfold cck_increment. qZ_go. Qed.
Lemma qZ_ck_set_revoked k b : qZ (ck_set_revoked k b). Proof. unfold ck_set_revoked. qZ_go. Qed.
Lemma qZ_cck_wrap k : qZ (cck_wrap k). Proof. unfold cck_wrap. qZ_go. Qed.
Global Hint Resolve qZ_cck_close qZ_cck_increment qZ_ck_set_revoked qZ_cck_wrap : qZ.
Lemma qZ_key_bytes k : qZ (key_bytes k). Proof. unfold key_bytes. qZ_go. Qed.
Lemma qZ_new_crypto_key c r m : qZ (new_crypto_key c r m). Proof. unfold new_crypto_key. qZ_go. Qed.
Lemma qZ_generate_key c : qZ (generate_key c). Proof. unfold generate_key. qZ_go. Qed.
Lemma qZ_get_cache cid : qZ (get_cache cid). Proof. unfold get_cache. qZ_go. Qed.
Global Hint Resolve qZ_key_bytes qZ_new_crypto_key qZ_generate_key qZ_get_cache : qZ.
Lemma qZ_kc_read cid m : qZ (kc_read cid m). Proof. unfold kc_read. qZ_go. Qed.
Lemma qZ_reload_required e rci : qZ (reload_required e rci). Proof. unfold reload_required. qZ_go. Qed.
Global Hint Resolve qZ_kc_read qZ_reload_required : qZ.
Lemma qZ_kc_get_fresh cid rci m : qZ (kc_get_fresh cid rci m). Proof. unfold kc_get_fresh. qZ_go. Qed.
Lemma qZ_closes l : qZ (closes l). Proof. unfold closes. induction l as [|x l IH]; cbn [fold_right]; qZ_go. Qed.
Global Hint Resolve qZ_kc_get_fresh qZ_closes : qZ.
Lemma qZ_kc_write cid m e : qZ (kc_write cid m e). Proof. unfold kc_write. qZ_go. Qed.
Global Hint Resolve qZ_kc_write : qZ.
Lemma qZ_kc_load cid m loader : (forall x, qZ (loader x)) -> qZ (kc_load cid m loader). Proof. intro H. unfold kc_load. qZ_go. Qed.
Lemma qZ_is_key_invalid k e : qZ (is_key_invalid k e). Proof. unfold is_key_invalid. qZ_go. Qed.
Global Hint Resolve qZ_is_key_invalid : qZ.
Lemma qZ_get_or_load c rci m loader : (forall x, qZ (loader x)) -> qZ (get_or_load c rci m loader).
Proof. intro H. unfold get_or_load. qZ_go; apply qZ_kc_load; exact H. Qed.
Lemma qZ_get_or_load_latest c rci ex id loader : (forall x, qZ (loader x)) -> qZ (get_or_load_latest c rci ex id loader).
Proof. intro H. unfold get_or_load_latest. qZ_go; try apply qZ_kc_load; exact H. Qed.
Lemma qZ_is_envelope_invalid e r : qZ (is_envelope_invalid e r). Proof. unfold is_envelope_invalid. qZ_go. Qed.
Lemma qZ_generate_key_now e : qZ (generate_key_now e). Proof. unfold generate_key_now. qZ_go. Qed.
Lemma qZ_system_key_from_ekr r : qZ (system_key_from_ekr r). Proof. unfold system_key_from_ekr. qZ_go. Qed.
Global Hint Resolve qZ_is_envelope_invalid qZ_generate_key_now qZ_system_key_from_ekr : qZ.
Lemma qZ_load_system_key m : qZ (load_system_key m). Proof. unfold load_system_key. qZ_go. Qed.
Global Hint Resolve qZ_load_system_key : qZ.
Lemma qZ_get_or_load_system_key e m : qZ (get_or_load_system_key e m).
Proof. unfold get_or_load_system_key. apply qZ_get_or_load. intro. apply qZ_load_system_key. Qed.
Global Hint Resolve qZ_get_or_load_system_key : qZ.
Lemma qZ_intermediate_key_from_ekr e sk r : qZ (intermediate_key_from_ekr e sk r). Proof. unfold intermediate_key_from_ekr. qZ_go. Qed.
Lemma qZ_must_load_latest id : qZ (must_load_latest id). Proof. unfold must_load_latest. qZ_go. Qed.
Global Hint Resolve qZ_intermediate_key_from_ekr qZ_must_load_latest : qZ.
Lemma qZ_get_valid_intermediate_key e sk r : qZ (get_valid_intermediate_key e sk r). Proof. unfold get_valid_intermediate_key. qZ_go. Qed.
Global Hint Resolve qZ_get_valid_intermediate_key : qZ.
Lemma qZ_load_intermediate_key e m : qZ (load_intermediate_key e m). Proof. unfold load_intermediate_key. qZ_go. Qed.
Global Hint Resolve qZ_load_intermediate_key : qZ.
Lemma qZ_encrypt_with_ik e ik p : qZ (encrypt_with_ik e ik p). Proof. unfold encrypt_with_ik. qZ_go. Qed.
Global Hint Resolve qZ_encrypt_with_ik : qZ.
Lemma qZ_decrypt_row ik k d : qZ (decrypt_row ik k d). Proof. unfold decrypt_row. qZ_go. Qed.
Global Hint Resolve qZ_decrypt_row : qZ.
Lemma qZ_decrypt_data_row_record e r : qZ (decrypt_data_row_record e r).
Proof. unfold decrypt_data_row_record. qZ_go. apply qZ_get_or_load. intro. apply qZ_load_intermediate_key. Qed.
Lemma qZ_get_factory f : qZ (get_factory f). Proof. unfold get_factory. qZ_go. Qed.
Lemma qZ_get_session s : qZ (get_session s). Proof. unfold get_session. qZ_go. Qed.
Global Hint Resolve qZ_get_factory qZ_get_session : qZ.
Lemma qZ_session_env s : qZ (session_env s). Proof. unfold session_env. qZ_go. Qed.

(* ---- total correctness: no failure when no fault is planned -------------------------------------------------- *)

Definition PZ (t : Z) (w : world) : Prop := PT0 t w /\ nz_store (w_store w).

Lemma keeps_PZ {A} t (m : M A) : qF m -> qR m -> pres now_same m -> qZ m -> hoare (PZ t) m (fun _ w => PZ t w) (PZ t).
Proof.
  intros QF QR PN QZ w [HP HN]. pose proof (hoare_PT0 t m QF QR PN w HP) as X. specialize (QZ w HN).
  destruct (m w) as [[er|a] w1]; cbn [snd] in QZ; (split; [exact X | exact QZ]).
Qed.

Lemma keeps_PZ_F {A} t (F : world -> Prop) (m : M A) :
  qF m -> qR m -> pres now_same m -> qZ m -> pres Rs m -> stableS F ->
  hoare (fun w => PZ t w /\ F w) m (fun _ w => PZ t w /\ F w) (fun w => PZ t w /\ F w).
Proof.
  intros QF QR PN QZ PR SF w [HP HF]. pose proof (keeps_PZ t m QF QR PN QZ w HP) as X. specialize (PR w).
  destruct (m w) as [[er|a] w1]; cbn [snd] in PR; (split; [exact X | exact (SF w w1 PR HF)]).
Qed.

Section PartZ.
Variable e : env.
Variable t : Z.
Let prec := p_precision (en_pol e).
Let c0 := new_key_timestamp t prec.
Hypothesis tz : c0 <> 0.

Lemma tssk_Z sk : hoare (fun w => PZ t w /\ created_of w sk c0) (try_store_system_key e sk) (fun _ w => PZ t w) (PZ t).
Proof.
  unfold try_store_system_key. set (B := fun w => PZ t w /\ created_of w sk c0).
  assert (HB : forall {X} (m : M X), qF m -> qR m -> pres now_same m -> qZ m -> pres Rs m -> hoare B m (fun _ w => B w) (PZ t)).
  { intros X m QF QR PN QZ PR. eapply hoare_weaken; [exact (keeps_PZ_F t (fun w => created_of w sk c0) m QF QR PN QZ PR (stableS_created_of sk c0)) | | |]; unfold B; cbv beta; tauto. }
  eapply (hoare_bind _ _ (fun _ w => B w)); [exact (HB _ _ (qF_key_bytes sk) (qR_key_bytes sk) (pres_key_bytes now_same now_same_frame sk) (qZ_key_bytes sk) (pres_key_bytes Rs Rs_frame sk))|]. intro skb.
  eapply (hoare_bind _ _ (fun _ w => B w)); [exact (HB _ _ (qF_kms_encrypt skb) (qR_kms_encrypt skb) (pres_kms_encrypt now_same now_same_frame skb) (qZ_kms_encrypt skb) (pres_kms_encrypt Rs Rs_frame skb))|]. intro enc.
  eapply (hoare_bind _ _ (fun o w => B w /\ nth_error (w_kobjs w) sk = Some o)).
  { intros w HBw. pose proof (HB _ _ (qF_kobj_get sk) (qR_kobj_get sk) (pres_kobj_get now_same now_same_frame sk) (qZ_kobj_get sk) (pres_kobj_get Rs Rs_frame sk) w HBw) as X.
    pose proof (kobj_get_res sk w I) as Y. destruct (kobj_get sk w) as [[er|a] w1]; [exact X | split; assumption]. }
  intro o. intros w [[HP [o' [Ho Hc]]] Hn]. rewrite Ho in Hn. inversion Hn; subst o'.
  set (row := {| e_revoked := false; e_created := ko_created o; e_key := enc; e_parent := None |}).
  assert (QZs : qZ (m_store (sk_id e) (ko_created o) row)) by (apply qZ_m_store; rewrite Hc; exact tz).
  pose proof (keeps_PZ t (m_store (sk_id e) (ko_created o) row) (qF_m_store _ _ _) (qR_m_store (sk_id e) (ko_created o) row eq_refl) (pres_m_store now_same now_same_frame _ _ _) QZs w HP) as X.
  destruct (m_store (sk_id e) (ko_created o) row w) as [[er|a] w1]; exact X.
Qed.

Lemma tsik_Z ik sk : hoare (fun w => PZ t w /\ created_of w ik c0) (try_store_intermediate_key e ik sk) (fun _ w => PZ t w) (PZ t).
Proof.
  unfold try_store_intermediate_key. set (B := fun w => PZ t w /\ created_of w ik c0).
  assert (HB : forall {X} (m : M X), qF m -> qR m -> pres now_same m -> qZ m -> pres Rs m -> hoare B m (fun _ w => B w) (PZ t)).
  { intros X m QF QR PN QZ PR. eapply hoare_weaken; [exact (keeps_PZ_F t (fun w => created_of w ik c0) m QF QR PN QZ PR (stableS_created_of ik c0)) | | |]; unfold B; cbv beta; tauto. }
  eapply (hoare_bind _ _ (fun _ w => B w)); [exact (HB _ _ (qF_key_bytes ik) (qR_key_bytes ik) (pres_key_bytes now_same now_same_frame ik) (qZ_key_bytes ik) (pres_key_bytes Rs Rs_frame ik))|]. intro ikb.
  eapply (hoare_bind _ _ (fun _ w => B w)); [exact (HB _ _ (qF_key_bytes sk) (qR_key_bytes sk) (pres_key_bytes now_same now_same_frame sk) (qZ_key_bytes sk) (pres_key_bytes Rs Rs_frame sk))|]. intro skb.
  eapply (hoare_bind _ _ (fun _ w => B w)); [exact (HB _ _ (qF_aead_encrypt ikb skb) (qR_aead_encrypt ikb skb) (pres_aead_encrypt now_same now_same_frame ikb skb) (qZ_aead_encrypt ikb skb) (pres_aead_encrypt Rs Rs_frame ikb skb))|]. intro enc.
  eapply (hoare_bind _ _ (fun iko w => B w /\ nth_error (w_kobjs w) ik = Some iko)).
  { intros w HBw. pose proof (HB _ _ (qF_kobj_get ik) (qR_kobj_get ik) (pres_kobj_get now_same now_same_frame ik) (qZ_kobj_get ik) (pres_kobj_get Rs Rs_frame ik) w HBw) as X.
    pose proof (kobj_get_res ik w I) as Y. destruct (kobj_get ik w) as [[er|a] w1]; [exact X | split; assumption]. }
  intro iko. apply (hoare_pull _ (ko_created iko = c0)).
  { intros w [[_ [o' [Ho Hc]]] Hn]. rewrite Ho in Hn. inversion Hn; subst o'. exact Hc. }
  intro Eiko.
  eapply (hoare_bind _ _ (fun _ w => PZ t w)).
  { eapply hoare_weaken; [exact (keeps_PZ t _ (qF_kobj_get sk) (qR_kobj_get sk) (pres_kobj_get now_same now_same_frame sk) (qZ_kobj_get sk)) | | |]; cbv beta; try tauto. intros w [[HP _] _]. exact HP. }
  intro sko.
  apply (keeps_PZ t); [apply qF_m_store | apply qR_m_store; reflexivity | apply (pres_m_store now_same now_same_frame) | apply qZ_m_store; rewrite Eiko; exact tz].
Qed.


Lemma generate_key_now_Z : hoare (PZ t) (generate_key_now e) (fun k w => PZ t w /\ created_of w k c0) (PZ t).
Proof.
  intros w [HP HN]. pose proof (generate_key_now_fresh e t w HP) as X. pose proof (qZ_generate_key_now e w HN) as Y.
  pose proof (hoare_PT0 t _ (qF_generate_key_now e) (qR_generate_key_now e) (pres_generate_key_now now_same now_same_frame e) w HP) as Z0.
  destruct (generate_key_now e w) as [[er|k] w1]; cbn [snd] in Y; [split; assumption|].
  destruct X as [X1 X2]. split; [split; assumption | exact X2].
Qed.

Lemma sk_loader_Z id : hoare (PZ t) (load_latest_or_create_system_key e id) (fun _ w => PZ t w) (PZ t).
Proof.
  unfold load_latest_or_create_system_key.
  assert (HK : forall {X} (m : M X), qF m -> qR m -> pres now_same m -> qZ m -> hoare (PZ t) m (fun _ w => PZ t w) (PZ t)).
  { intros X m QF QR PN QZ. exact (keeps_PZ t m QF QR PN QZ). }
  eapply (hoare_bind _ _ (fun _ w => PZ t w)); [exact (HK _ _ (qF_m_load_latest _) (qR_m_load_latest _) (pres_m_load_latest now_same now_same_frame _) (qZ_m_load_latest _))|]. intro r.
  eapply (hoare_bind _ _ (fun _ w => PZ t w)).
  { destruct r as [r0|]; [|apply hoare_ret; tauto].
    apply HK; [qF_go | | | ].
    - apply qR_bind; [apply qR_is_envelope_invalid | intro; apply qR_ret].
    - apply (pres_bind now_same now_same_frame); [apply (pres_is_envelope_invalid now_same now_same_frame) | intro; apply (pres_ret now_same now_same_frame)].
    - apply qZ_bind; [apply qZ_is_envelope_invalid | intro; apply qZ_ret]. }
  intro valid.
  assert (Create : hoare (PZ t)
            (sk <- generate_key_now e;; st <- try_ (try_store_system_key e sk);;
             match st with
             | inr true => ret sk
             | inr false => ck_close sk;;; (r2 <- must_load_latest id;; system_key_from_ekr r2)
             | inl er => ck_close sk;;; fail er
             end) (fun _ w => PZ t w) (PZ t)).
  { eapply (hoare_bind _ _ _); [apply generate_key_now_Z|]. intro sk.
    eapply (hoare_bind _ _ (fun _ w => PZ t w)).
    { eapply hoare_try with (Q1 := fun _ w => PZ t w) (E1 := PZ t); [exact (tssk_Z sk) | cbv beta; tauto | cbv beta; tauto]. }
    intros [er|[|]].
    - eapply (hoare_bind _ _ (fun _ w => PZ t w)); [exact (HK _ _ (qF_ck_close sk) (qR_ck_close sk) (pres_ck_close now_same now_same_frame sk) (qZ_ck_close sk))|]. intros _. apply hoare_fail. tauto.
    - apply hoare_ret. tauto.
    - eapply (hoare_bind _ _ (fun _ w => PZ t w)); [exact (HK _ _ (qF_ck_close sk) (qR_ck_close sk) (pres_ck_close now_same now_same_frame sk) (qZ_ck_close sk))|]. intros _.
      eapply (hoare_bind _ _ (fun _ w => PZ t w)); [exact (HK _ _ (qF_must_load_latest _) (qR_must_load_latest _) (pres_must_load_latest now_same now_same_frame _) (qZ_must_load_latest _))|]. intro r2.
      exact (HK _ _ (qF_system_key_from_ekr r2) (qR_system_key_from_ekr r2) (pres_system_key_from_ekr now_same now_same_frame r2) (qZ_system_key_from_ekr r2)). }
  destruct r as [r0|]; [destruct valid|]; [|exact Create|exact Create].
  exact (HK _ _ (qF_system_key_from_ekr r0) (qR_system_key_from_ekr r0) (pres_system_key_from_ekr now_same now_same_frame r0) (qZ_system_key_from_ekr r0)).
Qed.

Lemma kc_load_Z cid meta (loader : keymeta -> M nat) :
  hoare (PZ t) (loader meta) (fun _ w => PZ t w) (PZ t) -> hoare (PZ t) (kc_load cid meta loader) (fun _ w => PZ t w) (PZ t).
Proof.
  intros HL w HP. specialize (HL w HP). unfold kc_load. unfold bind at 1. destruct (loader meta w) as [[er|k] w1]; [exact HL|].
  exact (keeps_PZ t (kc_load cid meta (fun _ => ret k))
           (qF_kc_load cid meta _ (fun _ => qF_ret k)) (qR_kc_load cid meta _ (fun _ => qR_ret k))
           (pres_kc_load now_same now_same_frame cid meta _ (fun _ => pres_ret now_same now_same_frame k))
           (qZ_kc_load cid meta _ (fun _ => qZ_ret k)) w1 HL).
Qed.

Lemma gol_latest_Z c rci ex id (loader : keymeta -> M nat) :
  hoare (PZ t) (loader {| km_id := id; km_created := 0 |}) (fun _ w => PZ t w) (PZ t) ->
  hoare (PZ t) (get_or_load_latest c rci ex id loader) (fun _ w => PZ t w) (PZ t).
Proof.
  intro HL.
  assert (HK : forall {X} (m : M X), qF m -> qR m -> pres now_same m -> qZ m -> hoare (PZ t) m (fun _ w => PZ t w) (PZ t)).
  { intros X m QF QR PN QZ. exact (keeps_PZ t m QF QR PN QZ). }
  unfold get_or_load_latest. destruct c as [cid|].
  - set (meta := {| km_id := id; km_created := 0 |}) in *.
    eapply (hoare_bind _ _ (fun _ w => PZ t w)); [exact (HK _ _ (qF_kc_get_fresh cid rci meta) (qR_kc_get_fresh cid rci meta) (pres_kc_get_fresh now_same now_same_frame cid rci meta) (qZ_kc_get_fresh cid rci meta))|].
    intro f.
    eapply (hoare_bind _ _ (fun _ w => PZ t w)).
    { destruct f as [[k [|]]|]; [apply hoare_ret; tauto | |]; exact (kc_load_Z cid meta loader HL). }
    intro key.
    eapply (hoare_bind _ _ (fun _ w => PZ t w)); [exact (HK _ _ (qF_is_key_invalid key ex) (qR_is_key_invalid key ex) (pres_is_key_invalid now_same now_same_frame key ex) (qZ_is_key_invalid key ex))|].
    intros [|].
    + eapply (hoare_bind _ _ (fun _ w => PZ t w)); [exact HL|]. intro reloaded.
      eapply (hoare_bind _ _ (fun _ w => PZ t w)); [exact (HK _ _ (qF_kobj_get _) (qR_kobj_get _) (pres_kobj_get now_same now_same_frame _) (qZ_kobj_get _))|]. intro ro.
      eapply (hoare_bind _ _ (fun _ w => PZ t w)); [exact (HK _ _ qF_get_now qR_get_now (pres_get_now now_same now_same_frame) qZ_get_now)|]. intro now.
      eapply (hoare_bind _ _ (fun _ w => PZ t w)); [exact (HK _ _ (qF_cck_wrap _) (qR_cck_wrap _) (pres_cck_wrap now_same now_same_frame _) (qZ_cck_wrap _))|]. intros _.
      eapply (hoare_bind _ _ (fun _ w => PZ t w)); [exact (HK _ _ (qF_kc_write cid _ _) (qR_kc_write cid _ _) (pres_kc_write now_same now_same_frame cid _ _) (qZ_kc_write cid _ _))|]. intros _.
      eapply (hoare_bind _ _ (fun _ w => PZ t w)); [exact (HK _ _ (qF_cck_increment _) (qR_cck_increment _) (pres_cck_increment now_same now_same_frame _) (qZ_cck_increment _))|]. intros _.
      apply hoare_ret. tauto.
    + eapply (hoare_bind _ _ (fun _ w => PZ t w)); [exact (HK _ _ (qF_cck_increment _) (qR_cck_increment _) (pres_cck_increment now_same now_same_frame _) (qZ_cck_increment _))|]. intros _.
      apply hoare_ret. tauto.
  - eapply (hoare_bind _ _ (fun _ w => PZ t w)); [exact HL|]. intro k.
    eapply (hoare_bind _ _ (fun _ w => PZ t w)); [exact (HK _ _ (qF_cck_wrap _) (qR_cck_wrap _) (pres_cck_wrap now_same now_same_frame _) (qZ_cck_wrap _))|]. intros _.
    apply hoare_ret. tauto.
Qed.

Lemma create_ik_with_sk_Z sk : hoare (PZ t) (create_ik_with_sk e sk) (fun _ w => PZ t w) (PZ t).
Proof.
  unfold create_ik_with_sk.
  assert (HK : forall {X} (m : M X), qF m -> qR m -> pres now_same m -> qZ m -> hoare (PZ t) m (fun _ w => PZ t w) (PZ t)).
  { intros X m QF QR PN QZ. exact (keeps_PZ t m QF QR PN QZ). }
  eapply (hoare_bind _ _ _); [apply generate_key_now_Z|]. intro ik.
  eapply (hoare_bind _ _ (fun _ w => PZ t w)).
  { eapply hoare_try with (Q1 := fun _ w => PZ t w) (E1 := PZ t); [exact (tsik_Z ik sk) | cbv beta; tauto | cbv beta; tauto]. }
  intros [er|[|]].
  - eapply (hoare_bind _ _ (fun _ w => PZ t w)); [exact (HK _ _ (qF_ck_close ik) (qR_ck_close ik) (pres_ck_close now_same now_same_frame ik) (qZ_ck_close ik))|]. intros _. apply hoare_fail. tauto.
  - apply hoare_ret. tauto.
  - eapply (hoare_bind _ _ (fun _ w => PZ t w)); [exact (HK _ _ (qF_ck_close ik) (qR_ck_close ik) (pres_ck_close now_same now_same_frame ik) (qZ_ck_close ik))|]. intros _.
    eapply (hoare_bind _ _ (fun _ w => PZ t w)); [exact (HK _ _ (qF_must_load_latest _) (qR_must_load_latest _) (pres_must_load_latest now_same now_same_frame _) (qZ_must_load_latest _))|]. intro r2.
    exact (HK _ _ (qF_intermediate_key_from_ekr e sk r2) (qR_intermediate_key_from_ekr e sk r2) (pres_intermediate_key_from_ekr now_same now_same_frame e sk r2) (qZ_intermediate_key_from_ekr e sk r2)).
Qed.

Lemma create_intermediate_key_Z : hoare (PZ t) (create_intermediate_key e) (fun _ w => PZ t w) (PZ t).
Proof.
  unfold create_intermediate_key.
  eapply (hoare_bind _ _ (fun _ w => PZ t w)); [apply gol_latest_Z; apply sk_loader_Z|]. intro sk.
  eapply hoare_finally with (Q1 := fun _ w => PZ t w) (E1 := PZ t).
  - apply create_ik_with_sk_Z.
  - intros _. exact (keeps_PZ t _ (qF_cck_close sk) (qR_cck_close sk) (pres_cck_close now_same now_same_frame sk) (qZ_cck_close sk)).
  - exact (keeps_PZ t _ (qF_cck_close sk) (qR_cck_close sk) (pres_cck_close now_same now_same_frame sk) (qZ_cck_close sk)).
Qed.

Lemma loader_Z id : hoare (PZ t) (load_latest_or_create_intermediate_key e id) (fun _ w => PZ t w) (PZ t).
Proof.
  unfold load_latest_or_create_intermediate_key.
  assert (HK : forall {X} (m : M X), qF m -> qR m -> pres now_same m -> qZ m -> hoare (PZ t) m (fun _ w => PZ t w) (PZ t)).
  { intros X m QF QR PN QZ. exact (keeps_PZ t m QF QR PN QZ). }
  eapply (hoare_bind _ _ (fun _ w => PZ t w)); [exact (HK _ _ (qF_m_load_latest _) (qR_m_load_latest _) (pres_m_load_latest now_same now_same_frame _) (qZ_m_load_latest _))|]. intro r.
  eapply (hoare_bind _ _ (fun _ w => PZ t w)).
  { destruct r as [r0|]; [|apply hoare_ret; tauto]. destruct (e_parent r0); [|apply hoare_ret; tauto].
    apply HK; [qF_go | | | ].
    - apply qR_bind; [apply qR_is_envelope_invalid | intro; apply qR_ret].
    - apply (pres_bind now_same now_same_frame); [apply (pres_is_envelope_invalid now_same now_same_frame) | intro; apply (pres_ret now_same now_same_frame)].
    - apply qZ_bind; [apply qZ_is_envelope_invalid | intro; apply qZ_ret]. }
  intro usable.
  destruct r as [r0|]; [|apply create_intermediate_key_Z].
  destruct usable; [|apply create_intermediate_key_Z].
  destruct (e_parent r0) as [pm|]; [|apply create_intermediate_key_Z].
  eapply (hoare_bind _ _ (fun _ w => PZ t w)).
  { eapply hoare_try with (Q1 := fun _ w => PZ t w) (E1 := PZ t); [| cbv beta; tauto | cbv beta; tauto].
    exact (HK _ _ (qF_get_or_load_system_key e pm) (qR_get_or_load_system_key e pm) (pres_get_or_load_system_key now_same now_same_frame e pm) (qZ_get_or_load_system_key e pm)). }
  intros [er|sk]; [apply create_intermediate_key_Z|].
  eapply hoare_finally with (Q1 := fun _ w => PZ t w) (E1 := PZ t).
  - eapply (hoare_bind _ _ (fun _ w => PZ t w)).
    + exact (HK _ _ (qF_get_valid_intermediate_key e sk r0) (qR_get_valid_intermediate_key e sk r0) (pres_get_valid_intermediate_key now_same now_same_frame e sk r0) (qZ_get_valid_intermediate_key e sk r0)).
    + intros [ik|]; [apply hoare_ret; tauto | apply create_intermediate_key_Z].
  - intros _. exact (HK _ _ (qF_cck_close sk) (qR_cck_close sk) (pres_cck_close now_same now_same_frame sk) (qZ_cck_close sk)).
  - exact (HK _ _ (qF_cck_close sk) (qR_cck_close sk) (pres_cck_close now_same now_same_frame sk) (qZ_cck_close sk)).
Qed.

End PartZ.

(* ---- Part T: the no-failure chain ------------------------------------------------------------------------------------ *)

Lemma hoare_trivial' {A} (P : world -> Prop) (m : M A) : hoare P m (fun _ _ => True) (fun _ => True).
Proof. intros w _. destruct (m w) as [[?|?] ?]; exact I. Qed.

Lemma hoare_trivial {A} (m : M A) : hoare (fun _ => True) m (fun _ _ => True) (fun _ => True).
Proof. intros w _. destruct (m w) as [[?|?] ?]; exact I. Qed.

(* facts that survive steps that touch neither key objects, secrets, caches nor the fault plan *)

(* everything below is relative to a set Dd of destroyed key caches (LiveD.v) *)
Section TD.
Variable Dd : nat -> Prop.
Local Notation HIL := (LiveD.HIL Dd).
Local Notation IL := (LiveD.IL Dd).
Local Notation IL_begin_op := (LiveD.IL_begin_op Dd).
Local Notation PT := (LiveD.PT Dd).
Local Notation cached := (LiveD.cached Dd).
Local Notation ck_close_L := (LiveD.ck_close_L Dd).
Local Notation create_intermediate_key_IL := (LiveD.create_intermediate_key_IL Dd).
Local Notation freshk := (LiveD.freshk Dd).
Local Notation freshk_same := (LiveD.freshk_same Dd).
Local Notation generate_key_L := (LiveD.generate_key_L Dd).
Local Notation generate_key_now_L := (LiveD.generate_key_now_L Dd).
Local Notation get_or_load_IL := (LiveD.get_or_load_IL Dd).
Local Notation get_or_load_latest_IL := (LiveD.get_or_load_latest_IL Dd).
Local Notation get_or_load_system_key_IL := (LiveD.get_or_load_system_key_IL Dd).
Local Notation get_valid_intermediate_key_IL := (LiveD.get_valid_intermediate_key_IL Dd).
Local Notation heldkey := (LiveD.heldkey Dd).
Local Notation kc_get_fresh_IL := (LiveD.kc_get_fresh_IL Dd).
Local Notation kc_load_IL := (LiveD.kc_load_IL Dd).
Local Notation load_latest_or_create_intermediate_key_okL := (LiveD.load_latest_or_create_intermediate_key_okL Dd).
Local Notation load_latest_or_create_system_key_okL := (LiveD.load_latest_or_create_system_key_okL Dd).
Local Notation load_system_key_okL := (LiveD.load_system_key_okL Dd).
Local Notation loader_okL := (LiveD.loader_okL Dd).
Local Notation n_get_or_load_system_key := (LiveD.n_get_or_load_system_key Dd).
Local Notation n_intermediate_key_from_ekr := (LiveD.n_intermediate_key_from_ekr Dd).
Local Notation n_kc_get_fresh := (LiveD.n_kc_get_fresh Dd).
Local Notation stableL_LInv := (LiveD.stableL_LInv Dd).
Local Notation LInv := (LiveD.LInv Dd).

Definition SQL (F : world -> Prop) : Prop := forall w w', same_live w w' -> sameF w w' -> F w -> F w'.

Lemma noerr_ql {A B} (F : world -> Prop) (m : M A) (f : A -> M B) :
  qL m -> qF m -> SQL F -> noerr F m -> (forall a, noerr F (f a)) -> noerr F (bind m f).
Proof.
  intros QL QF S Nm Nf. eapply noerr_bind with (Q1 := fun _ w => F w) (E := fun _ => True); [exact Nm | | exact Nf].
  intros w Hw. specialize (QL w). specialize (QF w). destruct (m w) as [[er|a] w1]; [exact I|]. exact (S w w1 QL QF Hw).
Qed.

Lemma noerr_ql_res {A B} (F : world -> Prop) (m : M A) (phi : A -> world -> Prop) (f : A -> M B) :
  qL m -> qF m -> SQL F -> hoare (fun _ => True) m phi (fun _ => True) -> noerr F m -> (forall a, noerr (fun w => F w /\ phi a w) (f a)) -> noerr F (bind m f).
Proof.
  intros QL QF S Hr Nm Nf. eapply noerr_bind with (Q1 := fun a w => F w /\ phi a w) (E := fun _ => True); [exact Nm | | exact Nf].
  intros w Hw. specialize (QL w). specialize (QF w). specialize (Hr w I). destruct (m w) as [[er|a] w1]; [exact I|]. split; [exact (S w w1 QL QF Hw) | exact Hr].
Qed.

Lemma n_m_store id c r : noerr NF (m_store id c r).
Proof.
  intros w Hnf. unfold m_store, bind. rewrite (next_call_nf w Hnf). unfold store_insert. cbn [w_store with_calls].
  destruct (store_find id c (w_store w)); cbn; eexists; eexists; reflexivity.
Qed.
Lemma n_kms_encrypt p : noerr NF (kms_encrypt p).
Proof. intros w H. unfold kms_encrypt, bind. rewrite (next_call_nf w H). eexists; eexists; reflexivity. Qed.
Lemma n_aead_encrypt p k : noerr NF (aead_encrypt p (PKey k)).
Proof. intros w H. unfold aead_encrypt, bind, bump_nonce. rewrite (next_call_nf w H). cbn. eexists; eexists; reflexivity. Qed.
Lemma n_generate_key c : noerr NF (generate_key c).
Proof. intros w H. unfold generate_key, secret_random, bind. rewrite (next_call_nf w H). eexists; eexists; reflexivity. Qed.
Lemma n_generate_key_now e : noerr NF (generate_key_now e).
Proof. intros w H. unfold generate_key_now, bind, get_now, gets. cbn. exact (n_generate_key _ w H). Qed.

(* try_ of a total program always hands back a value *)
Lemma try_total {A} (P : world -> Prop) (m : M A) : noerr P m -> hoare P (try_ m) (fun st _ => exists b, st = inr b) (fun _ => False).
Proof. intros N w Hw. unfold try_. destruct (N w Hw) as [a [w1 E]]. rewrite E. exists a. reflexivity. Qed.
Lemma n_try {A} (P : world -> Prop) (m : M A) : noerr P (try_ m).
Proof. intros w _. unfold try_. destruct (m w) as [r w1]. eexists; eexists; reflexivity. Qed.

Lemma SQL_and F G : SQL F -> SQL G -> SQL (fun w => F w /\ G w).
Proof. intros A B w w' S1 S2 [X Y]. split; [exact (A w w' S1 S2 X) | exact (B w w' S1 S2 Y)]. Qed.
Lemma SQL_NF : SQL NF.
Proof. intros w w' _ S H. unfold NF in *. rewrite (proj2 S). exact H. Qed.
Lemma SQL_L (F : world -> Prop) : stableL F -> SQL F.
Proof. intros S w w' S1 _ H. exact (S w w' S1 H). Qed.

Lemma stableL_open k : stableL (fun w => open_k w k).
Proof. intros w w' S H. exact (open_same w w' k S H). Qed.
Lemma stableL_exists_k k : stableL (fun w => exists_k w k).
Proof. intros w w' [E _] [o Ho]. exists o. rewrite E. exact Ho. Qed.

Lemma n_is_key_invalid0 k ex : noerr (fun w => exists_k w k) (is_key_invalid k ex).
Proof. intros w [o Ho]. unfold is_key_invalid, bind. rewrite (kobj_get_run k w o Ho). unfold get_now, gets, ret. eexists; eexists; reflexivity. Qed.

(* tryStoreSystemKey / tryStoreIntermediateKey cannot fail when their keys are open and no fault is planned *)
Lemma n_try_store_system_key e sk : noerr (fun w => open_k w sk /\ NF w) (try_store_system_key e sk).
Proof.
  unfold try_store_system_key. set (F := fun w => open_k w sk /\ NF w).
  assert (SF : SQL F) by (apply SQL_and; [apply SQL_L, stableL_open | apply SQL_NF]).
  apply (noerr_ql F); [apply qL_key_bytes | apply qF_key_bytes | exact SF | eapply noerr_pre; [apply n_key_bytes | unfold F; tauto] |]. intro skb.
  apply (noerr_ql F); [apply qL_kms_encrypt | apply qF_kms_encrypt | exact SF | eapply noerr_pre; [apply n_kms_encrypt | unfold F; tauto] |]. intro enc.
  apply (noerr_ql F); [apply qL_kobj_get | apply qF_kobj_get | exact SF | eapply noerr_pre; [apply n_kobj_get | unfold F; intros w [O _]; exact (open_exists_k w sk O)] |]. intro o.
  eapply noerr_pre; [apply n_m_store | unfold F; tauto].
Qed.

Lemma stableL_mat_of k p : stableL (fun w => mat_of w k p).
Proof. intros w w' [E1 [E2 _]] [o [sc [A [B C]]]]. exists o, sc. rewrite E1, E2. repeat split; assumption. Qed.

Lemma n_try_store_intermediate_key e ik sk skm :
  noerr (fun w => open_k w ik /\ open_k w sk /\ mat_of w sk (PKey skm) /\ NF w) (try_store_intermediate_key e ik sk).
Proof.
  unfold try_store_intermediate_key. set (F := fun w => open_k w ik /\ open_k w sk /\ mat_of w sk (PKey skm) /\ NF w).
  assert (SF : SQL F) by (apply SQL_and; [apply SQL_L, stableL_open | apply SQL_and; [apply SQL_L, stableL_open | apply SQL_and; [apply SQL_L, stableL_mat_of | apply SQL_NF]]]).
  apply (noerr_ql F); [apply qL_key_bytes | apply qF_key_bytes | exact SF | eapply noerr_pre; [apply n_key_bytes | unfold F; tauto] |]. intro ikb.
  apply (noerr_ql_res F (key_bytes sk) (fun p w => mat_of w sk p)); [apply qL_key_bytes | apply qF_key_bytes | exact SF | apply key_bytes_res | eapply noerr_pre; [apply n_key_bytes | unfold F; tauto] |]. intro skb.
  apply (noerr_pull _ (skb = PKey skm)); [intros w [[_ [_ [Hm _]]] Hm']; exact (mat_of_fun _ _ _ _ Hm' Hm)|]. intros ->.
  eapply noerr_pre with (P' := F); [|cbv beta; tauto].
  apply (noerr_ql F); [apply qL_aead_encrypt | apply qF_aead_encrypt | exact SF | eapply noerr_pre; [apply n_aead_encrypt | unfold F; tauto] |]. intro enc.
  apply (noerr_ql F); [apply qL_kobj_get | apply qF_kobj_get | exact SF | eapply noerr_pre; [apply n_kobj_get | unfold F; intros w [O _]; exact (open_exists_k w ik O)] |]. intro iko.
  apply (noerr_ql F); [apply qL_kobj_get | apply qF_kobj_get | exact SF | eapply noerr_pre; [apply n_kobj_get | unfold F; intros w [_ [O _]]; exact (open_exists_k w sk O)] |]. intro sko.
  eapply noerr_pre; [apply n_m_store | unfold F; tauto].
Qed.

(* the part of EncryptPayload after the intermediate key is in hand *)
Lemma n_encrypt_with_ik e ik payload H ikm :
  H ik >= 1 ->
  noerr (fun w => LInv NoX H w /\ mat_of w ik (PKey ikm) /\ NF w) (encrypt_with_ik e ik payload).
Proof.
  intro Hge. unfold encrypt_with_ik.
  set (P := fun w => LInv NoX H w /\ mat_of w ik (PKey ikm) /\ NF w).
  eapply noerr_bind with (Q1 := fun _ w => P w) (E := fun _ => True); [apply n_get_now | |].
  { intros w HP. exact HP. }
  intro now.
  set (Body := fun (drk dm : nat) w => LInv NoX H w /\ freshk NoX H w drk /\ mat_of w ik (PKey ikm) /\ NF w /\ mat_of w drk (PKey dm)).
  eapply noerr_bind with (Q1 := fun drk w => exists dm, Body drk dm w) (E := fun _ => True).
  - eapply noerr_pre; [apply n_generate_key | unfold P; tauto].
  - intros w [L [Hm Hnf]].
    pose proof (generate_key_L NoX H (now / sec) w L) as X1. pose proof (generate_key_res (now / sec) w I) as X2.
    pose proof (pres_generate_key Rs Rs_frame (now / sec) w) as R. pose proof (qF_generate_key (now / sec) w) as QF.
    destruct (generate_key (now / sec) w) as [[er|drk] w1]; cbn [snd] in *; [exact I|].
    destruct X2 as [_ [dm Hdm]]. exists dm. unfold Body. destruct X1 as [L1 Fr1].
    split; [exact L1|]. split; [exact Fr1|]. split; [exact (stableS_mat_of ik _ w w1 R Hm)|]. split; [unfold NF in *; rewrite (proj2 QF); exact Hnf | exact Hdm].
  - intro drk. apply noerr_finally. apply noerr_ex. intro dm.
    set (F := Body drk dm).
    assert (SF : SQL F).
    { unfold F, Body. apply SQL_and; [apply SQL_L, stableL_LInv|]. apply SQL_and; [apply SQL_L; intros w w' S X; exact (freshk_same _ _ _ _ _ S X)|].
      apply SQL_and; [apply SQL_L, stableL_mat_of|]. apply SQL_and; [apply SQL_NF | apply SQL_L, stableL_mat_of]. }
    assert (Odrk : forall w, F w -> open_k w drk) by (intros w [_ [[O _] _]]; exact O).
    assert (Oik : forall w, F w -> open_k w ik) by (intros w [L _]; exact (proj1 (l_held _ _ _ _ L ik ltac:(lia)))).
    apply (noerr_ql_res F (key_bytes drk) (fun p w => mat_of w drk p)); [apply qL_key_bytes | apply qF_key_bytes | exact SF | apply key_bytes_res | eapply noerr_pre; [apply n_key_bytes | exact Odrk] |]. intro drkb.
    apply (noerr_pull _ (drkb = PKey dm)); [intros w [[_ [_ [_ [_ Hm]]]] Hm']; exact (mat_of_fun _ _ _ _ Hm' Hm)|]. intros ->.
    eapply noerr_pre with (P' := F); [|cbv beta; tauto].
    apply (noerr_ql F); [apply qL_aead_encrypt | apply qF_aead_encrypt | exact SF | eapply noerr_pre; [apply n_aead_encrypt | unfold F, Body; tauto] |]. intro enc_data.
    apply (noerr_ql_res F (key_bytes ik) (fun p w => mat_of w ik p)); [apply qL_key_bytes | apply qF_key_bytes | exact SF | apply key_bytes_res | eapply noerr_pre; [apply n_key_bytes | exact Oik] |]. intro ikb.
    apply (noerr_pull _ (ikb = PKey ikm)); [intros w [[_ [_ [Hm _]]] Hm']; exact (mat_of_fun _ _ _ _ Hm' Hm)|]. intros ->.
    eapply noerr_pre with (P' := F); [|cbv beta; tauto].
    apply (noerr_ql F); [apply qL_key_bytes | apply qF_key_bytes | exact SF | eapply noerr_pre; [apply n_key_bytes | exact Odrk] |]. intro drkb2.
    apply (noerr_ql F); [apply qL_aead_encrypt | apply qF_aead_encrypt | exact SF | eapply noerr_pre; [apply n_aead_encrypt | unfold F, Body; tauto] |]. intro enc_key.
    apply (noerr_ql F); [apply qL_kobj_get | apply qF_kobj_get | exact SF | eapply noerr_pre; [apply n_kobj_get | intros w HF; exact (open_exists_k w drk (Odrk w HF))] |]. intro drko.
    apply (noerr_ql F); [apply qL_kobj_get | apply qF_kobj_get | exact SF | eapply noerr_pre; [apply n_kobj_get | intros w HF; exact (open_exists_k w ik (Oik w HF))] |]. intro iko.
    apply noerr_ret.
Qed.

Section PartT.
Variables svc prod : str.
Notation Iv := (Iv svc prod).
Notation IL := (IL svc prod).
Notation bound := (bound svc prod).
Notation handed := (handed svc prod).
Notation env_ok := (env_ok svc prod).
Notation SKid := (SKid svc prod).
Notation store_ok := (store_ok svc prod).
Notation sk_row := (sk_row svc prod).

Variable kinds : list bool.
Variable e : env.
Hypothesis EO : env_ok kinds e.
Hypothesis EL : env_live Dd e.
Variable t : Z.
Let prec := p_precision (en_pol e).
Let c0 := new_key_timestamp t prec.
Hypothesis tz : c0 <> 0.

(* what every point of the operation knows *)
Definition Base (H : holds) (w : world) : Prop := Iv kinds w /\ LInv NoX H w /\ PZ t w.

Lemma Base_NF H w : Base H w -> NF w. Proof. intros [_ [_ [[X _] _]]]. exact X. Qed.
Lemma Base_store_ok H w : Base H w -> store_ok (w_store w). Proof. intros [[X _] _]. exact X. Qed.

(* a step that allocates nothing and touches neither caches nor rows *)
Lemma Base_q {A} H (m : M A) w :
  quiet0 m -> qL m -> qF m -> qR m -> pres now_same m -> qZ m -> Base H w -> Base H (snd (m w)).
Proof.
  intros Q0 QL QF QR PN QZ [HI [L HP]]. split; [exact (stable0_Iv svc prod kinds w _ (Q0 w) HI)|]. split; [exact (LInv_same _ _ _ _ _ (QL w) L)|].
  pose proof (keeps_PZ t m QF QR PN QZ w HP) as X. destruct (m w) as [[er|a] w1]; exact X.
Qed.

Lemma sk_row_key st c m : sk_row st c m -> exists r, store_find SKid c st = Some r /\ e_key r = CKms (PKey m).
Proof. intros [r [H1 [_ [_ H2]]]]. exists r. split; assumption. Qed.

Lemma store_ok_sk st c r : store_ok st -> store_find SKid c st = Some r -> exists m, e_key r = CKms (PKey m).
Proof.
  intros SO Hf. destruct (SO SKid c r Hf) as [[_ [m Hr]]|[p [Ei _]]].
  - destruct (sk_row_key st c m Hr) as [r' [Hf' Hk]]. rewrite Hf in Hf'. inversion Hf'; subst r'. exists m. exact Hk.
  - exfalso. exact (SK_not_IK svc prod p Ei).
Qed.

Lemma m_load_latest_run id w : NF w -> exists w1, m_load_latest id w = (inr (option_map snd (store_latest id (w_store w) None)), w1).
Proof.
  intro Hnf. unfold m_load_latest, bind. rewrite (next_call_nf w Hnf). unfold get_store, gets, emit, upd, ret. cbn. eexists. reflexivity.
Qed.

Lemma latest_found id st r : option_map snd (store_latest id st None) = Some r -> exists c, store_find id c st = Some r.
Proof. apply store_latest_find. Qed.

Lemma n_must_load_latest id c : noerr (fun w => NF w /\ store_find id c (w_store w) <> None) (must_load_latest id).
Proof.
  intros w [Hnf Hex]. unfold must_load_latest, bind. destruct (m_load_latest_run id w Hnf) as [w1 E]. rewrite E.
  destruct (store_find id c (w_store w)) as [r0|] eqn:Ef; [|contradiction].
  destruct (store_latest_ge id (w_store w) None c r0 Ef) as [c2 [r2 [HL _]]]. rewrite HL. cbn. eexists; eexists; reflexivity.
Qed.


Lemma Base_hoare_q {A} H (G : world -> Prop) (m : M A) (phi : A -> world -> Prop) :
  quiet0 m -> qL m -> qF m -> qR m -> pres now_same m -> qZ m -> stable0 G ->
  hoare (fun _ => True) m phi (fun _ => True) ->
  hoare (fun w => Base H w /\ G w) m (fun a w => (Base H w /\ G w) /\ phi a w) (fun _ => True).
Proof.
  intros Q0 QL QF QR PN QZ SG Hr w [HB HG]. pose proof (Base_q H m w Q0 QL QF QR PN QZ HB) as X. specialize (Hr w I). pose proof (Q0 w) as Q.
  destruct (m w) as [[er|a] w1]; cbn [snd] in *; [exact I|]. split; [split; [exact X | exact (SG w w1 Q HG)] | exact Hr].
Qed.

Lemma stable0_latest_eq id (r : option ekr) : stable0 (fun w => r = option_map snd (store_latest id (w_store w) None)).
Proof. intros w w' [_ Es] H. rewrite Es. exact H. Qed.
Lemma stable0_find_ne id c : stable0 (fun w => store_find id c (w_store w) <> None).
Proof. intros w w' [_ Es] H. rewrite Es. exact H. Qed.
Lemma stable0_true : stable0 (fun _ => True). Proof. intros w w' _ H. exact H. Qed.

Lemma m_load_latest_res' id : hoare (fun _ => True) (m_load_latest id) (fun r w => r = option_map snd (store_latest id (w_store w) None)) (fun _ => True).
Proof.
  eapply hoare_post; [exact (m_load_latest_spec (fun _ => True) (fun _ => True) id stable0_true (fun _ _ => I))|]. cbv beta. tauto.
Qed.

(* systemKeyFromEKR of a row that is in a well-formed store *)
Lemma n_skfe_found H r : noerr (fun w => Base H w /\ exists c, store_find SKid c (w_store w) = Some r) (system_key_from_ekr r).
Proof.
  apply (noerr_pull _ (exists m, e_key r = CKms (PKey m))).
  { intros w [HB [c Hf]]. exact (store_ok_sk _ c r (Base_store_ok H w HB) Hf). }
  intros [m Ek]. eapply noerr_pre; [exact (n_system_key_from_ekr r m Ek)|]. intros w [HB _]. exact (Base_NF H w HB).
Qed.

(* loadLatestOrCreateSystemKey *)
Lemma n_loaderSK H : noerr (Base H) (load_latest_or_create_system_key e SKid).
Proof.
  unfold load_latest_or_create_system_key.
  eapply noerr_bind with (Q1 := fun r w => (Base H w /\ True) /\ r = option_map snd (store_latest SKid (w_store w) None)) (E := fun _ => True).
  { eapply noerr_pre; [apply n_m_load_latest | apply Base_NF]. }
  { eapply hoare_pre; [exact (Base_hoare_q H (fun _ => True) _ _ (q0_m_load_latest _) (qL_m_load_latest _) (qF_m_load_latest _) (qR_m_load_latest _)
                                 (pres_m_load_latest now_same now_same_frame _) (qZ_m_load_latest _) stable0_true (m_load_latest_res' SKid)) | cbv beta; tauto]. }
  intro r.
  set (G := fun w => r = option_map snd (store_latest SKid (w_store w) None)).
  eapply noerr_bind with (Q1 := fun _ w => Base H w /\ G w) (E := fun _ => True).
  { destruct r as [r0|]; [|apply noerr_ret]. apply noerr_bind_ret. unfold is_envelope_invalid. intros w _. eexists; eexists; reflexivity. }
  { assert (Cl : forall X (m : M X), quiet0 m -> qL m -> qF m -> qR m -> pres now_same m -> qZ m ->
                   hoare (fun w => (Base H w /\ True) /\ G w) m (fun _ w => Base H w /\ G w) (fun _ => True)).
    { intros X m Q0 QL QF QR PN QZ. eapply hoare_weaken; [exact (Base_hoare_q H G m (fun _ _ => True) Q0 QL QF QR PN QZ (stable0_latest_eq SKid r) (hoare_trivial m)) | | |]; cbv beta; tauto. }
    destruct r as [r0|].
    - apply Cl; [q0_go | qL_go | qF_go | | | ].
      + apply qR_bind; [apply qR_is_envelope_invalid | intro; apply qR_ret].
      + apply (pres_bind now_same now_same_frame); [apply (pres_is_envelope_invalid now_same now_same_frame) | intro; apply (pres_ret now_same now_same_frame)].
      + apply qZ_bind; [apply qZ_is_envelope_invalid | intro; apply qZ_ret].
    - apply Cl; [apply q0_ret | apply qL_ret | apply qF_ret | apply qR_ret | apply (pres_ret now_same now_same_frame) | apply qZ_ret]. }
  intro valid.
  assert (Create : noerr (fun w => Base H w /\ G w)
            (sk <- generate_key_now e;; st <- try_ (try_store_system_key e sk);;
             match st with
             | inr true => ret sk
             | inr false => ck_close sk;;; (r2 <- must_load_latest SKid;; system_key_from_ekr r2)
             | inl er => ck_close sk;;; fail er
             end)).
  { eapply noerr_bind with (Q1 := fun sk w => Base H w /\ freshk NoX H w sk /\ created_of w sk c0 /\ exists m, mat_of w sk (PKey m)) (E := fun _ => True).
    - eapply noerr_pre; [apply n_generate_key_now|]. intros w [HB _]. exact (Base_NF H w HB).
    - intros w [[HI [L HP]] _].
      pose proof (generate_key_now_spec e (Iv kinds) (Iv kinds) (stable0_Iv svc prod kinds) (fun _ X => X) w HI) as X1.
      pose proof (generate_key_now_L H e w L) as X2. pose proof (generate_key_now_Z e t w HP) as X3.
      destruct (generate_key_now e w) as [[er|sk] w1]; [exact I|].
      destruct X1 as [HI1 Hm]. destruct X2 as [L1 Fr]. destruct X3 as [HP1 Hc]. split; [split; [exact HI1 | split; assumption]|]. split; [exact Fr|]. split; [exact Hc | exact Hm].
    - intro sk.
      eapply noerr_bind with (Q1 := fun st w => (exists b, st = inr b) /\ Base H w /\ freshk NoX H w sk /\ (st = inr false -> store_find SKid c0 (w_store w) <> None)) (E := fun _ => True).
      + apply n_try.
      + intros w [[HI [L HP]] [Fr [Hc [m Hm]]]].
        assert (Hnf : NF w) by exact (proj1 (proj1 HP)).
        pose proof (try_total _ _ (n_try_store_system_key e sk) w (conj (proj1 Fr) Hnf)) as T1.
        pose proof (try_store_system_key_spec svc prod kinds e sk m EO w (conj HI Hm)) as T2.
        pose proof (qL_try_store_system_key e sk w) as T3.
        pose proof (tssk_Z e t tz sk w (conj HP Hc)) as T4.
        pose proof (tssk_refused e sk c0 w (conj Hnf Hc)) as T5.
        unfold try_ in *. destruct (try_store_system_key e sk w) as [[er|b] w1]; cbn [snd] in *.
        * destruct T1 as [b Eb]. discriminate Eb.
        * split; [exists b; reflexivity|]. split; [split; [exact (proj1 T2) | split; [exact (LInv_same _ _ _ _ _ T3 L) | exact T4]]|].
          split; [exact (freshk_same _ _ _ _ _ T3 Fr)|]. intro Eb. inversion Eb; subst b. rewrite <- (sk_id_env svc prod kinds e EO). exact (T5 eq_refl).
      + intros [er|[|]].
        * apply (noerr_pull _ False); [intros w [[b Eb] _]; discriminate Eb | intros []].
        * apply noerr_ret.
        * eapply noerr_bind with (Q1 := fun _ w => Base H w /\ store_find SKid c0 (w_store w) <> None) (E := fun _ => True).
          -- eapply noerr_pre; [apply n_ck_close|]. intros w [_ [_ [[O _] _]]]. exact (open_exists_k w sk O).
          -- intros w [_ [[HI [L HP]] [Fr Hex]]].
             pose proof (q0_ck_close sk w) as Q. pose proof (ck_close_L NoX H sk w (conj L (proj2 Fr))) as X2.
             pose proof (keeps_PZ t _ (qF_ck_close sk) (qR_ck_close sk) (pres_ck_close now_same now_same_frame sk) (qZ_ck_close sk) w HP) as X3.
             destruct (ck_close sk w) as [[er|a] w1]; cbn [snd] in *; [exact I|].
             split; [split; [exact (stable0_Iv svc prod kinds w w1 Q HI) | split; assumption] | rewrite (proj2 Q); exact (Hex eq_refl)].
          -- intros _.
             eapply noerr_bind with (Q1 := fun r2 w => Base H w /\ exists c, store_find SKid c (w_store w) = Some r2) (E := fun _ => True).
             ++ eapply noerr_pre; [exact (n_must_load_latest SKid c0)|]. intros w [HB Hex]. split; [exact (Base_NF H w HB) | exact Hex].
             ++ unfold must_load_latest.
                eapply (hoare_bind _ _ (fun r w => (Base H w /\ True) /\ r = option_map snd (store_latest SKid (w_store w) None))).
                { eapply hoare_pre; [exact (Base_hoare_q H (fun _ => True) _ _ (q0_m_load_latest _) (qL_m_load_latest _) (qF_m_load_latest _) (qR_m_load_latest _)
                                 (pres_m_load_latest now_same now_same_frame _) (qZ_m_load_latest _) stable0_true (m_load_latest_res' SKid)) | cbv beta; tauto]. }
                intros [r2|]; [|apply hoare_fail; tauto]. apply hoare_ret. intros w [[HB _] Er]. split; [exact HB|]. apply latest_found. symmetry. exact Er.
             ++ intro r2. apply n_skfe_found. }
  destruct r as [r0|]; [destruct valid|]; [|exact Create|exact Create].
  eapply noerr_pre; [exact (n_skfe_found H r0)|]. intros w [HB Er]. split; [exact HB|]. apply latest_found. symmetry. exact Er.
Qed.


Definition BX (w : world) : Prop := exists H, Base H w.

Lemma BX_Iv w : BX w -> Iv kinds w. Proof. intros [H [X _]]. exact X. Qed.
Lemma BX_NF w : BX w -> NF w. Proof. intros [H X]. exact (Base_NF H w X). Qed.
Lemma BX_PZ w : BX w -> PZ t w. Proof. intros [H [_ [_ X]]]. exact X. Qed.

Lemma BX_hoare_q {A} (G : world -> Prop) (m : M A) (phi : A -> world -> Prop) :
  quiet0 m -> qL m -> qF m -> qR m -> pres now_same m -> qZ m -> stable0 G ->
  hoare (fun _ => True) m phi (fun _ => True) ->
  hoare (fun w => BX w /\ G w) m (fun a w => (BX w /\ G w) /\ phi a w) (fun _ => True).
Proof.
  intros Q0 QL QF QR PN QZ SG Hr w [[H HB] HG]. pose proof (Base_hoare_q H G m phi Q0 QL QF QR PN QZ SG Hr w (conj HB HG)) as X.
  destruct (m w) as [[er|a] w1]; [exact I|]. destruct X as [[X1 X2] X3]. split; [split; [exists H; exact X1 | exact X2] | exact X3].
Qed.

(* from the three specifications of a step (coherence + liveness, stamps) to one about BX *)
Lemma BX_step {A} (m : M A) (Q : A -> world -> Prop) :
  (forall H, hoare (IL kinds H) m (fun a w => (exists H', IL kinds H' w) /\ Q a w) (fun _ => True)) ->
  hoare (PZ t) m (fun _ w => PZ t w) (PZ t) ->
  hoare BX m (fun a w => BX w /\ Q a w) (fun _ => True).
Proof.
  intros S1 S2 w [H [HI [L HP]]]. specialize (S1 H w (conj HI L)). specialize (S2 w HP).
  destruct (m w) as [[er|a] w1]; [exact I|]. destruct S1 as [[H' [HI' L']] HQ]. split; [exists H'; split; [exact HI' | split; assumption] | exact HQ].
Qed.

Lemma stable0_handed kd meta k : stable0 (fun w => handed kd meta w k).
Proof. apply stable0_of_S. apply stableS_handed. Qed.
Lemma stable0_exists_k k : stable0 (fun w => exists_k w k).
Proof. apply stable0_of_S. apply stableS_exists_k. Qed.

(* GetOrLoadLatest with any cache or none *)
Lemma n_gol_latest c b rci ex id (loader : keymeta -> M nat) :
  let meta := {| km_id := id; km_created := 0 |} in
  cache_kind kinds c b -> cache_live Dd c -> okid svc prod (kd_of b) id ->
  loader_ok svc prod kinds (kd_of b) loader meta -> loader_okL svc prod kinds (kd_of b) loader meta ->
  hoare (PZ t) (loader meta) (fun _ w => PZ t w) (PZ t) ->
  noerr BX (loader meta) ->
  noerr BX (get_or_load_latest c rci ex id loader).
Proof.
  intros meta Hc CL Ok LO LOL LZ NL. set (kd := kd_of b).
  assert (LS : hoare BX (loader meta) (fun k w => BX w /\ handed kd meta w k) (fun _ => True)).
  { apply BX_step; [|exact LZ]. intro H. eapply hoare_weaken; [exact (LOL H) | | |]; cbv beta; try tauto.
    intros k w [H' [_ [HIL [Hh _]]]]. split; [exists H'; exact HIL | exact Hh]. }
  unfold get_or_load_latest. fold meta. destruct c as [cid|].
  - pose proof (Hc cid eq_refl) as Hk. pose proof (CL cid eq_refl) as NDc.
    eapply noerr_bind with (Q1 := fun f w => BX w /\ forall k fr, f = Some (k, fr) -> handed kd meta w k) (E := fun _ => True).
    { eapply noerr_pre; [exact (n_kc_get_fresh svc prod kinds cid b rci meta Hk NDc Ok) | exact BX_Iv]. }
    { apply BX_step.
      - intro H. eapply hoare_weaken; [exact (kc_get_fresh_IL svc prod kinds cid b rci meta H Hk NDc Ok) | | |]; cbv beta; try tauto.
        intros f w [HIL X]. split; [exists H; exact HIL|]. intros k fr E. exact (proj1 (X k fr E)).
      - exact (keeps_PZ t _ (qF_kc_get_fresh cid rci meta) (qR_kc_get_fresh cid rci meta) (pres_kc_get_fresh now_same now_same_frame cid rci meta) (qZ_kc_get_fresh cid rci meta)). }
    intro f.
    eapply noerr_bind with (Q1 := fun key w => BX w /\ handed kd meta w key) (E := fun _ => True).
    { destruct f as [[k [|]]|]; [apply noerr_ret | |];
        (eapply noerr_pre; [exact (n_kc_load svc prod kinds cid b meta loader BX Hk Ok LO BX_Iv NL) | cbv beta; tauto]). }
    { assert (KL : hoare BX (kc_load cid meta loader) (fun key w => BX w /\ handed kd meta w key) (fun _ => True)).
      { apply BX_step; [|exact (kc_load_Z t cid meta loader LZ)]. intro H.
        eapply hoare_weaken; [exact (kc_load_IL svc prod kinds cid b meta loader Hk NDc Ok LO LOL H) | | |]; cbv beta; try tauto.
        intros k w [H' [_ [HIL [Hh _]]]]. split; [exists H'; exact HIL | exact Hh]. }
      destruct f as [[k [|]]|]; [apply hoare_ret; intros w [HB X]; split; [exact HB | exact (X k true eq_refl)] | |];
        (eapply hoare_pre; [exact KL | cbv beta; tauto]). }
    intro key.
    eapply noerr_bind with (Q1 := fun _ w => BX w /\ handed kd meta w key) (E := fun _ => True).
    { eapply noerr_pre; [apply n_is_key_invalid0|]. intros w [_ Hh]. exact (handed_exists svc prod _ _ _ _ Hh). }
    { eapply hoare_post; [exact (BX_hoare_q _ _ (fun _ _ => True) (q0_is_key_invalid key ex) (qL_is_key_invalid key ex) (qF_is_key_invalid key ex) (qR_is_key_invalid key ex)
                                    (pres_is_key_invalid now_same now_same_frame key ex) (qZ_is_key_invalid key ex) (stable0_handed kd meta key) (hoare_trivial _)) | cbv beta; tauto]. }
    intros [|].
    + eapply noerr_bind with (Q1 := fun reloaded w => Iv kinds w /\ exists_k w reloaded) (E := fun _ => True).
      { eapply noerr_pre; [exact NL | cbv beta; tauto]. }
      { eapply hoare_weaken; [exact LS | | |]; cbv beta; try tauto. intros k w [HB Hh]. split; [exact (BX_Iv w HB) | exact (handed_exists svc prod _ _ _ _ Hh)]. }
      intro reloaded.
      set (W := fun w => Iv kinds w /\ exists_k w reloaded).
      assert (SW : stable0 W) by (apply stable0_and; [apply stable0_Iv | apply stable0_exists_k]).
      apply (noerr_q0 W); [apply q0_kobj_get | exact SW | eapply noerr_pre; [apply n_kobj_get | unfold W; tauto] |]. intro ro.
      apply (noerr_q0 W); [apply q0_get_now | exact SW | apply n_get_now |]. intro now.
      apply (noerr_q0 W); [apply q0_cck_wrap | exact SW | eapply noerr_pre; [apply n_cck_wrap | unfold W; tauto] |]. intros _.
      eapply noerr_bind with (Q1 := fun _ w => exists_k w reloaded) (E := fun _ => True).
      { eapply noerr_pre; [exact (n_kc_write svc prod kinds cid b _ _ Hk) | unfold W; cbn [ce_key]; tauto]. }
      { intros w [_ Ex].
        match goal with |- match ?m w with _ => _ end =>
          pose proof (stableS_exists_k reloaded w (snd (m w)) (pres_kc_write Rs Rs_frame cid _ _ w) Ex) as X; destruct (m w) as [[er|a] w1] end; [exact I | exact X]. }
      intros _. apply n_incr_ret.
    + eapply noerr_pre; [apply n_incr_ret|]. intros w [_ Hh]. exact (handed_exists svc prod _ _ _ _ Hh).
  - eapply noerr_bind with (Q1 := fun k w => exists_k w k) (E := fun _ => True); [exact NL | | intro k; apply n_wrap_ret].
    eapply hoare_weaken; [exact LS | | |]; cbv beta; try tauto. intros k w [_ Hh]. exact (handed_exists svc prod _ _ _ _ Hh).
Qed.


(* intermediateKeyFromEKR for a well-formed row, whichever system key is in hand (on a mismatch the right one is fetched) *)
Lemma n_ikfe_gen H sk r c' skm n m :
  H sk >= 1 -> e_parent r = Some {| km_id := SKid; km_created := c' |} -> e_key r = CAead skm n (PKey m) -> c' <> 0 ->
  noerr (fun w => Base H w /\ bound KSk w sk SKid /\ sk_row (w_store w) c' skm) (intermediate_key_from_ekr e sk r).
Proof.
  intros Hge Ep Ek Nz w [HB [Hb Hrow]]. pose proof HB as [HI [L HP]]. pose proof (Base_NF H w HB) as Hnf.
  destruct Hb as [_ [c2 [m2 [Hc2 [Hm2 Hr2]]]]]. cbn [row_ok] in Hr2.
  destruct (Z.eq_dec c2 c') as [->|Ne].
  - pose proof (sk_row_fun svc prod _ _ _ _ Hr2 Hrow) as ->.
    apply (n_intermediate_key_from_ekr svc prod e sk r H c' skm n m Hge Ep Ek). split; [exact L|]. split; [exact Hnf|]. split; assumption.
  - (* the parent is another system key: fetch it (it stays held: finding C09-J), then unwrap under it *)
    set (pm := {| km_id := SKid; km_created := c' |}).
    set (F := fun w0 : world => sk_row (w_store w0) c' skm).
    assert (SF : stableS F) by apply stableS_sk_row.
    pose proof EO as [_ [_ [_ [Hsk _]]]].
    assert (Ok : okid svc prod (kd_of true) (km_id pm)) by reflexivity.
    assert (PTw : PT svc prod kinds H F w) by (split; [split; assumption | split; assumption]).
    destruct (n_get_or_load_system_key svc prod kinds e pm H F skm EO EL eq_refl SF (fun w0 X => X) w PTw) as [sk' [w1 E1]].
    pose proof (get_or_load_IL svc prod kinds (en_sk e) true (p_rci (en_pol e)) pm load_system_key Hsk (proj1 EL) Ok
                  (load_system_key_ok svc prod kinds pm eq_refl) (load_system_key_okL svc prod kinds pm eq_refl) H w (conj HI L)) as S1.
    pose proof (pres_get_or_load_system_key Rs Rs_frame e pm w) as S2. pose proof (qF_get_or_load_system_key e pm w) as S3.
    unfold get_or_load_system_key in E1, S2, S3. rewrite E1 in S1, S2, S3. cbn [snd] in S2, S3.
    destruct S1 as [H' [Le [[HI1 L1] Hh]]].
    assert (Hge' : H' sk' >= 1) by (pose proof (Le sk') as X; rewrite hadd_same in X; pose proof (l_nonneg _ _ _ _ L sk'); lia).
    destruct Hh as [[_ [c3 [m3 [Hc3 [Hm3 Hr3]]]]] Hcr]. pose proof (Hcr (is_latest_nz pm Nz)) as Hc'. cbn [km_created pm] in Hc'.
    pose proof (created_of_fun _ _ _ _ Hc3 Hc') as ->. cbn [row_ok kd_of] in Hr3.
    pose proof (SF w w1 S2 Hrow) as Hrow1. pose proof (sk_row_fun svc prod _ _ _ _ Hr3 Hrow1) as ->.
    assert (Hnf1 : NF w1) by (unfold NF in *; rewrite (proj2 S3); exact Hnf).
    assert (HK : heldkey H' sk' c' skm w1) by (split; [exact L1|]; split; [exact Hnf1|]; split; assumption).
    destruct (n_intermediate_key_from_ekr svc prod e sk' r H' c' skm n m Hge' Ep Ek w1 HK) as [a [w2 E2]].
    destruct Hc2 as [o [Ho Eo]]. destruct Hc' as [o' [Ho' Eo']].
    exists a, w2. unfold intermediate_key_from_ekr, bind in E2 |- *. rewrite (kobj_get_run sk w o Ho). rewrite (kobj_get_run sk' w1 o' Ho') in E2.
    rewrite Ep in E2 |- *. cbn [km_created] in E2 |- *. rewrite Eo', Z.eqb_refl in E2. rewrite Eo.
    assert (Eb : (c2 =? c') = false) by (apply Z.eqb_neq; exact Ne). rewrite Eb.
    unfold get_or_load_system_key. fold pm. rewrite E1. exact E2.
Qed.


Notation ik_row := (ik_row svc prod).
Notation IKid := (IKid svc prod).

Lemma store_ok_ik st pid c r : store_ok st -> store_find (IKid pid) c st = Some r ->
  exists c' skm n m, e_parent r = Some {| km_id := SKid; km_created := c' |} /\ sk_row st c' skm /\ e_key r = CAead skm n (PKey m).
Proof.
  intros SO Hf. destruct (SO (IKid pid) c r Hf) as [[Ei _]|[p [Ei [m [r' [c' [skm [n [Hf' [_ [Hp [Hs Hk]]]]]]]]]]]].
  - exfalso. exact (SK_not_IK svc prod pid (eq_sym Ei)).
  - rewrite Hf in Hf'. inversion Hf'; subst r'. exists c', skm, n, m. repeat split; assumption.
Qed.

Lemma nz_sk_row st c m : nz_store st -> sk_row st c m -> c <> 0.
Proof. intros NZ [r [Hf _]]. exact (NZ _ _ _ Hf). Qed.

(* the part of createIntermediateKey after the system key is in hand *)
Lemma n_create_ik_with_sk H sk :
  H sk >= 1 -> noerr (fun w => Base H w /\ bound KSk w sk SKid) (create_ik_with_sk e sk).
Proof.
  intro Hge. unfold create_ik_with_sk.
  pose proof (ik_id_env svc prod kinds e EO) as Eik. set (pid := p_id (en_part e)) in *.
  eapply noerr_bind with (Q1 := fun ik w => (Base H w /\ bound KSk w sk SKid) /\ freshk NoX H w ik /\ created_of w ik c0 /\ exists m, mat_of w ik (PKey m)) (E := fun _ => True).
  - eapply noerr_pre; [apply n_generate_key_now|]. intros w [HB _]. exact (Base_NF H w HB).
  - intros w [[HI [L HP]] Hb].
    pose proof (generate_key_now_spec e (Iv kinds) (Iv kinds) (stable0_Iv svc prod kinds) (fun _ X => X) w HI) as X1.
    pose proof (generate_key_now_L H e w L) as X2. pose proof (generate_key_now_Z e t w HP) as X3.
    pose proof (pres_generate_key_now Rs Rs_frame e w) as R.
    destruct (generate_key_now e w) as [[er|ik] w1]; cbn [snd] in R; [exact I|].
    destruct X1 as [HI1 Hm]. destruct X2 as [L1 Fr]. destruct X3 as [HP1 Hc].
    split; [split; [split; [exact HI1 | split; assumption] | exact (stableS_bound svc prod KSk sk SKid w w1 R Hb)]|]. split; [exact Fr|]. split; [exact Hc | exact Hm].
  - intro ik.
    eapply noerr_bind with (Q1 := fun st w => (exists b, st = inr b) /\ (Base H w /\ bound KSk w sk SKid) /\ freshk NoX H w ik /\
                                               (st = inr false -> store_find (IKid pid) c0 (w_store w) <> None)) (E := fun _ => True).
    + apply n_try.
    + intros w [[[HI [L HP]] Hb] [Fr [Hc [m Hm]]]].
      assert (Hnf : NF w) by exact (proj1 (proj1 HP)).
      pose proof Hb as [_ [c2 [skm [_ [Hskm _]]]]].
      assert (Osk : open_k w sk) by exact (proj1 (l_held _ _ _ _ L sk ltac:(lia))).
      pose proof (try_total _ _ (n_try_store_intermediate_key e ik sk skm) w (conj (proj1 Fr) (conj Osk (conj Hskm Hnf)))) as T1.
      pose proof (try_store_intermediate_key_spec svc prod kinds e ik sk m EO w (conj HI (conj Hm Hb))) as T2.
      pose proof (qL_try_store_intermediate_key e ik sk w) as T3.
      pose proof (tsik_Z e t tz ik sk w (conj HP Hc)) as T4.
      pose proof (tsik_refused e ik sk c0 w (conj Hnf Hc)) as T5.
      pose proof (pres_try_store_intermediate_key Rs Rs_frame e ik sk w) as R.
      unfold try_ in *. destruct (try_store_intermediate_key e ik sk w) as [[er|b] w1]; cbn [snd] in *.
      * destruct T1 as [b Eb]. discriminate Eb.
      * split; [exists b; reflexivity|].
        split; [split; [split; [exact (proj1 T2) | split; [exact (LInv_same _ _ _ _ _ T3 L) | exact T4]] | exact (stableS_bound svc prod KSk sk SKid w w1 R Hb)]|].
        split; [exact (freshk_same _ _ _ _ _ T3 Fr)|]. intro Eb. inversion Eb; subst b. rewrite <- Eik. exact (T5 eq_refl).
    + intros [er|[|]].
      * apply (noerr_pull _ False); [intros w [[b Eb] _]; discriminate Eb | intros []].
      * apply noerr_ret.
      * eapply noerr_bind with (Q1 := fun _ w => (Base H w /\ bound KSk w sk SKid) /\ store_find (IKid pid) c0 (w_store w) <> None) (E := fun _ => True).
        -- eapply noerr_pre; [apply n_ck_close|]. intros w [_ [_ [[O _] _]]]. exact (open_exists_k w ik O).
        -- intros w [_ [[[HI [L HP]] Hb] [Fr Hex]]].
           pose proof (q0_ck_close ik w) as Q. pose proof (ck_close_L NoX H ik w (conj L (proj2 Fr))) as X2.
           pose proof (keeps_PZ t _ (qF_ck_close ik) (qR_ck_close ik) (pres_ck_close now_same now_same_frame ik) (qZ_ck_close ik) w HP) as X3.
           pose proof (pres_ck_close Rs Rs_frame ik w) as R.
           destruct (ck_close ik w) as [[er|a] w1]; cbn [snd] in *; [exact I|].
           split; [split; [split; [exact (stable0_Iv svc prod kinds w w1 Q HI) | split; assumption] | exact (stableS_bound svc prod KSk sk SKid w w1 R Hb)] | rewrite (proj2 Q); exact (Hex eq_refl)].
        -- intros _. rewrite Eik.
           eapply noerr_bind with (Q1 := fun r2 w => (Base H w /\ bound KSk w sk SKid) /\ exists c, store_find (IKid pid) c (w_store w) = Some r2) (E := fun _ => True).
           ++ eapply noerr_pre; [exact (n_must_load_latest (IKid pid) c0)|]. intros w [[HB _] Hex]. split; [exact (Base_NF H w HB) | exact Hex].
           ++ unfold must_load_latest.
              eapply (hoare_bind _ _ (fun r w => (Base H w /\ bound KSk w sk SKid) /\ r = option_map snd (store_latest (IKid pid) (w_store w) None))).
              { eapply hoare_pre; [exact (Base_hoare_q H (fun w => bound KSk w sk SKid) _ _ (q0_m_load_latest _) (qL_m_load_latest _) (qF_m_load_latest _) (qR_m_load_latest _)
                               (pres_m_load_latest now_same now_same_frame _) (qZ_m_load_latest _) (stable0_of_S _ (stableS_bound svc prod KSk sk SKid)) (m_load_latest_res' (IKid pid))) | cbv beta; tauto]. }
              intros [r2|]; [|apply hoare_fail; tauto]. apply hoare_ret. intros w [HBb Er]. split; [exact HBb|]. apply latest_found. symmetry. exact Er.
           ++ intro r2. intros w [[HB Hb] [c2 Hf]].
              destruct (store_ok_ik _ pid c2 r2 (Base_store_ok H w HB) Hf) as [c' [skm [n [m [Ep [Hrow Ek]]]]]].
              assert (Nz : c' <> 0) by exact (nz_sk_row _ _ _ (proj2 (proj2 (proj2 HB))) Hrow).
              exact (n_ikfe_gen H sk r2 c' skm n m Hge Ep Ek Nz w (conj HB (conj Hb Hrow))).
Qed.


Lemma n_loaderSK_BX : noerr BX (load_latest_or_create_system_key e SKid).
Proof. intros w [H HB]. exact (n_loaderSK H w HB). Qed.

(* createIntermediateKey *)
Lemma n_create_intermediate_key : noerr BX (create_intermediate_key e).
Proof.
  unfold create_intermediate_key. rewrite (sk_id_env svc prod kinds e EO). pose proof EO as [_ [_ [_ [Hsk _]]]].
  set (loader := fun m : keymeta => load_latest_or_create_system_key e (km_id m)).
  eapply noerr_bind with (Q1 := fun sk w => exists H', Base H' w /\ H' sk >= 1 /\ bound KSk w sk SKid) (E := fun _ => True).
  - apply (n_gol_latest (en_sk e) true (p_rci (en_pol e)) (p_expire (en_pol e)) SKid loader Hsk (proj1 EL) eq_refl
             (load_latest_or_create_system_key_ok svc prod kinds e EO) (load_latest_or_create_system_key_okL svc prod kinds e EO EL)).
    + exact (sk_loader_Z e t tz SKid).
    + exact n_loaderSK_BX.
  - intros w [H [HI [L HP]]].
    pose proof (get_or_load_latest_IL svc prod kinds (en_sk e) true (p_rci (en_pol e)) (p_expire (en_pol e)) SKid loader Hsk (proj1 EL) eq_refl
                  (load_latest_or_create_system_key_ok svc prod kinds e EO) (load_latest_or_create_system_key_okL svc prod kinds e EO EL) H w (conj HI L)) as X1.
    pose proof (gol_latest_Z t (en_sk e) (p_rci (en_pol e)) (p_expire (en_pol e)) SKid loader (sk_loader_Z e t tz SKid) w HP) as X2.
    destruct (get_or_load_latest (en_sk e) (p_rci (en_pol e)) (p_expire (en_pol e)) SKid loader w) as [[er|sk] w1]; [exact I|].
    destruct X1 as [H' [Le [[HI1 L1] Hb]]]. exists H'. split; [split; [exact HI1 | split; assumption]|]. split; [|exact Hb].
    pose proof (Le sk) as X. rewrite hadd_same in X. pose proof (l_nonneg _ _ _ _ L sk). lia.
  - intro sk. apply noerr_finally. intros w [H' [HB [Hge Hb]]]. exact (n_create_ik_with_sk H' sk Hge w (conj HB Hb)).
Qed.

Lemma create_intermediate_key_BX : hoare BX (create_intermediate_key e) (fun _ w => BX w) (fun _ => True).
Proof.
  intros w [H [HI [L HP]]]. pose proof (create_intermediate_key_IL svc prod kinds e EO EL H w (conj HI L)) as X1.
  pose proof (create_intermediate_key_Z e t tz w HP) as X2.
  destruct (create_intermediate_key e w) as [[er|k] w1]; [exact I|]. destruct X1 as [H' [_ [[HI1 L1] _]]]. exists H'. split; [exact HI1 | split; assumption].
Qed.

(* loadLatestOrCreateIntermediateKey *)
Lemma n_loaderIK : noerr BX (load_latest_or_create_intermediate_key e (ik_id e)).
Proof.
  unfold load_latest_or_create_intermediate_key.
  pose proof (ik_id_env svc prod kinds e EO) as Eik. set (pid := p_id (en_part e)) in *. rewrite Eik.
  eapply noerr_bind with (Q1 := fun r w => (BX w /\ True) /\ r = option_map snd (store_latest (IKid pid) (w_store w) None)) (E := fun _ => True).
  { eapply noerr_pre; [apply n_m_load_latest | exact BX_NF]. }
  { eapply hoare_pre; [exact (BX_hoare_q (fun _ => True) _ _ (q0_m_load_latest _) (qL_m_load_latest _) (qF_m_load_latest _) (qR_m_load_latest _)
                                 (pres_m_load_latest now_same now_same_frame _) (qZ_m_load_latest _) stable0_true (m_load_latest_res' (IKid pid))) | cbv beta; tauto]. }
  intro r.
  set (G := fun w => r = option_map snd (store_latest (IKid pid) (w_store w) None)).
  eapply noerr_bind with (Q1 := fun _ w => BX w /\ G w) (E := fun _ => True).
  { destruct r as [r0|]; [|apply noerr_ret]. destruct (e_parent r0); [|apply noerr_ret]. apply noerr_bind_ret. unfold is_envelope_invalid. intros w _. eexists; eexists; reflexivity. }
  { assert (Cl : forall X (m : M X), quiet0 m -> qL m -> qF m -> qR m -> pres now_same m -> qZ m ->
                   hoare (fun w => (BX w /\ True) /\ G w) m (fun _ w => BX w /\ G w) (fun _ => True)).
    { intros X m Q0 QL QF QR PN QZ. eapply hoare_weaken; [exact (BX_hoare_q G m (fun _ _ => True) Q0 QL QF QR PN QZ (stable0_latest_eq (IKid pid) r) (hoare_trivial m)) | | |]; cbv beta; tauto. }
    destruct r as [r0|]; [destruct (e_parent r0)|].
    - apply Cl; [q0_go | qL_go | qF_go | | | ].
      + apply qR_bind; [apply qR_is_envelope_invalid | intro; apply qR_ret].
      + apply (pres_bind now_same now_same_frame); [apply (pres_is_envelope_invalid now_same now_same_frame) | intro; apply (pres_ret now_same now_same_frame)].
      + apply qZ_bind; [apply qZ_is_envelope_invalid | intro; apply qZ_ret].
    - apply Cl; [apply q0_ret | apply qL_ret | apply qF_ret | apply qR_ret | apply (pres_ret now_same now_same_frame) | apply qZ_ret].
    - apply Cl; [apply q0_ret | apply qL_ret | apply qF_ret | apply qR_ret | apply (pres_ret now_same now_same_frame) | apply qZ_ret]. }
  intro usable.
  assert (Create : forall (P : world -> Prop), (forall w, P w -> BX w) -> noerr P (create_intermediate_key e)).
  { intros P HP. eapply noerr_pre; [exact n_create_intermediate_key | exact HP]. }
  destruct r as [r0|]; [|apply Create; cbv beta; tauto].
  destruct usable; [|apply Create; cbv beta; tauto].
  destruct (e_parent r0) as [pm|] eqn:Ep; [|apply Create; cbv beta; tauto].
  (* the latest row is a well-formed row of the store *)
  apply (noerr_pull _ (exists c' m, pm = {| km_id := SKid; km_created := c' |} /\ exists skm n, e_key r0 = CAead skm n (PKey m))).
  { intros w [[H HB] Er]. destruct (latest_found _ _ _ (eq_sym Er)) as [c2 Hf].
    destruct (store_ok_ik _ pid c2 r0 (Base_store_ok H w HB) Hf) as [c' [skm [n [m [Ep' [_ Ek]]]]]].
    rewrite Ep in Ep'. inversion Ep'; subst pm. exists c', m. split; [reflexivity|]. exists skm, n. exact Ek. }
  intros [c' [m [-> [skm0 [n0 Ek]]]]].
  set (pm := {| km_id := SKid; km_created := c' |}).
  set (IR := fun w => ik_rec svc prod (w_store w) (IKid pid) r0 m).
  assert (SIR : stableS IR) by apply stableS_ik_rec.
  eapply noerr_pre with (P' := fun w => BX w /\ IR w).
  2:{ intros w [[H HB] Er]. split; [exists H; exact HB|]. destruct (latest_found _ _ _ (eq_sym Er)) as [c2 Hf].
      destruct (store_ok_ik _ pid c2 r0 (Base_store_ok H w HB) Hf) as [c'' [skm [n [m' [Ep' [Hrow Ek']]]]]].
      assert (Ec : e_created r0 = c2) by exact (proj1 (proj2 (proj1 (proj2 (proj2 HB)))) _ _ _ Hf).
      split; [rewrite Ec; exact Hf|]. exists c'', skm, n. split; [exact Ep'|]. split; [exact Hrow|]. rewrite Ek in Ek'. inversion Ek'; subst. exact Ek. }
  eapply noerr_bind with (Q1 := fun x w => (BX w /\ IR w) /\ forall sk, x = inr sk -> exists_k w sk) (E := fun _ => True).
  { apply n_try. }
  { intros w [[H [HI [L HP]]] HR]. unfold try_.
    pose proof (get_or_load_system_key_IL svc prod kinds e pm EO EL eq_refl H w (conj HI L)) as X1.
    pose proof (keeps_PZ t _ (qF_get_or_load_system_key e pm) (qR_get_or_load_system_key e pm) (pres_get_or_load_system_key now_same now_same_frame e pm) (qZ_get_or_load_system_key e pm) w HP) as X2.
    pose proof (pres_get_or_load_system_key Rs Rs_frame e pm w) as R.
    destruct (get_or_load_system_key e pm w) as [[er|sk] w1]; cbn [snd] in R.
    - destruct X1 as [HI1 [H' [_ L1]]]. split; [split; [exists H'; split; [exact HI1 | split; assumption] | exact (SIR w w1 R HR)] | intros sk E; discriminate E].
    - destruct X1 as [H' [_ [[HI1 L1] Hb]]]. split; [split; [exists H'; split; [exact HI1 | split; assumption] | exact (SIR w w1 R HR)]|].
      intros sk' E. inversion E; subst sk'. destruct Hb as [_ [c3 [m3 [[o [Ho _]] _]]]]. exists o. exact Ho. }
  intros [er|sk]; [apply Create; cbv beta; tauto|].
  apply noerr_finally.
  eapply noerr_bind with (Q1 := fun _ w => BX w) (E := fun _ => True).
  - (* getValidIntermediateKey cannot fail: its only failing step is wrapped in a try *)
    eapply noerr_pre with (P' := fun w => exists_k w sk); [|intros w [_ X]; exact (X sk eq_refl)].
    unfold get_valid_intermediate_key.
    eapply noerr_bind with (Q1 := fun _ _ => True) (E := fun _ => True); [apply n_is_key_invalid0 | apply hoare_trivial' |].
    intros [|]; [apply noerr_ret|]. apply noerr_bind with (Q1 := fun _ _ => True) (E := fun _ => True); [apply n_try | apply hoare_trivial' |].
    intros [?|?]; apply noerr_ret.
  - intros w [[[H [HI [L HP]]] HR] _].
    assert (Oi : okid svc prod KIk (IKid pid)) by (eexists; reflexivity).
    pose proof (get_valid_intermediate_key_IL svc prod kinds e sk r0 (IKid pid) m EO EL Oi H w (conj (conj HI L) HR)) as X1.
    pose proof (keeps_PZ t _ (qF_get_valid_intermediate_key e sk r0) (qR_get_valid_intermediate_key e sk r0) (pres_get_valid_intermediate_key now_same now_same_frame e sk r0) (qZ_get_valid_intermediate_key e sk r0) w HP) as X2.
    destruct (get_valid_intermediate_key e sk r0 w) as [[er|v] w1]; [exact I|].
    destruct X1 as [H' [_ [[HI1 L1] _]]]. exists H'. split; [exact HI1 | split; assumption].
  - intros [ik|]; [apply noerr_ret | exact n_create_intermediate_key].
Qed.


(* EncryptPayload *)
Theorem n_encrypt_payload payload : noerr BX (encrypt_payload e payload).
Proof.
  unfold encrypt_payload. pose proof EO as [_ [_ [_ [_ Hik]]]].
  assert (Oi : okid svc prod (kd_of false) (ik_id e)) by (rewrite (ik_id_env svc prod kinds e EO); eexists; reflexivity).
  set (loader := fun m : keymeta => load_latest_or_create_intermediate_key e (km_id m)).
  eapply noerr_bind with (Q1 := fun ik w => exists H' ikm, (LInv NoX H' w /\ mat_of w ik (PKey ikm) /\ NF w) /\ H' ik >= 1) (E := fun _ => True).
  - apply (n_gol_latest (en_ik e) false (p_rci (en_pol e)) (p_expire (en_pol e)) (ik_id e) loader Hik (proj2 EL) Oi
             (load_latest_or_create_intermediate_key_ok svc prod kinds e EO) (load_latest_or_create_intermediate_key_okL svc prod kinds e EO EL)).
    + exact (loader_Z e t tz (ik_id e)).
    + exact n_loaderIK.
  - intros w [H [HI [L HP]]].
    pose proof (get_or_load_latest_IL svc prod kinds (en_ik e) false (p_rci (en_pol e)) (p_expire (en_pol e)) (ik_id e) loader Hik (proj2 EL) Oi
                  (load_latest_or_create_intermediate_key_ok svc prod kinds e EO) (load_latest_or_create_intermediate_key_okL svc prod kinds e EO EL) H w (conj HI L)) as X1.
    pose proof (gol_latest_Z t (en_ik e) (p_rci (en_pol e)) (p_expire (en_pol e)) (ik_id e) loader (loader_Z e t tz (ik_id e)) w HP) as X2.
    destruct (get_or_load_latest (en_ik e) (p_rci (en_pol e)) (p_expire (en_pol e)) (ik_id e) loader w) as [[er|ik] w1]; [exact I|].
    destruct X1 as [H' [Le [[HI1 L1] Hb]]]. destruct Hb as [_ [c2 [ikm [_ [Hm _]]]]].
    exists H', ikm. split; [split; [exact L1 | split; [exact Hm | exact (proj1 (proj1 X2))]]|].
    pose proof (Le ik) as X. rewrite hadd_same in X. pose proof (l_nonneg _ _ _ _ L ik). lia.
  - intro ik. apply noerr_finally. intros w [H' [ikm [HP Hge]]]. exact (n_encrypt_with_ik e ik payload H' ikm Hge w HP).
Qed.

End PartT.
End TD.


(* from the liveness invariant relative to the destroyed caches, for an OPEN session of an open factory *)
Lemma encrypt_total_from_HILD svc prod cf h s x fa payload :
  HILD svc prod cf (h_world h) ->
  let w := h_world h in
  nth_error (w_sessions w) s = Some x -> ss_torn x = false -> ~ In (ss_factory x) cf -> nth_error (w_factories w) (ss_factory x) = Some fa ->
  nz_store (w_store w) -> new_key_timestamp (w_now w) (p_precision (fa_policy fa)) <> 0 ->
  exists pm c, fst (fst (hstep h (HEncrypt s payload []))) = OEnc pm c.
Proof.
  intros [D [kinds [H [HIL0 O]]]] w Es T NF Ef NZ TZ. fold w in HIL0, O.
  assert (EL : env_live D {| en_part := ss_part x; en_pol := fa_policy fa; en_sk := fa_sk fa; en_ik := ss_ik x |}).
  { split; cbn [en_sk en_ik]; [exact (proj1 (ow_fact cf D w O _ fa Ef NF)) | exact (ow_sess cf D w O s x Es T (or_intror NF))]. }
  cbn [hstep]. fold w. set (w0 := begin_op [] w).
  pose proof (IL_begin_op D svc prod kinds H [] w HIL0) as [HI0 L0]. fold w0 in HI0, L0.
  assert (HB : Base D svc prod kinds (w_now w) H w0).
  { split; [exact HI0|]. split; [exact L0|]. split; [split; [reflexivity | split; [exact (store_ok_RC svc prod _ (proj1 HI0)) | reflexivity]] | exact NZ]. }
  assert (Es0 : nth_error (w_sessions w0) s = Some x) by exact Es.
  assert (Ef0 : nth_error (w_factories w0) (ss_factory x) = Some fa) by exact Ef.
  clearbody w0.
  pose proof (session_env_run s x fa w0 Es0 Ef0) as Run.
  pose proof (session_env_spec svc prod kinds s w0 HI0) as X. rewrite Run in X. destruct X as [_ EO].
  set (e := {| en_part := ss_part x; en_pol := fa_policy fa; en_sk := fa_sk fa; en_ik := ss_ik x |}) in *.
  unfold bind. rewrite Run.
  destruct (n_encrypt_payload D svc prod kinds e EO EL (w_now w) TZ (PPayload payload) w0 (ex_intro _ H HB)) as [d [w1 E1]].
  pose proof (encrypt_payload_spec svc prod kinds e (PPayload payload) EO w0 HI0) as Y. rewrite E1 in Y |- *. cbn [outcome fst].
  destruct Y as [_ [k [c [ikm [n [dkm [n' [Dk [Ep _]]]]]]]]]. rewrite Dk, Ep. eexists; eexists; reflexivity.
Qed.

(* At the API, for EVERY policy - per-session, shared or no key caches, with or without the session cache - and with factories being
   closed (SessionFactory.Close destroys the factory's system-key cache and its shared intermediate-key cache): after any history of new
   factories, sessions, encrypts and decrypts under any fault plans, clock changes, revocations, session closes and factory closes in which
   nothing addresses a closed session or a session of a closed factory, an Encrypt on an OPEN session of an open factory for which no fault is
   injected SUCCEEDS. *)
Theorem unfaulted_encrypt_succeeds_own_closing svc prod t0 ops s x fa payload :
  okrun svc prod [] (hinit t0) ops ->
  let h := snd (hrun (hinit t0) ops) in
  let w := h_world h in
  nth_error (w_sessions w) s = Some x -> ss_torn x = false -> ~ In (ss_factory x) (cf_run [] ops) -> nth_error (w_factories w) (ss_factory x) = Some fa ->
  nz_store (w_store w) -> new_key_timestamp (w_now w) (p_precision (fa_policy fa)) <> 0 ->
  exists pm c, fst (fst (hstep h (HEncrypt s payload []))) = OEnc pm c.
Proof.
  intros OK h w. apply (encrypt_total_from_HILD svc prod (cf_run [] ops) h s x fa payload). exact (proj2 (closing_invariants_reachable_own svc prod t0 ops OK)).
Qed.

(* the premises are met after the history of LiveCloseD.own_closing_ops (default policy; sessions 0 and 1 and factory 0 closed), and the
   Encrypt in the open session 2 of the open factory 1 returns a record *)
Example unfaulted_encrypt_own_closing_nonvacuous :
  let h := snd (hrun (hinit Rotation.t0) own_closing_ops) in
  nz_storeb (w_store (h_world h)) = true /\
  (new_key_timestamp (w_now (h_world h)) (p_precision Rotation.pol100) =? 0) = false /\
  match fst (fst (hstep h (HEncrypt 2 9 []))) with OEnc _ _ => True | _ => False end.
Proof. split; [vm_compute; reflexivity|]. split; [vm_compute; reflexivity|]. vm_compute. exact I. Qed.
