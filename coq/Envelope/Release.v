(* C09, caching disabled: whatever a Decrypt does - success, any failure, any fault plan - every secret it allocated is
   closed when it returns, and no secret or key object that existed before is touched. *)
From Asherah Require Import Envelope.Session Envelope.Frame Envelope.FrameInst Envelope.Hoare Envelope.Coherent Envelope.Local Envelope.Live Envelope.Rotation.
From Coq Require Import Lia.

(* the objects this operation owns: (key object, its reference count) *)
Definition owned := list (nat * Z).

Record Bal (w0 : world) (O : owned) (w : world) : Prop := {
  b_old_sec : forall sid, (sid < List.length (w_secrets w0))%nat -> nth_error (w_secrets w) sid = nth_error (w_secrets w0) sid;
  b_old_obj : forall k, (k < List.length (w_kobjs w0))%nat -> nth_error (w_kobjs w) k = nth_error (w_kobjs w0) k;
  b_new_sec : forall sid sc, (List.length (w_secrets w0) <= sid)%nat -> nth_error (w_secrets w) sid = Some sc ->
                s_closed sc = true \/ exists k n o, In (k, n) O /\ nth_error (w_kobjs w) k = Some o /\ ko_secret o = sid;
  b_own : forall k n, In (k, n) O ->
            (List.length (w_kobjs w0) <= k)%nat /\
            exists o sc, nth_error (w_kobjs w) k = Some o /\ ko_refs o = n /\ ko_once o = false /\
                         (List.length (w_secrets w0) <= ko_secret o)%nat /\ nth_error (w_secrets w) (ko_secret o) = Some sc /\ s_closed sc = false;
  b_nodup : NoDup (map fst O);
  b_inj : forall k n k' n' o o', In (k, n) O -> In (k', n') O -> nth_error (w_kobjs w) k = Some o -> nth_error (w_kobjs w) k' = Some o' ->
            ko_secret o = ko_secret o' -> k = k';
  b_caches : w_caches w = w_caches w0;
  b_lens : (List.length (w_secrets w0) <= List.length (w_secrets w))%nat /\ (List.length (w_kobjs w0) <= List.length (w_kobjs w))%nat;
  b_alloc : forall k o, nth_error (w_kobjs w) k = Some o -> (List.length (w_kobjs w0) <= k)%nat -> (ko_secret o < List.length (w_secrets w))%nat }.

Lemma Bal_init w : Bal w [] w.
Proof.
  constructor; try reflexivity; try (intros; reflexivity).
  - intros sid sc Hge Hn. exfalso. assert (sid < List.length (w_secrets w))%nat by (apply nth_error_Some; congruence). lia.
  - intros k n [].
  - constructor.
  - intros k n k' n' o o' [].
  - split; lia.
  - intros k o Hn Hge. exfalso. assert (k < List.length (w_kobjs w))%nat by (apply nth_error_Some; congruence). lia.
Qed.

Lemma Bal_same w0 O w w' : same_live w w' -> Bal w0 O w -> Bal w0 O w'.
Proof.
  intros [E1 [E2 E3]] B. destruct B. constructor; rewrite ?E1, ?E2, ?E3; assumption.
Qed.

Lemma stableL_Bal w0 O : stableL (Bal w0 O).
Proof. intros w w' S B. exact (Bal_same w0 O w w' S B). Qed.

(* what the end state says *)
Theorem Bal_nil_released w0 w :
  Bal w0 [] w ->
  (forall sid, (sid < List.length (w_secrets w0))%nat -> nth_error (w_secrets w) sid = nth_error (w_secrets w0) sid) /\
  (forall sid sc, (List.length (w_secrets w0) <= sid)%nat -> nth_error (w_secrets w) sid = Some sc -> s_closed sc = true) /\
  (forall k, (k < List.length (w_kobjs w0))%nat -> nth_error (w_kobjs w) k = nth_error (w_kobjs w0) k).
Proof.
  intro B. split; [exact (b_old_sec _ _ _ B)|]. split; [|exact (b_old_obj _ _ _ B)].
  intros sid sc Hge Hn. destruct (b_new_sec _ _ _ B sid sc Hge Hn) as [C|[k [n [o [[] _]]]]]. exact C.
Qed.

Theorem Bal_small_released w0 L w :
  Bal w0 L w -> (List.length L <= 1)%nat ->
  (forall sid, (sid < List.length (w_secrets w0))%nat -> nth_error (w_secrets w) sid = nth_error (w_secrets w0) sid) /\
  (exists leak : list nat, (List.length leak <= 1)%nat /\
     forall sid sc, (List.length (w_secrets w0) <= sid)%nat -> nth_error (w_secrets w) sid = Some sc -> s_closed sc = true \/ In sid leak) /\
  (forall k, (k < List.length (w_kobjs w0))%nat -> nth_error (w_kobjs w) k = nth_error (w_kobjs w0) k).
Proof.
  intros B Le. split; [exact (b_old_sec _ _ _ B)|]. split; [|exact (b_old_obj _ _ _ B)].
  destruct L as [|[k n] [|? ?]]; [| |cbn in Le; lia].
  - exists []. split; [cbn; lia|]. intros sid sc Hge Hn. destruct (b_new_sec _ _ _ B sid sc Hge Hn) as [C|[k [n [o [[] _]]]]]. left. exact C.
  - destruct (b_own _ _ _ B k n (or_introl eq_refl)) as [_ [o [sc0 [Ho _]]]].
    exists [ko_secret o]. split; [cbn; lia|]. intros sid sc Hge Hn.
    destruct (b_new_sec _ _ _ B sid sc Hge Hn) as [C|[k' [n' [o' [[Hin|[]] [Ho' Hs]]]]]]; [left; exact C|].
    inversion Hin; subst k' n'. rewrite Ho in Ho'. inversion Ho'; subst o'. right. left. exact Hs.
Qed.

Lemma Bal_perm w0 O O' w : Permutation.Permutation O O' -> Bal w0 O w -> Bal w0 O' w.
Proof.
  intros P B. destruct B. constructor; try assumption.
  - intros sid sc Hge Hn. destruct (b_new_sec0 sid sc Hge Hn) as [C|[k [n [o [Hin X]]]]]; [left; exact C|].
    right. exists k, n, o. split; [eapply Permutation.Permutation_in; eassumption | exact X].
  - intros k n Hin. apply b_own0. eapply Permutation.Permutation_in; [apply Permutation.Permutation_sym; exact P | exact Hin].
  - eapply Permutation.Permutation_NoDup; [apply Permutation.Permutation_map; exact P | exact b_nodup0].
  - intros k n k' n' o o' H1 H2. apply (b_inj0 k n k' n' o o'); eapply Permutation.Permutation_in; try eassumption; apply Permutation.Permutation_sym; exact P.
Qed.

Lemma own_lt w0 O w k n : Bal w0 O w -> In (k, n) O -> (k < List.length (w_kobjs w))%nat.
Proof. intros B Hin. destruct (b_own _ _ _ B k n Hin) as [_ [o [sc [Ho _]]]]. apply nth_error_Some. congruence. Qed.

(* allocation of a key object for fresh material: the shape of the world afterwards is all that matters *)
Lemma Bal_alloc w0 O w1 w2 mat c r :
  Bal w0 O w1 ->
  w_secrets w2 = w_secrets w1 ++ [{| s_mat := mat; s_closed := false |}] ->
  w_kobjs w2 = w_kobjs w1 ++ [{| ko_created := c; ko_secret := List.length (w_secrets w1); ko_revoked := r; ko_once := false; ko_refs := 0 |}] ->
  w_caches w2 = w_caches w1 ->
  Bal w0 ((List.length (w_kobjs w1), 0) :: O) w2 /\ created_of w2 (List.length (w_kobjs w1)) c.
Proof.
  intros B1 E1 E2 E3.
  set (S := w_secrets w1) in *. set (K := w_kobjs w1) in *.
  set (sc := {| s_mat := mat; s_closed := false |}) in *.
  set (o := {| ko_created := c; ko_secret := List.length S; ko_revoked := r; ko_once := false; ko_refs := 0 |}) in *.
  destruct B1 as [OS OO NS OW ND INJ CA [L1 L2] AL]. fold S K in OS, OO, NS, OW, INJ, L1, L2, AL.
  split.
  + constructor; rewrite ?E1, ?E2, ?E3.
    * intros sid Hlt. rewrite nth_error_app1 by lia. exact (OS sid Hlt).
    * intros k Hlt. rewrite nth_error_app1 by lia. exact (OO k Hlt).
    * intros sid sc0 Hge Hn. destruct (lt_dec sid (List.length S)) as [Lt|Ge].
      -- rewrite nth_error_app1 in Hn by exact Lt. destruct (NS sid sc0 Hge Hn) as [C|[k [n [o0 [Hin [Ho Hs]]]]]]; [left; exact C|].
         right. exists k, n, o0. split; [right; exact Hin|]. split; [rewrite nth_error_app1; [exact Ho | apply nth_error_Some; congruence] | exact Hs].
      -- right. assert (sid = List.length S).
         { assert (sid < List.length (S ++ [sc]))%nat by (apply nth_error_Some; congruence). rewrite app_length in H. cbn in H. lia. }
         subst sid. exists (List.length K), 0, o. split; [left; reflexivity|]. split; [|reflexivity].
         rewrite nth_error_app2 by lia. rewrite Nat.sub_diag. reflexivity.
    * intros k n [Hin|Hin].
      -- inversion Hin; subst k n. split; [exact L2|]. exists o, sc. rewrite nth_error_app2 by lia. rewrite Nat.sub_diag. cbn [nth_error o ko_refs ko_once ko_secret].
         repeat split; try reflexivity; [exact L1|]. rewrite nth_error_app2 by lia. rewrite Nat.sub_diag. reflexivity.
      -- destruct (OW k n Hin) as [Hge [o0 [sc0 [Ho [Hr [Hon [Hs [Hsc Hcl]]]]]]]]. split; [exact Hge|]. exists o0, sc0.
         split; [rewrite nth_error_app1; [exact Ho | apply nth_error_Some; congruence]|]. repeat split; try assumption.
         rewrite nth_error_app1; [exact Hsc | apply nth_error_Some; congruence].
    * cbn [map fst]. constructor; [|exact ND]. intro Hin. apply in_map_iff in Hin as [[k n] [Ek Hin]]. cbn in Ek. subst k.
      destruct (OW _ n Hin) as [_ [o0 [sc0 [Ho _]]]]. assert (List.length K < List.length K)%nat by (apply nth_error_Some; congruence). lia.
    * intros k n k' n' o1 o2 H1 H2 Ho1 Ho2 Es.
      assert (Old : forall k0 n0 o0, In (k0, n0) O -> nth_error (K ++ [o]) k0 = Some o0 -> nth_error K k0 = Some o0 /\ (ko_secret o0 < List.length S)%nat).
      { intros k0 n0 o0 Hin Hn. destruct (OW k0 n0 Hin) as [Hge [o3 [sc3 [Ho3 [_ [_ [_ [Hsc3 _]]]]]]]].
        rewrite nth_error_app1 in Hn by (apply nth_error_Some; congruence). split; [exact Hn|]. rewrite Ho3 in Hn. inversion Hn; subst o3.
        apply nth_error_Some. congruence. }
      assert (New : forall o0, nth_error (K ++ [o]) (List.length K) = Some o0 -> ko_secret o0 = List.length S).
      { intros o0 Hn. rewrite nth_error_app2 in Hn by lia. rewrite Nat.sub_diag in Hn. inversion Hn. reflexivity. }
      destruct H1 as [H1|H1], H2 as [H2|H2].
      -- inversion H1; inversion H2; congruence.
      -- inversion H1; subst k n. pose proof (New o1 Ho1). destruct (Old k' n' o2 H2 Ho2) as [_ X]. lia.
      -- inversion H2; subst k' n'. pose proof (New o2 Ho2). destruct (Old k n o1 H1 Ho1) as [_ X]. lia.
      -- destruct (Old k n o1 H1 Ho1) as [X1 _]. destruct (Old k' n' o2 H2 Ho2) as [X2 _]. exact (INJ k n k' n' o1 o2 H1 H2 X1 X2 Es).
    * exact CA.
    * rewrite !app_length. cbn. split; lia.
    * intros k o0 Hn Hge. rewrite app_length. cbn. destruct (lt_dec k (List.length K)) as [Lt|Ge].
      -- rewrite nth_error_app1 in Hn by exact Lt. pose proof (AL k o0 Hn Hge). lia.
      -- assert (k = List.length K).
         { assert (k < List.length (K ++ [o]))%nat by (apply nth_error_Some; congruence). rewrite app_length in H. cbn in H. lia. }
         subst k. rewrite nth_error_app2 in Hn by lia. rewrite Nat.sub_diag in Hn. inversion Hn; subst o0. cbn. lia.
  + exists o. rewrite E2. split; [|reflexivity]. rewrite nth_error_app2 by lia. rewrite Nat.sub_diag. reflexivity.
Qed.

Lemma next_call_cases w : exists f, next_call w = (inr f, with_calls (S (w_calls w)) w).
Proof. unfold next_call. destruct (fault_at (w_calls w) (w_faults w)); eexists; reflexivity. Qed.

Lemma new_crypto_key_B w0 O c r m :
  hoare (Bal w0 O) (new_crypto_key c r m) (fun k w => Bal w0 ((k, 0) :: O) w /\ created_of w k c) (Bal w0 O).
Proof.
  intros w B. unfold new_crypto_key, bind, secret_new. unfold bind at 1. destruct (next_call_cases w) as [f En]. rewrite En.
  assert (B1 : Bal w0 O (with_calls (S (w_calls w)) w)) by (eapply Bal_same; [|exact B]; repeat split).
  destruct f as [f|].
  - unfold secret_count, gets, bind, emit, upd, fail. cbn. eapply Bal_same; [|exact B1]. repeat split.
  - unfold secret_alloc, bind, emit, upd, ret, kobj_alloc. cbn [fst snd].
    apply (Bal_alloc w0 O (with_calls (S (w_calls w)) w) _ m c r B1); reflexivity.
Qed.

Lemma generate_key_B w0 O c :
  hoare (Bal w0 O) (generate_key c) (fun k w => Bal w0 ((k, 0) :: O) w /\ created_of w k c) (Bal w0 O).
Proof.
  intros w B. unfold generate_key, bind, secret_random. unfold bind at 1. destruct (next_call_cases w) as [f En]. rewrite En.
  assert (B1 : Bal w0 O (with_calls (S (w_calls w)) w)) by (eapply Bal_same; [|exact B]; repeat split).
  destruct f as [f|].
  - unfold secret_count, gets, bind, emit, upd, fail. cbn. eapply Bal_same; [|exact B1]. repeat split.
  - unfold secret_count, gets, secret_alloc, bind, emit, upd, ret, kobj_alloc. cbn [fst snd].
    eapply (Bal_alloc w0 O (with_calls (S (w_calls w)) w) _ _ c false B1); reflexivity.
Qed.

Lemma nth_error_set_nth_other' {A} (l : list A) n m x : n <> m -> nth_error (set_nth n x l) m = nth_error l m.
Proof. revert n m; induction l as [|a l IH]; intros [|n] [|m] H; cbn; try reflexivity; try congruence. apply IH. congruence. Qed.

(* an update of the head object's counters that keeps its secret and its closed-once flag *)
Lemma Bal_modify w0 O w k n o g :
  Bal w0 ((k, n) :: O) w -> nth_error (w_kobjs w) k = Some o ->
  ko_secret (g o) = ko_secret o -> ko_once (g o) = ko_once o ->
  Bal w0 ((k, ko_refs (g o)) :: O) (with_kobjs (set_nth k (g o) (w_kobjs w)) w).
Proof.
  intros B Ho Es Eo. pose proof B as [OS OO NS OW ND INJ CA [L1 L2] AL].
  destruct (OW k n (or_introl eq_refl)) as [Hge [o1 [sc1 [Ho1 [Hr1 [Hon1 [Hs1 [Hsc1 Hcl1]]]]]]]]. rewrite Ho in Ho1. inversion Ho1; subst o1.
  assert (Get : forall k', nth_error (set_nth k (g o) (w_kobjs w)) k' = if Nat.eqb k' k then Some (g o) else nth_error (w_kobjs w) k').
  { intro k'. destruct (Nat.eqb k' k) eqn:E.
    - apply Nat.eqb_eq in E. subst k'. eapply nth_error_set_nth_same. exact Ho.
    - apply Nat.eqb_neq in E. apply nth_error_set_nth_other'. congruence. }
  constructor; wsimpl.
  - exact OS.
  - intros k' Hlt. rewrite Get. destruct (Nat.eqb k' k) eqn:E; [apply Nat.eqb_eq in E; lia | exact (OO k' Hlt)].
  - intros sid sc Hge' Hn. destruct (NS sid sc Hge' Hn) as [C|[k' [n' [o' [Hin [Ho' Hs']]]]]]; [left; exact C|]. right.
    destruct Hin as [Hin|Hin].
    + inversion Hin; subst k' n'. rewrite Ho in Ho'. inversion Ho'; subst o'. exists k, (ko_refs (g o)), (g o).
      split; [left; reflexivity|]. rewrite Get, Nat.eqb_refl. split; [reflexivity | congruence].
    + exists k', n', o'. split; [right; exact Hin|]. rewrite Get.
      destruct (Nat.eqb k' k) eqn:E; [|split; assumption]. apply Nat.eqb_eq in E. subst k'.
      exfalso. inversion ND as [|? ? Hni _]; subst. apply Hni. apply in_map_iff. exists (k, n'). split; [reflexivity | exact Hin].
  - intros k' n' [Hin|Hin].
    + inversion Hin; subst k' n'. split; [exact Hge|]. exists (g o), sc1. rewrite Get, Nat.eqb_refl. rewrite Es, Eo. repeat split; assumption.
    + destruct (OW k' n' (or_intror Hin)) as [Hge' [o' [sc' X]]]. split; [exact Hge'|]. exists o', sc'. rewrite Get.
      destruct (Nat.eqb k' k) eqn:E; [|exact X]. apply Nat.eqb_eq in E. subst k'.
      exfalso. inversion ND as [|? ? Hni _]; subst. apply Hni. apply in_map_iff. exists (k, n'). split; [reflexivity | exact Hin].
  - exact ND.
  - intros k1 n1 k2 n2 o1 o2 H1 H2 Ho1' Ho2' Esec. rewrite Get in Ho1', Ho2'.
    assert (In1 : In (k1, if Nat.eqb k1 k then n else n1) ((k, n) :: O)).
    { destruct (Nat.eqb k1 k) eqn:E; [apply Nat.eqb_eq in E; subst k1; left; reflexivity|].
      destruct H1 as [H1|H1]; [inversion H1; subst; rewrite Nat.eqb_refl in E; discriminate | right; exact H1]. }
    assert (In2 : In (k2, if Nat.eqb k2 k then n else n2) ((k, n) :: O)).
    { destruct (Nat.eqb k2 k) eqn:E; [apply Nat.eqb_eq in E; subst k2; left; reflexivity|].
      destruct H2 as [H2|H2]; [inversion H2; subst; rewrite Nat.eqb_refl in E; discriminate | right; exact H2]. }
    assert (S1 : exists o1', nth_error (w_kobjs w) k1 = Some o1' /\ ko_secret o1' = ko_secret o1).
    { destruct (Nat.eqb k1 k) eqn:E; [apply Nat.eqb_eq in E; subst k1; inversion Ho1'; subst o1; exists o; split; [exact Ho | symmetry; exact Es] | exists o1; split; [exact Ho1' | reflexivity]]. }
    assert (S2 : exists o2', nth_error (w_kobjs w) k2 = Some o2' /\ ko_secret o2' = ko_secret o2).
    { destruct (Nat.eqb k2 k) eqn:E; [apply Nat.eqb_eq in E; subst k2; inversion Ho2'; subst o2; exists o; split; [exact Ho | symmetry; exact Es] | exists o2; split; [exact Ho2' | reflexivity]]. }
    destruct S1 as [o1' [A1 A2]]. destruct S2 as [o2' [B1 B2]].
    eapply (INJ k1 _ k2 _ o1' o2' In1 In2 A1 B1). congruence.
  - exact CA.
  - split; [exact L1|]. rewrite set_nth_length. exact L2.
  - intros k' o' Hn Hge'. rewrite Get in Hn. destruct (Nat.eqb k' k) eqn:E; [|exact (AL k' o' Hn Hge')].
    apply Nat.eqb_eq in E. subst k'. inversion Hn; subst o'. rewrite Es. exact (AL k o Ho Hge).
Qed.

Lemma own_obj w0 O w k n : Bal w0 ((k, n) :: O) w -> exists o, nth_error (w_kobjs w) k = Some o /\ ko_refs o = n /\ ko_once o = false.
Proof. intro B. destruct (b_own _ _ _ B k n (or_introl eq_refl)) as [_ [o [sc [Ho [Hr [Hon _]]]]]]. exists o. repeat split; assumption. Qed.

Lemma cck_wrap_B w0 O k n : hoare (Bal w0 ((k, n) :: O)) (cck_wrap k) (fun _ w => Bal w0 ((k, 1) :: O) w) (fun _ => False).
Proof.
  intros w B. destruct (own_obj _ _ _ _ _ B) as [o [Ho _]]. unfold cck_wrap, bind. rewrite (kobj_modify_run k _ w o Ho). unfold ret.
  exact (Bal_modify w0 O w k n o (ko_with_refs (fun _ => 1)) B Ho eq_refl eq_refl).
Qed.

Lemma set_nth_set_nth {A} (l : list A) n x y : set_nth n x (set_nth n y l) = set_nth n x l.
Proof. revert n; induction l as [|a l IH]; intros [|n]; cbn; try reflexivity. f_equal. apply IH. Qed.

(* CryptoKey.Close of an owned, still open key object: its secret is closed and the object leaves the owned set *)
Lemma ck_close_B w0 O k n : hoare (Bal w0 ((k, n) :: O)) (ck_close k) (fun _ w => Bal w0 O w) (fun _ => False).
Proof.
  intros w1 B1. destruct (own_obj _ _ _ _ _ B1) as [o1 [Ho1 [Hr Hon]]].
  unfold ck_close, bind. rewrite (kobj_modify_run k _ w1 o1 Ho1). rewrite Hon.
  pose proof B1 as [OS OO NS OW ND INJ CA [L1 L2] AL].
  destruct (OW k _ (or_introl eq_refl)) as [Hge [o' [sc [Ho' [_ [_ [Hs [Hsc Hcl]]]]]]]]. rewrite Ho1 in Ho'. inversion Ho'; subst o'.
  set (o2 := ko_with_once true o1). set (w2 := with_kobjs (set_nth k o2 (w_kobjs w1)) w1).
  unfold secret_close, bind, secret_mark_closed.
  assert (Es2 : nth_error (w_secrets w2) (ko_secret o1) = Some sc) by exact Hsc. rewrite Es2. cbv iota beta.
  unfold emit, upd. cbn [snd fst].
  assert (Get : forall k', nth_error (set_nth k o2 (w_kobjs w1)) k' = if Nat.eqb k' k then Some o2 else nth_error (w_kobjs w1) k').
  { intro k'. destruct (Nat.eqb k' k) eqn:E.
    - apply Nat.eqb_eq in E. subst k'. eapply nth_error_set_nth_same. exact Ho1.
    - apply Nat.eqb_neq in E. apply nth_error_set_nth_other'. congruence. }
  set (sid := ko_secret o1) in *. set (sc2 := {| s_mat := s_mat sc; s_closed := true |}).
  assert (GetS : forall s', nth_error (set_nth sid sc2 (w_secrets w1)) s' = if Nat.eqb s' sid then Some sc2 else nth_error (w_secrets w1) s').
  { intro s'. destruct (Nat.eqb s' sid) eqn:E.
    - apply Nat.eqb_eq in E. subst s'. eapply nth_error_set_nth_same. exact Hsc.
    - apply Nat.eqb_neq in E. apply nth_error_set_nth_other'. congruence. }
  assert (NotIn : forall n', ~ In (k, n') O).
  { intros n' Hin. inversion ND as [|? ? Hni _]; subst. apply Hni. apply in_map_iff. exists (k, n'). split; [reflexivity | exact Hin]. }
  constructor; wsimpl.
  - intros s' Hlt. rewrite GetS. destruct (Nat.eqb s' sid) eqn:E; [apply Nat.eqb_eq in E; lia | exact (OS s' Hlt)].
  - intros k' Hlt. rewrite Get. destruct (Nat.eqb k' k) eqn:E; [apply Nat.eqb_eq in E; lia | exact (OO k' Hlt)].
  - intros s' sc' Hge' Hn. rewrite GetS in Hn. destruct (Nat.eqb s' sid) eqn:E; [inversion Hn; subst sc'; left; reflexivity|].
    destruct (NS s' sc' Hge' Hn) as [C|[k' [n' [o' [Hin [Ho'' Hs']]]]]]; [left; exact C|]. right.
    destruct Hin as [Hin|Hin].
    + inversion Hin; subst k' n'. rewrite Ho1 in Ho''. inversion Ho''; subst o'. apply Nat.eqb_neq in E. exfalso. apply E. symmetry. exact Hs'.
    + exists k', n', o'. split; [exact Hin|]. rewrite Get. destruct (Nat.eqb k' k) eqn:E'; [apply Nat.eqb_eq in E'; subst k'; exfalso; exact (NotIn n' Hin) | split; assumption].
  - intros k' n' Hin. destruct (OW k' n' (or_intror Hin)) as [Hge' [o' [sc' [A1 [A2 [A3 [A4 [A5 A6]]]]]]]]. split; [exact Hge'|]. exists o', sc'.
    rewrite Get. destruct (Nat.eqb k' k) eqn:E'; [apply Nat.eqb_eq in E'; subst k'; exfalso; exact (NotIn n' Hin)|].
    repeat split; try assumption. rewrite GetS. destruct (Nat.eqb (ko_secret o') sid) eqn:E2; [|exact A5].
    apply Nat.eqb_eq in E2. exfalso. apply Nat.eqb_neq in E'. apply E'.
    exact (INJ k' n' k _ o' o1 (or_intror Hin) (or_introl eq_refl) A1 Ho1 E2).
  - inversion ND; assumption.
  - intros k1 n1 k2 n2 oa ob H1 H2 Ha Hb Es. rewrite Get in Ha, Hb.
    destruct (Nat.eqb k1 k) eqn:E1; [apply Nat.eqb_eq in E1; subst k1; exfalso; exact (NotIn n1 H1)|].
    destruct (Nat.eqb k2 k) eqn:E2; [apply Nat.eqb_eq in E2; subst k2; exfalso; exact (NotIn n2 H2)|].
    exact (INJ k1 n1 k2 n2 oa ob (or_intror H1) (or_intror H2) Ha Hb Es).
  - exact CA.
  - unfold w2. wsimpl. rewrite !set_nth_length. split; assumption.
  - intros k' o' Hn Hge'. unfold w2 in *. wsimpl. rewrite set_nth_length. rewrite Get in Hn. destruct (Nat.eqb k' k) eqn:E'; [|exact (AL k' o' Hn Hge')].
    inversion Hn; subst o'. exact (AL k o1 Ho1 Hge).
Qed.

(* dropping the only reference destroys the key *)
Lemma cck_close_B w0 O k : hoare (Bal w0 ((k, 1) :: O)) (cck_close k) (fun _ w => Bal w0 O w) (fun _ => False).
Proof.
  intros w B. destruct (own_obj _ _ _ _ _ B) as [o [Ho [Hr Hon]]].
  unfold cck_close, bind. rewrite (kobj_modify_run k _ w o Ho). rewrite Hr. change (1 - 1 >? 0) with false. cbv iota.
  pose proof (Bal_modify w0 O w k 1 o (ko_with_refs (fun r => r - 1)) B Ho eq_refl eq_refl) as B1.
  exact (ck_close_B w0 O k _ _ B1).
Qed.

(* ---- the cache-less load paths -------------------------------------------------------------------------------- *)

Section NoCache.
Variables svc prod : str.
Notation store_ok := (store_ok svc prod).

Definition BalS (w0 : world) (O : owned) (w : world) : Prop := Bal w0 O w /\ w_store w = w_store w0.

Lemma hoare_BalS {A} w0 O (m : M A) : quiet0 m -> qL m -> hoare (BalS w0 O) m (fun _ w => BalS w0 O w) (BalS w0 O).
Proof.
  intros Q0 QL w [B ES]. specialize (Q0 w). specialize (QL w). destruct (m w) as [[e|a] w1]; cbn [snd] in *;
    (split; [exact (Bal_same _ _ _ _ QL B) | rewrite (proj2 Q0); exact ES]).
Qed.

Lemma hoare_BalS_res {A} w0 O (m : M A) (phi : A -> world -> Prop) :
  quiet0 m -> qL m -> hoare (fun _ => True) m phi (fun _ => True) ->
  hoare (BalS w0 O) m (fun a w => BalS w0 O w /\ phi a w) (BalS w0 O).
Proof.
  intros Q0 QL Hr. eapply hoare_weaken; [exact (hoare_conj _ _ _ _ _ _ _ (hoare_BalS w0 O m Q0 QL) Hr) | | |]; cbv beta; tauto.
Qed.

Lemma store_ok_created st i c r : store_ok st -> store_find i c st = Some r -> e_created r = c.
Proof.
  intros SO Hf. destruct (SO i c r Hf) as [[Ei [m [r' [Hf' [Hc _]]]]]|[p [Ei [m [r' [c' [skm [n [Hf' [Hc _]]]]]]]]]].
  - subst i. rewrite Hf in Hf'. inversion Hf'; subst r'. exact Hc.
  - rewrite Hf in Hf'. inversion Hf'; subst r'. exact Hc.
Qed.

Lemma new_crypto_key_BS w0 O c r m :
  hoare (BalS w0 O) (new_crypto_key c r m) (fun k w => BalS w0 ((k, 0) :: O) w /\ created_of w k c) (BalS w0 O).
Proof.
  intros w [B ES]. pose proof (new_crypto_key_B w0 O c r m w B) as X. pose proof (q0_new_crypto_key c r m w) as Q.
  destruct (new_crypto_key c r m w) as [[e|k] w1]; cbn [snd] in Q.
  - split; [exact X | rewrite (proj2 Q); exact ES].
  - destruct X as [X1 X2]. split; [split; [exact X1 | rewrite (proj2 Q); exact ES] | exact X2].
Qed.

Lemma system_key_from_ekr_BS w0 O r :
  hoare (BalS w0 O) (system_key_from_ekr r) (fun k w => BalS w0 ((k, 0) :: O) w /\ created_of w k (e_created r)) (BalS w0 O).
Proof.
  unfold system_key_from_ekr. eapply (hoare_bind _ _ (fun _ w => BalS w0 O w)); [exact (hoare_BalS w0 O _ (q0_kms_decrypt _) (qL_kms_decrypt _))|].
  intro bytes. apply new_crypto_key_BS.
Qed.

Lemma m_load_res' id c : hoare (fun _ => True) (m_load id c) (fun r w => r = store_find id c (w_store w)) (fun _ => True).
Proof.
  eapply hoare_post; [exact (m_load_spec (fun _ => True) (fun _ => True) id c (stable0_pure True) (fun _ _ => I))|]. cbv beta. tauto.
Qed.

Lemma load_system_key_BS w0 O meta :
  store_ok (w_store w0) ->
  hoare (BalS w0 O) (load_system_key meta) (fun k w => BalS w0 ((k, 0) :: O) w /\ created_of w k (km_created meta)) (BalS w0 O).
Proof.
  intro SO. unfold load_system_key.
  eapply (hoare_bind _ _ (fun r w => BalS w0 O w /\ r = store_find (km_id meta) (km_created meta) (w_store w))).
  { exact (hoare_BalS_res w0 O _ _ (q0_m_load _ _) (qL_m_load _ _) (m_load_res' _ _)). }
  intros [r|]; [|apply hoare_fail; cbv beta; tauto].
  apply (hoare_pull _ (e_created r = km_created meta)).
  { intros w [[_ ES] Er]. rewrite ES in Er. symmetry in Er. exact (store_ok_created _ _ _ _ SO Er). }
  intro Ec. rewrite <- Ec. eapply hoare_pre; [apply system_key_from_ekr_BS | cbv beta; tauto].
Qed.

(* GetOrLoad without a cache: load, wrap with one reference *)
Lemma get_or_load_none_BS w0 O rci meta loader (G : nat -> world -> Prop) :
  (forall k, stable0 (G k)) ->
  hoare (BalS w0 O) (loader meta) (fun k w => BalS w0 ((k, 0) :: O) w /\ G k w) (BalS w0 O) ->
  hoare (BalS w0 O) (get_or_load None rci meta loader) (fun k w => BalS w0 ((k, 1) :: O) w /\ G k w) (BalS w0 O).
Proof.
  intros SG HL. unfold get_or_load. eapply (hoare_bind _ _ _); [exact HL|]. intro k.
  eapply (hoare_bind _ _ (fun _ w => BalS w0 ((k, 1) :: O) w /\ G k w)); [|intros _; apply hoare_ret; tauto].
  intros w [[B ES] Hc]. pose proof (cck_wrap_B w0 O k 0 w B) as X. pose proof (q0_cck_wrap k w) as Q.
  destruct (cck_wrap k w) as [[e|a] w1]; cbn [snd] in Q; [contradiction|].
  split; [split; [exact X | rewrite (proj2 Q); exact ES] | exact (SG k w w1 Q Hc)].
Qed.

Lemma cck_close_BS w0 O k : hoare (BalS w0 ((k, 1) :: O)) (cck_close k) (fun _ w => BalS w0 O w) (fun _ => False).
Proof.
  intros w [B ES]. pose proof (cck_close_B w0 O k w B) as X. pose proof (q0_cck_close k w) as Q.
  destruct (cck_close k w) as [[e|a] w1]; cbn [snd] in Q; [contradiction|]. split; [exact X | rewrite (proj2 Q); exact ES].
Qed.

Lemma hoare_trivial {A} (m : M A) : hoare (fun _ => True) m (fun _ _ => True) (fun _ => True).
Proof. intros w _. destruct (m w) as [[?|?] ?]; exact I. Qed.

Lemma BalS_perm w0 O O' w : Permutation.Permutation O O' -> BalS w0 O w -> BalS w0 O' w.
Proof. intros P [B ES]. split; [exact (Bal_perm _ _ _ _ P B) | exact ES]. Qed.

(* intermediateKeyFromEKR with the parent's own system key in hand (no second lookup): one new object, or nothing *)
Lemma intermediate_key_from_ekr_BS w0 O e sk r c' :
  (forall pm, e_parent r = Some pm -> km_created pm = c') ->
  hoare (fun w => BalS w0 ((sk, 1) :: O) w /\ created_of w sk c') (intermediate_key_from_ekr e sk r)
        (fun k w => BalS w0 ((k, 0) :: (sk, 1) :: O) w) (BalS w0 ((sk, 1) :: O)).
Proof.
  intro Ep. unfold intermediate_key_from_ekr.
  set (A := fun w => BalS w0 ((sk, 1) :: O) w /\ created_of w sk c').
  assert (HA : forall {X} (m : M X) (phi : X -> world -> Prop), quiet0 m -> qL m -> hoare (fun _ => True) m phi (fun _ => True) ->
                 hoare A m (fun a w => A w /\ phi a w) (BalS w0 ((sk, 1) :: O))).
  { intros X m phi Q0 QL Hr w [HB Hc]. pose proof (hoare_BalS_res w0 _ m phi Q0 QL Hr w HB) as Y. pose proof (Q0 w) as Q.
    destruct (m w) as [[er|a] w1]; cbn [snd] in Q; [exact Y|]. destruct Y as [Y1 Y2].
    split; [split; [exact Y1 | exact (stable_created_of sk c' w w1 (Rq0_Rq _ _ Q) Hc)] | exact Y2]. }
  eapply (hoare_bind _ _ _); [exact (HA _ (kobj_get sk) _ (q0_kobj_get sk) (qL_kobj_get sk) (kobj_get_res sk))|].
  intro sko. apply (hoare_pull _ (ko_created sko = c')).
  { intros w [[_ [o [Ho Hc]]] Hn]. rewrite Ho in Hn. inversion Hn; subst o. exact Hc. }
  intro Ec.
  assert (Sel : (match e_parent r with
                 | Some pm => if ko_created sko =? km_created pm then ret sk else get_or_load_system_key e pm
                 | None => ret sk end) = ret sk).
  { destruct (e_parent r) as [pm|] eqn:Epm; [|reflexivity]. rewrite (Ep pm eq_refl), Ec, Z.eqb_refl. reflexivity. }
  rewrite Sel.
  eapply (hoare_bind _ _ (fun sk' w => A w /\ sk' = sk)); [apply hoare_ret; cbv beta; tauto|].
  intro sk'. apply hoare_pre with (P' := fun w => sk' = sk /\ A w); [|cbv beta; tauto]. apply hoare_pure. intros ->.
  eapply (hoare_bind _ _ (fun _ w => A w)).
  { eapply hoare_post; [exact (HA _ (key_bytes sk) (fun _ _ => True) (q0_key_bytes sk) (qL_key_bytes sk) (hoare_trivial _))|]. cbv beta. tauto. }
  intro skb.
  eapply (hoare_bind _ _ (fun _ w => A w)).
  { eapply hoare_post; [exact (HA _ (aead_decrypt (e_key r) skb) (fun _ _ => True) (q0_aead_decrypt _ _) (qL_aead_decrypt _ _) (hoare_trivial _))|]. cbv beta. tauto. }
  intro ikb. eapply hoare_weaken; [apply (new_crypto_key_BS w0 ((sk, 1) :: O)) | | |]; unfold A; cbv beta; tauto.
Qed.

(* loadIntermediateKey without a system-key cache: at most the new intermediate key object is left *)
Lemma load_intermediate_key_BS w0 O e meta :
  store_ok (w_store w0) -> en_sk e = None ->
  hoare (BalS w0 O) (load_intermediate_key e meta) (fun k w => BalS w0 ((k, 0) :: O) w) (BalS w0 O).
Proof.
  intros SO Esk. unfold load_intermediate_key.
  eapply (hoare_bind _ _ (fun r w => BalS w0 O w)); [exact (hoare_BalS w0 O _ (q0_m_load _ _) (qL_m_load _ _))|].
  intros [r|]; [|apply hoare_fail; cbv beta; tauto].
  destruct (e_parent r) as [pm|] eqn:Ep; [|apply hoare_fail; cbv beta; tauto].
  eapply (hoare_bind _ _ (fun sk w => BalS w0 ((sk, 1) :: O) w /\ created_of w sk (km_created pm))).
  { unfold get_or_load_system_key. rewrite Esk. apply (get_or_load_none_BS w0 O _ pm load_system_key (fun k w => created_of w k (km_created pm))).
    - intro k. apply stable_stable0. apply stable_created_of.
    - apply load_system_key_BS. exact SO. }
  intro sk.
  eapply hoare_finally with (Q1 := fun k w => BalS w0 ((k, 0) :: (sk, 1) :: O) w) (E1 := BalS w0 ((sk, 1) :: O)).
  - apply (intermediate_key_from_ekr_BS w0 O e sk r (km_created pm)). intros pm' Hp. rewrite Ep in Hp. inversion Hp. reflexivity.
  - intro k. intros w HB.
    assert (HB' : BalS w0 ((sk, 1) :: (k, 0) :: O) w) by (eapply BalS_perm; [apply Permutation.perm_swap | exact HB]).
    pose proof (cck_close_BS w0 ((k, 0) :: O) sk w HB') as X. destruct (cck_close sk w) as [[er|a] w1]; [contradiction | exact X].
  - intros w HB. pose proof (cck_close_BS w0 O sk w HB) as X. destruct (cck_close sk w) as [[er|a] w1]; [contradiction | exact X].
Qed.

Lemma decrypt_row_BS w0 O ik key data : hoare (BalS w0 O) (decrypt_row ik key data) (fun _ w => BalS w0 O w) (BalS w0 O).
Proof. apply hoare_BalS; [apply q0_decrypt_row | apply qL_decrypt_row]. Qed.

(* DecryptDataRowRecord with caching disabled: every outcome leaves nothing behind *)
Theorem decrypt_nocache_BS w0 e r :
  store_ok (w_store w0) -> en_sk e = None -> en_ik e = None ->
  hoare (BalS w0 []) (decrypt_data_row_record e r) (fun _ w => BalS w0 [] w) (BalS w0 []).
Proof.
  intros SO Esk Eik. unfold decrypt_data_row_record.
  destruct (d_key r) as [key|]; [|apply hoare_fail; tauto].
  destruct (e_parent key) as [pm|]; [|apply hoare_fail; tauto].
  destruct (negb (is_valid_ik_id (en_part e) (km_id pm))); [apply hoare_fail; tauto|].
  rewrite Eik.
  eapply (hoare_bind _ _ (fun ik w => BalS w0 [(ik, 1)] w /\ True)).
  { apply (get_or_load_none_BS w0 [] _ pm (load_intermediate_key e) (fun _ _ => True)); [intro; apply stable0_pure|].
    eapply hoare_post; [exact (load_intermediate_key_BS w0 [] e pm SO Esk)|]. intros k w HB. split; [exact HB | exact I]. }
  intro ik.
  eapply hoare_finally with (Q1 := fun _ w => BalS w0 [(ik, 1)] w) (E1 := BalS w0 [(ik, 1)]).
  - eapply hoare_pre; [apply decrypt_row_BS | cbv beta; tauto].
  - intros _ w HB. pose proof (cck_close_BS w0 [] ik w HB) as X. destruct (cck_close ik w) as [[er|a] w1]; [contradiction | exact X].
  - intros w HB. pose proof (cck_close_BS w0 [] ik w HB) as X. destruct (cck_close ik w) as [[er|a] w1]; [contradiction | exact X].
Qed.

(* ---- the cache-less Encrypt: everything is released, except what known finding C09-J leaks ----------------------- *)

Lemma hoare_Bal {A} w0 O (m : M A) : qL m -> hoare (Bal w0 O) m (fun _ w => Bal w0 O w) (Bal w0 O).
Proof. intro QL. exact (hoare_qL m (Bal w0 O) (Bal w0 O) QL (stableL_Bal w0 O) (fun _ H => H)). Qed.

Lemma hoare_Bal_res {A} w0 O (m : M A) (phi : A -> world -> Prop) :
  qL m -> hoare (fun _ => True) m phi (fun _ => True) -> hoare (Bal w0 O) m (fun a w => Bal w0 O w /\ phi a w) (Bal w0 O).
Proof. intros QL Hr. eapply hoare_weaken; [exact (hoare_conj _ _ _ _ _ _ _ (hoare_Bal w0 O m QL) Hr) | | |]; cbv beta; tauto. Qed.

Lemma system_key_from_ekr_B w0 O r : hoare (Bal w0 O) (system_key_from_ekr r) (fun k w => Bal w0 ((k, 0) :: O) w) (Bal w0 O).
Proof.
  unfold system_key_from_ekr. eapply (hoare_bind _ _ (fun _ w => Bal w0 O w)); [exact (hoare_Bal w0 O _ (qL_kms_decrypt _))|].
  intro bytes. eapply hoare_post; [apply new_crypto_key_B | cbv beta; tauto].
Qed.

Lemma load_system_key_B w0 O meta : hoare (Bal w0 O) (load_system_key meta) (fun k w => Bal w0 ((k, 0) :: O) w) (Bal w0 O).
Proof.
  unfold load_system_key. eapply (hoare_bind _ _ (fun _ w => Bal w0 O w)); [exact (hoare_Bal w0 O _ (qL_m_load _ _))|].
  intros [r|]; [apply system_key_from_ekr_B | apply hoare_fail; tauto].
Qed.

Lemma wrap_ret_B w0 O k n : hoare (Bal w0 ((k, n) :: O)) (cck_wrap k;;; ret k) (fun k' w => Bal w0 ((k', 1) :: O) w) (fun _ => False).
Proof. eapply (hoare_bind _ _ (fun _ w => Bal w0 ((k, 1) :: O) w)); [apply cck_wrap_B|]. intros _. apply hoare_ret. tauto. Qed.

Lemma get_or_load_none_B w0 O rci meta loader :
  hoare (Bal w0 O) (loader meta) (fun k w => Bal w0 ((k, 0) :: O) w) (Bal w0 O) ->
  hoare (Bal w0 O) (get_or_load None rci meta loader) (fun k w => Bal w0 ((k, 1) :: O) w) (Bal w0 O).
Proof.
  intro HL. unfold get_or_load. eapply (hoare_bind _ _ _); [exact HL|]. intro k.
  eapply hoare_weaken; [apply (wrap_ret_B w0 O k 0) | | |]; cbv beta; tauto.
Qed.

(* the owned set with at most one leaked object spliced in behind a given prefix *)
Definition BalJ (w0 : world) (pre O : owned) (w : world) : Prop := exists L, (List.length L <= 1)%nat /\ Bal w0 (pre ++ L ++ O) w.

Lemma BalJ_of w0 pre O w : Bal w0 (pre ++ O) w -> BalJ w0 pre O w.
Proof. intro B. exists []. split; [cbn; lia | exact B]. Qed.

(* intermediateKeyFromEKR in general: a parent mismatch makes it look a second system key up and never release it (C09-J) *)
Lemma intermediate_key_from_ekr_J w0 O e sk r :
  en_sk e = None ->
  hoare (Bal w0 ((sk, 1) :: O)) (intermediate_key_from_ekr e sk r)
        (fun k w => BalJ w0 [(k, 0); (sk, 1)] O w) (BalJ w0 [(sk, 1)] O).
Proof.
  intro Esk. unfold intermediate_key_from_ekr.
  eapply (hoare_bind _ _ (fun _ w => Bal w0 ((sk, 1) :: O) w)).
  { eapply hoare_weaken; [exact (hoare_Bal w0 ((sk, 1) :: O) _ (qL_kobj_get sk)) | | |]; cbv beta; try tauto. intros w B. apply (BalJ_of w0 [(sk, 1)]). exact B. }
  intro sko.
  (* the rest, for an arbitrary owned set behind sk *)
  assert (Rest : forall O' sk', hoare (Bal w0 O')
            (skb <- key_bytes sk' ;; ikb <- aead_decrypt (e_key r) skb ;; new_crypto_key (e_created r) (e_revoked r) ikb)
            (fun k w => Bal w0 ((k, 0) :: O') w) (Bal w0 O')).
  { intros O' sk'. eapply (hoare_bind _ _ (fun _ w => Bal w0 O' w)); [exact (hoare_Bal w0 O' _ (qL_key_bytes sk'))|]. intro skb.
    eapply (hoare_bind _ _ (fun _ w => Bal w0 O' w)); [exact (hoare_Bal w0 O' _ (qL_aead_decrypt _ _))|]. intro ikb.
    eapply hoare_post; [apply new_crypto_key_B | cbv beta; tauto]. }
  assert (Same : hoare (Bal w0 ((sk, 1) :: O)) (sk' <- ret sk ;; skb <- key_bytes sk' ;; ikb <- aead_decrypt (e_key r) skb ;; new_crypto_key (e_created r) (e_revoked r) ikb)
                       (fun k w => BalJ w0 [(k, 0); (sk, 1)] O w) (BalJ w0 [(sk, 1)] O)).
  { eapply (hoare_bind _ _ (fun _ w => Bal w0 ((sk, 1) :: O) w)); [apply hoare_ret; tauto|]. intro sk'.
    eapply hoare_weaken; [apply (Rest ((sk, 1) :: O) sk') | | |]; cbv beta; try tauto.
    - intros k w B. apply (BalJ_of w0 [(k, 0); (sk, 1)]). exact B.
    - intros w B. apply (BalJ_of w0 [(sk, 1)]). exact B. }
  destruct (e_parent r) as [pm|]; [|exact Same].
  destruct (ko_created sko =? km_created pm); [exact Same|].
  (* the mismatch: a second system key, loaded and wrapped, stays behind *)
  eapply (hoare_bind _ _ (fun sk3 w => Bal w0 ((sk3, 1) :: (sk, 1) :: O) w)).
  { unfold get_or_load_system_key. rewrite Esk. eapply hoare_weaken; [apply (get_or_load_none_B w0 ((sk, 1) :: O)); apply load_system_key_B | | |]; cbv beta; try tauto.
    intros w B. apply (BalJ_of w0 [(sk, 1)]). exact B. }
  intro sk3. eapply hoare_weaken; [apply (Rest ((sk3, 1) :: (sk, 1) :: O) sk3) | | |]; cbv beta; try tauto.
  - intros k w B. exists [(sk3, 1)]. split; [cbn; lia|]. cbn [app]. eapply Bal_perm; [|exact B].
    apply Permutation.perm_skip. apply Permutation.perm_swap.
  - intros w B. exists [(sk3, 1)]. split; [cbn; lia|]. cbn [app]. eapply Bal_perm; [|exact B]. apply Permutation.perm_swap.
Qed.

Lemma generate_key_now_B w0 O e : hoare (Bal w0 O) (generate_key_now e) (fun k w => Bal w0 ((k, 0) :: O) w) (Bal w0 O).
Proof.
  unfold generate_key_now. eapply (hoare_bind _ _ (fun _ w => Bal w0 O w)); [exact (hoare_Bal w0 O _ qL_get_now)|].
  intro now. eapply hoare_post; [apply generate_key_B | cbv beta; tauto].
Qed.

Lemma try_B {A} w0 O (m : M A) : qL m -> hoare (Bal w0 O) (try_ m) (fun _ w => Bal w0 O w) (fun _ => False).
Proof. intro QL. eapply hoare_try; [exact (hoare_Bal w0 O m QL) | |]; cbv beta; tauto. Qed.

Lemma load_latest_or_create_system_key_B w0 O e id :
  hoare (Bal w0 O) (load_latest_or_create_system_key e id) (fun k w => Bal w0 ((k, 0) :: O) w) (Bal w0 O).
Proof.
  unfold load_latest_or_create_system_key.
  eapply (hoare_bind _ _ (fun _ w => Bal w0 O w)); [exact (hoare_Bal w0 O _ (qL_m_load_latest id))|]. intro r.
  eapply (hoare_bind _ _ (fun _ w => Bal w0 O w)).
  { apply hoare_Bal. destruct r as [r|]; [|apply qL_ret]. apply qL_bind; [apply qL_is_envelope_invalid | intro; apply qL_ret]. }
  intro valid.
  assert (Create : hoare (Bal w0 O)
            (sk <- generate_key_now e;; st <- try_ (try_store_system_key e sk);;
             match st with
             | inr true => ret sk
             | inr false => ck_close sk;;; (r2 <- must_load_latest id;; system_key_from_ekr r2)
             | inl er => ck_close sk;;; fail er
             end) (fun k w => Bal w0 ((k, 0) :: O) w) (Bal w0 O)).
  { eapply (hoare_bind _ _ _); [apply generate_key_now_B|]. intro sk.
    eapply (hoare_bind _ _ (fun _ w => Bal w0 ((sk, 0) :: O) w)).
    { eapply hoare_weaken; [exact (try_B w0 ((sk, 0) :: O) _ (qL_try_store_system_key e sk)) | | |]; cbv beta; tauto. }
    intros [er|[|]].
    - eapply (hoare_bind _ _ (fun _ w => Bal w0 O w)); [eapply hoare_weaken; [apply (ck_close_B w0 O sk 0) | | |]; cbv beta; tauto|].
      intros _. apply hoare_fail. tauto.
    - apply hoare_ret. tauto.
    - eapply (hoare_bind _ _ (fun _ w => Bal w0 O w)); [eapply hoare_weaken; [apply (ck_close_B w0 O sk 0) | | |]; cbv beta; tauto|].
      intros _. eapply (hoare_bind _ _ (fun _ w => Bal w0 O w)); [exact (hoare_Bal w0 O _ (qL_must_load_latest id))|].
      intro r2. apply system_key_from_ekr_B. }
  destruct r as [r|]; [destruct valid|]; [apply system_key_from_ekr_B | exact Create | exact Create].
Qed.

Lemma BalJ_perm w0 pre pre' O w : Permutation.Permutation pre pre' -> BalJ w0 pre O w -> BalJ w0 pre' O w.
Proof. intros P [L [Le B]]. exists L. split; [exact Le|]. eapply Bal_perm; [|exact B]. apply Permutation.Permutation_app_tail. exact P. Qed.

(* closing an object that sits somewhere in the prefix *)
Lemma cck_close_J w0 pre O sk :
  hoare (BalJ w0 ((sk, 1) :: pre) O) (cck_close sk) (fun _ w => BalJ w0 pre O w) (fun _ => False).
Proof.
  intros w [L [Le B]]. cbn [app] in B. pose proof (cck_close_B w0 (pre ++ L ++ O) sk w B) as X.
  destruct (cck_close sk w) as [[er|a] w1]; [contradiction|]. exists L. split; assumption.
Qed.

(* the part of createIntermediateKey after the system key is in hand *)
Lemma create_ik_with_sk_J w0 O e sk :
  en_sk e = None ->
  hoare (Bal w0 ((sk, 1) :: O)) (create_ik_with_sk e sk) (fun k w => BalJ w0 [(k, 0); (sk, 1)] O w) (BalJ w0 [(sk, 1)] O).
Proof.
  intro Esk. unfold create_ik_with_sk.
  eapply (hoare_bind _ _ (fun ik w => Bal w0 ((ik, 0) :: (sk, 1) :: O) w)).
  { eapply hoare_weaken; [apply (generate_key_now_B w0 ((sk, 1) :: O)) | | |]; cbv beta; try tauto. intros w B. exact (BalJ_of w0 [(sk, 1)] O w B). }
  intro ik.
  eapply (hoare_bind _ _ (fun _ w => Bal w0 ((ik, 0) :: (sk, 1) :: O) w)).
  { eapply hoare_weaken; [exact (try_B w0 ((ik, 0) :: (sk, 1) :: O) _ (qL_try_store_intermediate_key e ik sk)) | | |]; cbv beta; tauto. }
  intros [er|[|]].
  - eapply (hoare_bind _ _ (fun _ w => Bal w0 ((sk, 1) :: O) w)); [eapply hoare_weaken; [apply (ck_close_B w0 ((sk, 1) :: O) ik 0) | | |]; cbv beta; tauto|].
    intros _. apply hoare_fail. intros w B. exact (BalJ_of w0 [(sk, 1)] O w B).
  - apply hoare_ret. intros w B. exact (BalJ_of w0 [(ik, 0); (sk, 1)] O w B).
  - eapply (hoare_bind _ _ (fun _ w => Bal w0 ((sk, 1) :: O) w)); [eapply hoare_weaken; [apply (ck_close_B w0 ((sk, 1) :: O) ik 0) | | |]; cbv beta; tauto|].
    intros _. eapply (hoare_bind _ _ (fun _ w => Bal w0 ((sk, 1) :: O) w)).
    { eapply hoare_weaken; [exact (hoare_Bal w0 ((sk, 1) :: O) _ (qL_must_load_latest (ik_id e))) | | |]; cbv beta; try tauto.
      intros w B. exact (BalJ_of w0 [(sk, 1)] O w B). }
    intro r2. apply intermediate_key_from_ekr_J. exact Esk.
Qed.

Lemma get_or_load_latest_none_B w0 O rci ex id loader :
  hoare (Bal w0 O) (loader {| km_id := id; km_created := 0 |}) (fun k w => Bal w0 ((k, 0) :: O) w) (Bal w0 O) ->
  hoare (Bal w0 O) (get_or_load_latest None rci ex id loader) (fun k w => Bal w0 ((k, 1) :: O) w) (Bal w0 O).
Proof.
  intro HL. unfold get_or_load_latest. eapply (hoare_bind _ _ _); [exact HL|]. intro k.
  eapply hoare_weaken; [apply (wrap_ret_B w0 O k 0) | | |]; cbv beta; tauto.
Qed.

(* createIntermediateKey *)
Lemma create_intermediate_key_J w0 O e :
  en_sk e = None ->
  hoare (Bal w0 O) (create_intermediate_key e) (fun k w => BalJ w0 [(k, 0)] O w) (BalJ w0 [] O).
Proof.
  intro Esk. unfold create_intermediate_key. rewrite Esk.
  eapply (hoare_bind _ _ (fun sk w => Bal w0 ((sk, 1) :: O) w)).
  { eapply hoare_weaken; [apply (get_or_load_latest_none_B w0 O); apply load_latest_or_create_system_key_B | | |]; cbv beta; try tauto.
    intros w B. exact (BalJ_of w0 [] O w B). }
  intro sk.
  eapply hoare_finally with (Q1 := fun k w => BalJ w0 [(k, 0); (sk, 1)] O w) (E1 := BalJ w0 [(sk, 1)] O).
  - apply create_ik_with_sk_J. exact Esk.
  - intro k. eapply hoare_weaken; [apply (cck_close_J w0 [(k, 0)] O sk) | | |]; cbv beta; try tauto.
    intros w B. eapply BalJ_perm; [|exact B]. apply Permutation.perm_swap.
  - eapply hoare_weaken; [apply (cck_close_J w0 [] O sk) | | |]; cbv beta; tauto.
Qed.

Lemma BalS_Bal w0 O w : BalS w0 O w -> Bal w0 O w. Proof. intro H. exact (proj1 H). Qed.

(* getValidIntermediateKey with the parent's own system key in hand *)
Lemma get_valid_intermediate_key_B w0 O e sk r c' :
  (forall pm, e_parent r = Some pm -> km_created pm = c') ->
  hoare (fun w => BalS w0 ((sk, 1) :: O) w /\ created_of w sk c') (get_valid_intermediate_key e sk r)
        (fun v w => match v with Some ik => BalS w0 ((ik, 0) :: (sk, 1) :: O) w | None => BalS w0 ((sk, 1) :: O) w end)
        (BalS w0 ((sk, 1) :: O)).
Proof.
  intro Ep. unfold get_valid_intermediate_key.
  set (A := fun w => BalS w0 ((sk, 1) :: O) w /\ created_of w sk c').
  eapply (hoare_bind _ _ (fun _ w => A w)).
  { intros w [HB Hc]. pose proof (hoare_BalS w0 _ _ (q0_is_key_invalid sk (p_expire (en_pol e))) (qL_is_key_invalid _ _) w HB) as Y.
    pose proof (q0_is_key_invalid sk (p_expire (en_pol e)) w) as Q.
    destruct (is_key_invalid sk (p_expire (en_pol e)) w) as [[er|a] w1]; cbn [snd] in Q.
    - exact Y.
    - split; [exact Y | exact (stable_created_of sk c' w w1 (Rq0_Rq _ _ Q) Hc)]. }
  intros [|]; [apply hoare_ret; unfold A; cbv beta; tauto|].
  eapply (hoare_bind _ _ (fun x w => match x with inr ik => BalS w0 ((ik, 0) :: (sk, 1) :: O) w | inl _ => BalS w0 ((sk, 1) :: O) w end)).
  { eapply hoare_try; [exact (intermediate_key_from_ekr_BS w0 O e sk r c' Ep) | |]; cbv beta; tauto. }
  intros [er|ik]; apply hoare_ret; tauto.
Qed.

(* loadLatestOrCreateIntermediateKey, first thing in an Encrypt (the metastore is still as it was) *)
Lemma load_latest_or_create_intermediate_key_J w0 O e id :
  store_ok (w_store w0) -> en_sk e = None ->
  hoare (BalS w0 O) (load_latest_or_create_intermediate_key e id) (fun k w => BalJ w0 [(k, 0)] O w) (BalJ w0 [] O).
Proof.
  intros SO Esk. unfold load_latest_or_create_intermediate_key.
  assert (Create : forall (P : world -> Prop), (forall w, P w -> Bal w0 O w) ->
            hoare P (create_intermediate_key e) (fun k w => BalJ w0 [(k, 0)] O w) (BalJ w0 [] O)).
  { intros P HP. eapply hoare_pre; [exact (create_intermediate_key_J w0 O e Esk) | exact HP]. }
  eapply (hoare_bind _ _ (fun _ w => BalS w0 O w)).
  { eapply hoare_weaken; [exact (hoare_BalS w0 O _ (q0_m_load_latest id) (qL_m_load_latest id)) | | |]; cbv beta; try tauto.
    intros w B. exact (BalJ_of w0 [] O w (proj1 B)). }
  intro r.
  eapply (hoare_bind _ _ (fun _ w => BalS w0 O w)).
  { eapply hoare_weaken; [apply (hoare_BalS w0 O) | | |]; cbv beta; try tauto.
    - destruct r as [r|]; [|apply q0_ret]. destruct (e_parent r); [|apply q0_ret]. apply q0_bind; [apply q0_is_envelope_invalid | intro; apply q0_ret].
    - destruct r as [r|]; [|apply qL_ret]. destruct (e_parent r); [|apply qL_ret]. apply qL_bind; [apply qL_is_envelope_invalid | intro; apply qL_ret].
    - intros w B. exact (BalJ_of w0 [] O w (proj1 B)). }
  intro usable.
  destruct r as [r|]; [|apply Create; exact (BalS_Bal w0 O)].
  destruct usable; [|apply Create; exact (BalS_Bal w0 O)].
  destruct (e_parent r) as [pm|] eqn:Ep; [|apply Create; exact (BalS_Bal w0 O)].
  eapply (hoare_bind _ _ (fun x w => match x with
                                     | inr sk => BalS w0 ((sk, 1) :: O) w /\ created_of w sk (km_created pm)
                                     | inl _ => BalS w0 O w end)).
  { eapply hoare_try with (E1 := BalS w0 O).
    - unfold get_or_load_system_key. rewrite Esk. apply (get_or_load_none_BS w0 O _ pm load_system_key (fun k w => created_of w k (km_created pm))).
      + intro k. apply stable_stable0. apply stable_created_of.
      + apply load_system_key_BS. exact SO.
    - cbv beta. tauto.
    - cbv beta. tauto. }
  intros [er|sk]; [apply Create; exact (BalS_Bal w0 O)|].
  eapply hoare_finally with (Q1 := fun k w => BalJ w0 [(k, 0); (sk, 1)] O w) (E1 := BalJ w0 [(sk, 1)] O).
  - eapply (hoare_bind _ _ _).
    + eapply hoare_weaken; [apply (get_valid_intermediate_key_B w0 O e sk r (km_created pm)) | | |]; cbv beta.
      * intros pm' Hp. rewrite Ep in Hp. inversion Hp. reflexivity.
      * intros w X. exact X.
      * intros a w X. exact X.
      * intros w B. exact (BalJ_of w0 [(sk, 1)] O w (proj1 B)).
    + intros [ik|].
      * apply hoare_ret. intros w B. exact (BalJ_of w0 [(ik, 0); (sk, 1)] O w (proj1 B)).
      * eapply hoare_weaken; [exact (create_intermediate_key_J w0 ((sk, 1) :: O) e Esk) | | |]; cbv beta.
        -- intros w B. exact (proj1 B).
        -- intros k w [L [Le B]]. exists L. split; [exact Le|]. eapply Bal_perm; [|exact B]. cbn [app].
           apply Permutation.perm_skip. apply Permutation.Permutation_sym. apply Permutation.Permutation_middle.
        -- intros w [L [Le B]]. exists L. split; [exact Le|]. eapply Bal_perm; [|exact B]. cbn [app].
           apply Permutation.Permutation_sym. apply Permutation.Permutation_middle.
  - intro k. eapply hoare_weaken; [apply (cck_close_J w0 [(k, 0)] O sk) | | |]; cbv beta; try tauto.
    intros w B. eapply BalJ_perm; [|exact B]. apply Permutation.perm_swap.
  - eapply hoare_weaken; [apply (cck_close_J w0 [] O sk) | | |]; cbv beta; tauto.
Qed.

(* the part of EncryptPayload after the intermediate key is in hand: the data key's object comes and goes *)
Lemma encrypt_with_ik_B w0 O e ik payload :
  hoare (Bal w0 O) (encrypt_with_ik e ik payload) (fun _ w => Bal w0 O w) (Bal w0 O).
Proof.
  unfold encrypt_with_ik.
  eapply (hoare_bind _ _ (fun _ w => Bal w0 O w)); [exact (hoare_Bal w0 O _ qL_get_now)|]. intro now.
  eapply (hoare_bind _ _ (fun drk w => Bal w0 ((drk, 0) :: O) w)); [eapply hoare_post; [apply generate_key_B | cbv beta; tauto]|]. intro drk.
  eapply hoare_finally with (Q1 := fun _ w => Bal w0 ((drk, 0) :: O) w) (E1 := Bal w0 ((drk, 0) :: O)).
  - apply hoare_Bal. qL_go.
  - intros _. eapply hoare_weaken; [apply (ck_close_B w0 O drk 0) | | |]; cbv beta; tauto.
  - eapply hoare_weaken; [apply (ck_close_B w0 O drk 0) | | |]; cbv beta; tauto.
Qed.

(* EncryptPayload with caching disabled *)
Theorem encrypt_nocache_J w0 e payload :
  store_ok (w_store w0) -> en_sk e = None -> en_ik e = None ->
  hoare (BalS w0 []) (encrypt_payload e payload) (fun _ w => BalJ w0 [] [] w) (BalJ w0 [] []).
Proof.
  intros SO Esk Eik. unfold encrypt_payload. rewrite Eik. unfold get_or_load_latest.
  eapply (hoare_bind _ _ (fun ik w => BalJ w0 [(ik, 1)] [] w)).
  { eapply (hoare_bind _ _ _); [exact (load_latest_or_create_intermediate_key_J w0 [] e _ SO Esk)|]. intro k.
    intros w [L [Le B]]. cbn [app] in B. pose proof (wrap_ret_B w0 (L ++ []) k 0 w B) as X.
    destruct ((cck_wrap k;;; ret k) w) as [[er|a] w1]; [contradiction|]. exists L. split; [exact Le | exact X]. }
  intro ik.
  eapply hoare_finally with (Q1 := fun _ w => BalJ w0 [(ik, 1)] [] w) (E1 := BalJ w0 [(ik, 1)] []).
  - intros w [L [Le B]]. pose proof (encrypt_with_ik_B w0 _ e ik payload w B) as X.
    destruct (encrypt_with_ik e ik payload w) as [[er|a] w1]; (exists L; split; [exact Le | exact X]).
  - intros _. eapply hoare_weaken; [apply (cck_close_J w0 [] [] ik) | | |]; cbv beta; tauto.
  - eapply hoare_weaken; [apply (cck_close_J w0 [] [] ik) | | |]; cbv beta; tauto.
Qed.

Lemma session_env_res s :
  hoare (fun _ => True) (session_env s)
        (fun e w => exists x fa, nth_error (w_sessions w) s = Some x /\ nth_error (w_factories w) (ss_factory x) = Some fa /\
                                 en_sk e = fa_sk fa /\ en_ik e = ss_ik x) (fun _ => True).
Proof.
  intros w _. unfold session_env, bind, get_session, get_factory, gets. cbn.
  destruct (nth_error (w_sessions w) s) as [x|] eqn:Es; cbn; [|exact I].
  destruct (nth_error (w_factories w) (ss_factory x)) as [fa|] eqn:Ef; cbn; [|exact I].
  exists x, fa. repeat split; assumption.
Qed.

(* C09, caching disabled, at the API: ANY Decrypt (any record, any tampering, any fault plan) in a session without key caches
   leaves every earlier secret and key object exactly as it was and every secret it allocated closed *)
Theorem decrypt_nocache_releases h s rec muts faults :
  store_ok (w_store (h_world h)) ->
  (forall x fa, nth_error (w_sessions (h_world h)) s = Some x -> nth_error (w_factories (h_world h)) (ss_factory x) = Some fa ->
                fa_sk fa = None /\ ss_ik x = None) ->
  let w := h_world h in
  let w' := h_world (snd (hstep h (HDecrypt s rec muts faults))) in
  (forall sid, (sid < List.length (w_secrets w))%nat -> nth_error (w_secrets w') sid = nth_error (w_secrets w) sid) /\
  (forall sid sc, (List.length (w_secrets w) <= sid)%nat -> nth_error (w_secrets w') sid = Some sc -> s_closed sc = true) /\
  (forall k, (k < List.length (w_kobjs w))%nat -> nth_error (w_kobjs w') k = nth_error (w_kobjs w) k).
Proof.
  intros SO NC w w'. unfold w'. cbn [hstep]. fold w.
  destruct (nth_error (h_recs h) rec) as [r0|]; [|cbn [snd h_world]; fold w; repeat split; intros; try reflexivity;
    exfalso; assert (sid < List.length (w_secrets w))%nat by (apply nth_error_Some; congruence); lia].
  set (r1 := fold_left (apply_mut (h_recs h)) muts r0). set (w0 := begin_op faults w).
  assert (B0 : BalS w0 [] w0) by (split; [apply Bal_init | reflexivity]).
  assert (SO0 : store_ok (w_store w0)) by exact SO.
  assert (X : BalS w0 [] (snd ((e <- session_env s;; decrypt_data_row_record e r1) w0))).
  { unfold bind.
    pose proof (q0_session_env s w0) as Q0. pose proof (qL_session_env s w0) as QL. pose proof (session_env_res s w0 I) as RS.
    destruct (session_env s w0) as [[er|e] w1]; cbn [snd] in *.
    - split; [exact (Bal_same _ _ _ _ QL (proj1 B0)) | rewrite (proj2 Q0); reflexivity].
    - assert (HB : BalS w0 [] w1) by (split; [exact (Bal_same _ _ _ _ QL (proj1 B0)) | rewrite (proj2 Q0); reflexivity]).
      destruct RS as [x [fa [Hs [Hf [E1 E2]]]]].
      destruct Q0 as [[_ [_ [_ [S1 [S2 _]]]]] _]. rewrite S1 in Hs. rewrite S2 in Hf.
      destruct (NC x fa Hs Hf) as [N1 N2].
      pose proof (decrypt_nocache_BS w0 e r1 SO0 ltac:(congruence) ltac:(congruence) w1 HB) as Y.
      destruct (decrypt_data_row_record e r1 w1) as [[er|a] w2]; exact Y. }
  destruct ((e <- session_env s;; decrypt_data_row_record e r1) w0) as [[er|a] w1]; cbn [snd h_world] in *;
    destruct X as [B _]; exact (Bal_nil_released w0 w1 B).
Qed.

(* C09, caching disabled, Encrypt at the API: whatever happens - any fault plan, rotation, duplicate fallback - every secret the
   call allocated is closed when it returns, except at most ONE (the system key that known finding C09-J leaks on a parent
   mismatch in the duplicate fallback); earlier secrets and key objects are untouched *)
Theorem encrypt_nocache_releases h s payload faults :
  store_ok (w_store (h_world h)) ->
  (forall x fa, nth_error (w_sessions (h_world h)) s = Some x -> nth_error (w_factories (h_world h)) (ss_factory x) = Some fa ->
                fa_sk fa = None /\ ss_ik x = None) ->
  let w := h_world h in
  let w' := h_world (snd (hstep h (HEncrypt s payload faults))) in
  (forall sid, (sid < List.length (w_secrets w))%nat -> nth_error (w_secrets w') sid = nth_error (w_secrets w) sid) /\
  (exists leak : list nat, (List.length leak <= 1)%nat /\
     forall sid sc, (List.length (w_secrets w) <= sid)%nat -> nth_error (w_secrets w') sid = Some sc -> s_closed sc = true \/ In sid leak) /\
  (forall k, (k < List.length (w_kobjs w))%nat -> nth_error (w_kobjs w') k = nth_error (w_kobjs w) k).
Proof.
  intros SO NC w w'. unfold w'. cbn [hstep]. fold w.
  set (w0 := begin_op faults w).
  assert (B0 : BalS w0 [] w0) by (split; [apply Bal_init | reflexivity]).
  assert (SO0 : store_ok (w_store w0)) by exact SO.
  assert (X : BalJ w0 [] [] (snd ((e <- session_env s;; encrypt_payload e (PPayload payload)) w0))).
  { unfold bind.
    pose proof (q0_session_env s w0) as Q0. pose proof (qL_session_env s w0) as QL. pose proof (session_env_res s w0 I) as RS.
    destruct (session_env s w0) as [[er|e] w1]; cbn [snd] in *.
    - apply (BalJ_of w0 [] []). exact (Bal_same _ _ _ _ QL (proj1 B0)).
    - assert (HB : BalS w0 [] w1) by (split; [exact (Bal_same _ _ _ _ QL (proj1 B0)) | rewrite (proj2 Q0); reflexivity]).
      destruct RS as [x [fa [Hs [Hf [E1 E2]]]]].
      destruct Q0 as [[_ [_ [_ [S1 [S2 _]]]]] _]. rewrite S1 in Hs. rewrite S2 in Hf.
      destruct (NC x fa Hs Hf) as [N1 N2].
      pose proof (encrypt_nocache_J w0 e (PPayload payload) SO0 ltac:(congruence) ltac:(congruence) w1 HB) as Y.
      destruct (encrypt_payload e (PPayload payload) w1) as [[er|a] w2]; exact Y. }
  destruct ((e <- session_env s;; encrypt_payload e (PPayload payload)) w0) as [[er|a] w1]; cbn [snd h_world] in *;
    destruct X as [L [Le B]]; cbn [app] in B; rewrite app_nil_r in B; exact (Bal_small_released w0 L w1 B Le).
Qed.

End NoCache.

(* over every history of SDK operations, clock changes and revocations *)
Theorem nocache_decrypt_releases_everything svc prod t0 ops s rec muts faults :
  Forall (benign svc prod) ops ->
  let h := snd (hrun (hinit t0) ops) in
  (forall x fa, nth_error (w_sessions (h_world h)) s = Some x -> nth_error (w_factories (h_world h)) (ss_factory x) = Some fa ->
                fa_sk fa = None /\ ss_ik x = None) ->
  let w := h_world h in
  let w' := h_world (snd (hstep h (HDecrypt s rec muts faults))) in
  (forall sid, (sid < List.length (w_secrets w))%nat -> nth_error (w_secrets w') sid = nth_error (w_secrets w) sid) /\
  (forall sid sc, (List.length (w_secrets w) <= sid)%nat -> nth_error (w_secrets w') sid = Some sc -> s_closed sc = true) /\
  (forall k, (k < List.length (w_kobjs w))%nat -> nth_error (w_kobjs w') k = nth_error (w_kobjs w) k).
Proof.
  intros FB h NC. apply (decrypt_nocache_releases svc prod h s rec muts faults); [|exact NC].
  exact (store_well_formed svc prod t0 ops FB).
Qed.

(* non-vacuity: a factory with key caching disabled, one session, an encrypt; the premise holds for session 0 and the
   following Decrypt allocates two secrets (system key, intermediate key) and returns the payload *)
Definition pol_nocache : policy :=
  {| p_expire := 100 * sec; p_rci := 10 * sec; p_precision := 1 * sec; p_cache_sk := false; p_cache_ik := false; p_shared_ik := false;
     p_sk_pol := Rotation.simple_pol; p_ik_pol := Rotation.simple_pol; p_cache_sessions := false; p_sess_cap := 1000;
     p_sess_dur := 7200 * sec; p_sess_kind := Generic.Slru |}.
Definition nocache_ops : list hop := [HNewFactory pol_nocache (s "svc") (s "prod") None; HGetSession 0 (s "p"); HEncrypt 0 7 []].

Definition premise_b (h : hstate) (s0 : nat) : bool :=
  match nth_error (w_sessions (h_world h)) s0 with
  | Some x => match nth_error (w_factories (h_world h)) (ss_factory x) with
              | Some fa => match fa_sk fa, ss_ik x with None, None => true | _, _ => false end
              | None => false end
  | None => false end.

Example nocache_nonvacuous :
  let h := snd (hrun (hinit Rotation.t0) nocache_ops) in
  Forall (benign (s "svc") (s "prod")) nocache_ops /\ premise_b h 0 = true /\
  fst (fst (hstep h (HDecrypt 0 0 [] []))) = ODec (Some 7%nat) /\
  List.length (w_secrets (h_world (snd (hstep h (HDecrypt 0 0 [] []))))) = (List.length (w_secrets (h_world h)) + 2)%nat.
Proof.
  split; [repeat constructor; cbn; try exact I|]. split; [vm_compute; reflexivity|]. split; vm_compute; reflexivity.
Qed.

Theorem nocache_encrypt_releases_all_but_one svc prod t0 ops s payload faults :
  Forall (benign svc prod) ops ->
  let h := snd (hrun (hinit t0) ops) in
  (forall x fa, nth_error (w_sessions (h_world h)) s = Some x -> nth_error (w_factories (h_world h)) (ss_factory x) = Some fa ->
                fa_sk fa = None /\ ss_ik x = None) ->
  let w := h_world h in
  let w' := h_world (snd (hstep h (HEncrypt s payload faults))) in
  (forall sid, (sid < List.length (w_secrets w))%nat -> nth_error (w_secrets w') sid = nth_error (w_secrets w) sid) /\
  (exists leak : list nat, (List.length leak <= 1)%nat /\
     forall sid sc, (List.length (w_secrets w) <= sid)%nat -> nth_error (w_secrets w') sid = Some sc -> s_closed sc = true \/ In sid leak) /\
  (forall k, (k < List.length (w_kobjs w))%nat -> nth_error (w_kobjs w') k = nth_error (w_kobjs w) k).
Proof.
  intros FB h NC. apply (encrypt_nocache_releases svc prod h s payload faults); [|exact NC].
  exact (store_well_formed svc prod t0 ops FB).
Qed.

(* in the ordinary case nothing at all is left: after the history above and one more Encrypt no secret is live *)
Example nocache_encrypt_leaves_nothing :
  live_secrets (h_world (snd (hrun (hinit Rotation.t0) (nocache_ops ++ [HEncrypt 0 8 []])))) = [].
Proof. vm_compute. reflexivity. Qed.
