(* C20 at the level of a session: an Encrypt or a Decrypt whose key cache holds a FRESH entry for the key it needs performs no
   metastore call and no KMS call, and leaves the key table alone - whatever else it does (AEAD, data-key allocation, reference
   counting).  "Fresh" is the cache's own notion (C20_fresh_means): flagged revoked, or loaded at most one interval ago. *)
From Asherah Require Import Envelope.Session Envelope.Hoare Envelope.CacheCalls.
From Coq Require Import Lia.
Open Scope Z_scope.

(* the external calls C20 speaks about: metastore and KMS *)
Definition is_ext (e : event) : bool :=
  match e with
  | EvMLoad _ _ _ | EvMLoadLatest _ _ | EvMStore _ _ _ _ | EvKEnc _ | EvKDec _ => true
  | _ => false
  end.
Definition ext (t : list event) : list event := filter is_ext t.

Definition sameX (w w' : world) : Prop := w_store w' = w_store w /\ ext (w_trace w') = ext (w_trace w).
Lemma sameX_refl w : sameX w w. Proof. split; reflexivity. Qed.
Lemma sameX_trans a b c : sameX a b -> sameX b c -> sameX a c. Proof. intros [A1 A2] [B1 B2]. split; congruence. Qed.
Definition qX {A} (m : M A) : Prop := qu sameX m.

Lemma qX_ret {A} (a : A) : qX (ret a). Proof. apply (qu_ret sameX sameX_refl). Qed.
Lemma qX_fail {A} e : qX (@fail A e). Proof. apply (qu_fail sameX sameX_refl). Qed.
Lemma qX_gets {A} (f : world -> A) : qX (gets f). Proof. apply (qu_gets sameX sameX_refl). Qed.
Lemma qX_bind {A B} (m : M A) (f : A -> M B) : qX m -> (forall a, qX (f a)) -> qX (bind m f). Proof. apply (qu_bind sameX sameX_trans). Qed.
Lemma qX_finally {A} (m : M A) (c : M unit) : qX m -> qX c -> qX (finally m c). Proof. apply (qu_finally sameX sameX_trans). Qed.
Lemma qX_try {A} (m : M A) : qX m -> qX (try_ m). Proof. apply (qu_try sameX). Qed.
Lemma qX_emit e : is_ext e = false -> qX (emit e).
Proof. intros He w. split; [reflexivity|]. cbn. unfold ext. cbn [filter]. rewrite He. reflexivity. Qed.
Lemma qX_next_call : qX next_call. Proof. intro w. split; reflexivity. Qed.
Lemma qX_bump_nonce : qX bump_nonce. Proof. intro w. split; reflexivity. Qed.
Lemma qX_secret_alloc m : qX (secret_alloc m). Proof. intro w. split; reflexivity. Qed.
Lemma qX_secret_mark_closed sid : qX (secret_mark_closed sid).
Proof. intro w. unfold secret_mark_closed. destruct (nth_error (w_secrets w) sid); split; reflexivity. Qed.
Lemma qX_kobj_alloc o : qX (kobj_alloc o). Proof. intro w. split; reflexivity. Qed.
Lemma qX_kobj_modify k g : qX (kobj_modify k g).
Proof. intro w. unfold kobj_modify. destruct (nth_error (w_kobjs w) k); split; reflexivity. Qed.
Lemma qX_put_cache cid c : qX (put_cache cid c). Proof. intro w. split; reflexivity. Qed.
Global Hint Resolve qX_next_call qX_bump_nonce qX_secret_alloc qX_secret_mark_closed qX_kobj_alloc qX_kobj_modify qX_put_cache : qX.

Ltac qX_step :=
  first
    [ solve [auto with qX]
    | apply qX_ret | apply qX_fail | apply qX_gets
    | apply qX_emit; reflexivity
    | apply qX_bind; [|intro]
    | apply qX_finally
    | apply qX_try
    | match goal with
      | |- qX (match ?x with _ => _ end) => destruct x
      | |- qX (let '(_, _) := ?x in _) => destruct x
      | |- qX (if ?x then _ else _) => destruct x
      end ].
Ltac qX_go := repeat qX_step.

Lemma qX_get_now : qX get_now. Proof. apply qX_gets. Qed.
Lemma qX_get_secrets : qX get_secrets. Proof. apply qX_gets. Qed.
Lemma qX_get_kobjs : qX get_kobjs. Proof. apply qX_gets. Qed.
Lemma qX_secret_count : qX secret_count. Proof. apply qX_gets. Qed.
Global Hint Resolve qX_get_now qX_get_secrets qX_get_kobjs qX_secret_count : qX.
Lemma qX_aead_encrypt p k : qX (aead_encrypt p k). Proof. unfold aead_encrypt. qX_go. Qed.
Lemma qX_aead_decrypt c k : qX (aead_decrypt c k). Proof. unfold aead_decrypt. qX_go. Qed.
Lemma qX_secret_new m : qX (secret_new m). Proof. unfold secret_new. qX_go. Qed.
Lemma qX_secret_random : qX secret_random. Proof. unfold secret_random. qX_go. Qed.
Lemma qX_secret_close sid : qX (secret_close sid). Proof. unfold secret_close. qX_go. Qed.
Lemma qX_secret_bytes sid : qX (secret_bytes sid). Proof. unfold secret_bytes. qX_go. Qed.
Lemma qX_kobj_get k : qX (kobj_get k). Proof. unfold kobj_get. qX_go. Qed.
Global Hint Resolve qX_aead_encrypt qX_aead_decrypt qX_secret_new qX_secret_random qX_secret_close qX_secret_bytes qX_kobj_get : qX.
Lemma qX_ck_close k : qX (ck_close k). Proof. unfold ck_close. qX_go. Qed.
Global Hint Resolve qX_ck_close : qX.
Lemma qX_cck_close k : qX (cck_close k). Proof. unfold cck_close. qX_go. Qed.
Lemma qX_cck_increment k : qX (cck_increment k). Proof. unfold cck_increment. qX_go. Qed.
Global Hint Resolve qX_cck_close qX_cck_increment : qX.
Lemma qX_key_bytes k : qX (key_bytes k). Proof. unfold key_bytes. qX_go. Qed.
Lemma qX_new_crypto_key c r m : qX (new_crypto_key c r m). Proof. unfold new_crypto_key. qX_go. Qed.
Global Hint Resolve qX_key_bytes qX_new_crypto_key : qX.
Lemma qX_generate_key c : qX (generate_key c). Proof. unfold generate_key. qX_go. Qed.
Lemma qX_get_cache cid : qX (get_cache cid). Proof. unfold get_cache. qX_go. Qed.
Global Hint Resolve qX_generate_key qX_get_cache : qX.
Lemma qX_kc_read cid m : qX (kc_read cid m). Proof. unfold kc_read. qX_go. Qed.
Lemma qX_reload_required e rci : qX (reload_required e rci). Proof. unfold reload_required. qX_go. Qed.
Global Hint Resolve qX_kc_read qX_reload_required : qX.
Lemma qX_kc_get_fresh cid rci m : qX (kc_get_fresh cid rci m). Proof. unfold kc_get_fresh. qX_go. Qed.
Lemma qX_is_key_invalid k e : qX (is_key_invalid k e). Proof. unfold is_key_invalid. qX_go. Qed.
Global Hint Resolve qX_kc_get_fresh qX_is_key_invalid : qX.
Lemma qX_decrypt_row ik key data : qX (decrypt_row ik key data). Proof. unfold decrypt_row. qX_go. Qed.
Lemma qX_encrypt_with_ik e ik p : qX (encrypt_with_ik e ik p). Proof. unfold encrypt_with_ik. qX_go. Qed.
Global Hint Resolve qX_decrypt_row qX_encrypt_with_ik : qX.

(* running a bind from a particular world *)
Lemma sameX_bind_at {A B} (m : M A) (f : A -> M B) w :
  sameX w (snd (m w)) -> (forall a, qX (f a)) -> sameX w (snd (bind m f w)).
Proof.
  intros Hm Hf. unfold bind. destruct (m w) as [[e|a] w1]; cbn [snd] in *; [exact Hm|].
  eapply sameX_trans; [exact Hm | apply Hf].
Qed.

(* the cache hands out a fresh entry: nothing external, whatever the loader *)
Lemma get_or_load_fresh_sameX cid rci meta loader w k w1 :
  kc_get_fresh cid rci meta w = (inr (Some (k, true)), w1) ->
  sameX w (snd (get_or_load (Some cid) rci meta loader w)).
Proof.
  intro H. unfold get_or_load. unfold bind at 1. rewrite H.
  eapply sameX_trans; [|apply (qX_bind (cck_increment k) (fun _ => ret k)); [apply qX_cck_increment | intro; apply qX_ret]].
  pose proof (qX_kc_get_fresh cid rci meta w) as Q. rewrite H in Q. exact Q.
Qed.

Lemma get_or_load_latest_fresh_sameX cid rci ex id loader w k w1 w2 :
  kc_get_fresh cid rci {| km_id := id; km_created := 0 |} w = (inr (Some (k, true)), w1) ->
  is_key_invalid k ex w1 = (inr false, w2) ->
  sameX w (snd (get_or_load_latest (Some cid) rci ex id loader w)).
Proof.
  intros H Hi. unfold get_or_load_latest. unfold bind at 1. rewrite H.
  unfold bind at 1. cbn [ret]. unfold bind at 1. rewrite Hi.
  pose proof (qX_kc_get_fresh cid rci {| km_id := id; km_created := 0 |} w) as Q1. rewrite H in Q1. cbn [snd] in Q1.
  pose proof (qX_is_key_invalid k ex w1) as Q2. rewrite Hi in Q2. cbn [snd] in Q2.
  eapply sameX_trans; [exact Q1|]. eapply sameX_trans; [exact Q2|].
  apply (qX_bind (cck_increment k) (fun _ => ret k)); [apply qX_cck_increment | intro; apply qX_ret].
Qed.

(* ---- Decrypt ------------------------------------------------------------------------------------------------------------------ *)
Theorem decrypt_with_fresh_key_makes_no_external_call e r key pm cid w k w1 :
  en_ik e = Some cid -> d_key r = Some key -> e_parent key = Some pm ->
  kc_get_fresh cid (p_rci (en_pol e)) pm w = (inr (Some (k, true)), w1) ->
  let w' := snd (decrypt_data_row_record e r w) in
  w_store w' = w_store w /\ ext (w_trace w') = ext (w_trace w).
Proof.
  intros Hc Hk Hp Hf. cbn zeta. unfold decrypt_data_row_record. rewrite Hk, Hp.
  destruct (negb (is_valid_ik_id (en_part e) (km_id pm))); [apply sameX_refl|].
  rewrite Hc. apply sameX_bind_at.
  - eapply get_or_load_fresh_sameX. exact Hf.
  - intro ik. apply qX_finally; [apply qX_decrypt_row | apply qX_cck_close].
Qed.

(* ---- Encrypt ------------------------------------------------------------------------------------------------------------------ *)
Theorem encrypt_with_fresh_valid_key_makes_no_external_call e payload cid w k w1 w2 :
  en_ik e = Some cid ->
  kc_get_fresh cid (p_rci (en_pol e)) {| km_id := ik_id e; km_created := 0 |} w = (inr (Some (k, true)), w1) ->
  is_key_invalid k (p_expire (en_pol e)) w1 = (inr false, w2) ->
  let w' := snd (encrypt_payload e payload w) in
  w_store w' = w_store w /\ ext (w_trace w') = ext (w_trace w).
Proof.
  intros Hc Hf Hi. cbn zeta. unfold encrypt_payload. rewrite Hc. apply sameX_bind_at.
  - eapply get_or_load_latest_fresh_sameX; eassumption.
  - intro ik. apply qX_finally; [apply qX_encrypt_with_ik | apply qX_cck_close].
Qed.

(* ================================================================================================================================
   "Repeating a decrypt that already succeeded": with the default (simple, never evicting) key cache, a Decrypt that succeeded
   leaves a FRESH entry for the record's intermediate key, so repeating it - and everything else that finds that entry fresh -
   goes without metastore and KMS until the interval has elapsed. *)
From Asherah Require Import Envelope.FrameInst Envelope.Coherent Envelope.Local Envelope.PartitionProofs.

(* caches and clock untouched; key objects keep existing with their revoked flag *)
Definition sameK (w w' : world) : Prop :=
  w_caches w' = w_caches w /\ w_now w' = w_now w /\
  (forall k o, nth_error (w_kobjs w) k = Some o ->
     exists o', nth_error (w_kobjs w') k = Some o' /\ ko_revoked o' = ko_revoked o /\ ko_created o' = ko_created o).
Lemma sameK_refl w : sameK w w. Proof. repeat split. intros k o H. exists o. split; [exact H | split; reflexivity]. Qed.
Lemma sameK_trans a b c : sameK a b -> sameK b c -> sameK a c.
Proof.
  intros [A1 [A2 A3]] [B1 [B2 B3]]. repeat split; try congruence.
  intros k o H. destruct (A3 k o H) as [o1 [H1 [E1 C1]]]. destruct (B3 k o1 H1) as [o2 [H2 [E2 C2]]]. exists o2. split; [exact H2 | split; congruence].
Qed.
Definition qK {A} (m : M A) : Prop := qu sameK m.
Lemma qK_ret {A} (a : A) : qK (ret a). Proof. apply (qu_ret sameK sameK_refl). Qed.
Lemma qK_fail {A} e : qK (@fail A e). Proof. apply (qu_fail sameK sameK_refl). Qed.
Lemma qK_gets {A} (f : world -> A) : qK (gets f). Proof. apply (qu_gets sameK sameK_refl). Qed.
Lemma qK_bind {A B} (m : M A) (f : A -> M B) : qK m -> (forall a, qK (f a)) -> qK (bind m f). Proof. apply (qu_bind sameK sameK_trans). Qed.
Lemma qK_finally {A} (m : M A) (c : M unit) : qK m -> qK c -> qK (finally m c). Proof. apply (qu_finally sameK sameK_trans). Qed.
Lemma qK_try {A} (m : M A) : qK m -> qK (try_ m). Proof. apply (qu_try sameK). Qed.
Lemma qK_same (w w' : world) : w_caches w' = w_caches w -> w_now w' = w_now w -> w_kobjs w' = w_kobjs w -> sameK w w'.
Proof. intros E1 E2 E3. repeat split; try assumption. intros k o H. exists o. rewrite E3. split; [exact H | split; reflexivity]. Qed.
Lemma qK_emit e : qK (emit e). Proof. intro w. apply qK_same; reflexivity. Qed.
Lemma qK_next_call : qK next_call. Proof. intro w. apply qK_same; reflexivity. Qed.
Lemma qK_bump_nonce : qK bump_nonce. Proof. intro w. apply qK_same; reflexivity. Qed.
Lemma qK_secret_alloc m : qK (secret_alloc m). Proof. intro w. apply qK_same; reflexivity. Qed.
Lemma qK_secret_mark_closed sid : qK (secret_mark_closed sid).
Proof. intro w. unfold secret_mark_closed. destruct (nth_error (w_secrets w) sid); apply qK_same; reflexivity. Qed.
Lemma qK_kobj_alloc o : qK (kobj_alloc o).
Proof.
  intro w. repeat split. intros k o0 H. exists o0. split; [|split; reflexivity]. cbn. rewrite nth_error_app1; [exact H|].
  apply nth_error_Some. rewrite H. discriminate.
Qed.
Lemma qK_kobj_modify k g : (forall o, ko_revoked (g o) = ko_revoked o /\ ko_created (g o) = ko_created o) -> qK (kobj_modify k g).
Proof.
  intros Hg w. unfold kobj_modify. destruct (nth_error (w_kobjs w) k) as [o|] eqn:E; [|apply sameK_refl].
  repeat split. intros k0 o0 H. cbn. destruct (Nat.eq_dec k k0) as [->|N].
  - exists (g o0). rewrite E in H. inversion H; subst. split; [eapply nth_error_set_nth_same; exact E | apply Hg].
  - exists o0. split; [rewrite nth_error_set_nth_other by exact N; exact H | split; reflexivity].
Qed.
Global Hint Resolve qK_emit qK_next_call qK_bump_nonce qK_secret_alloc qK_secret_mark_closed qK_kobj_alloc : qK.

Ltac qK_step :=
  first
    [ solve [auto with qK]
    | apply qK_ret | apply qK_fail | apply qK_gets
    | apply qK_kobj_modify; intros []; split; reflexivity
    | apply qK_bind; [|intro]
    | apply qK_finally
    | apply qK_try
    | match goal with
      | |- qK (match ?x with _ => _ end) => destruct x
      | |- qK (let '(_, _) := ?x in _) => destruct x
      | |- qK (if ?x then _ else _) => destruct x
      end ].
Ltac qK_go := repeat qK_step.

Lemma qK_get_now : qK get_now. Proof. apply qK_gets. Qed.
Lemma qK_get_secrets : qK get_secrets. Proof. apply qK_gets. Qed.
Lemma qK_get_kobjs : qK get_kobjs. Proof. apply qK_gets. Qed.
Lemma qK_secret_count : qK secret_count. Proof. apply qK_gets. Qed.
Global Hint Resolve qK_get_now qK_get_secrets qK_get_kobjs qK_secret_count : qK.
Lemma qK_aead_decrypt c k : qK (aead_decrypt c k). Proof. unfold aead_decrypt. qK_go. Qed.
Lemma qK_secret_close sid : qK (secret_close sid). Proof. unfold secret_close. qK_go. Qed.
Lemma qK_secret_bytes sid : qK (secret_bytes sid). Proof. unfold secret_bytes. qK_go. Qed.
Lemma qK_kobj_get k : qK (kobj_get k). Proof. unfold kobj_get. qK_go. Qed.
Global Hint Resolve qK_aead_decrypt qK_secret_close qK_secret_bytes qK_kobj_get : qK.
Lemma qK_ck_close k : qK (ck_close k). Proof. unfold ck_close. qK_go. Qed.
Global Hint Resolve qK_ck_close : qK.
Lemma qK_cck_close k : qK (cck_close k). Proof. unfold cck_close. qK_go. Qed.
Lemma qK_cck_increment k : qK (cck_increment k). Proof. unfold cck_increment. qK_go. Qed.
Lemma qK_cck_wrap k : qK (cck_wrap k). Proof. unfold cck_wrap. qK_go. Qed.
Global Hint Resolve qK_cck_close qK_cck_increment qK_cck_wrap : qK.
Lemma qK_key_bytes k : qK (key_bytes k). Proof. unfold key_bytes. qK_go. Qed.
Global Hint Resolve qK_key_bytes : qK.
Lemma qK_decrypt_row ik key data : qK (decrypt_row ik key data). Proof. unfold decrypt_row. qK_go. Qed.
Lemma qK_closes l : qK (closes l). Proof. unfold closes. induction l as [|x l IH]; cbn [fold_right]; qK_go. Qed.

(* closed forms of the cache's read path *)
Lemma kc_read_eq cid meta w :
  kc_read cid meta w =
  match nth_error (w_caches w) cid with
  | None => (inl ErrPanic, w)
  | Some kc =>
      let id := if is_latest meta
                then match assoc_get (cache_key (km_id meta) 0) (kc_latest kc) with
                     | Some l => cache_key (km_id l) (km_created l)
                     | None => cache_key (km_id meta) (km_created meta)
                     end
                else cache_key (km_id meta) (km_created meta) in
      let br := backing_get (kc_backing kc) (w_now w) id in
      (inr (snd br), with_caches (set_nth cid {| kc_backing := fst br; kc_latest := kc_latest kc |} (w_caches w)) w)
  end.
Proof.
  unfold kc_read, get_cache, bind, get_now, gets, ret, fail. destruct (nth_error (w_caches w) cid) as [kc|]; [|reflexivity].
  cbn zeta. cbv beta iota. destruct (backing_get _ _ _) as [b' r]. reflexivity.
Qed.

Lemma reload_required_eq e rci w :
  reload_required e rci w =
  match nth_error (w_kobjs w) (ce_key e) with
  | None => (inl ErrPanic, w)
  | Some o => (inr (if ko_revoked o then false else ce_loaded e + rci <? w_now w), w)
  end.
Proof.
  unfold reload_required, kobj_get, get_kobjs, get_now, bind, gets, ret, fail. destruct (nth_error (w_kobjs w) (ce_key e)); reflexivity.
Qed.

Section Simple.
Variables (cid : nat) (rci : Z) (pm : keymeta).
Hypothesis Hnz : km_created pm <> 0.
Hypothesis Hrci : 0 <= rci.
Let id := cache_key (km_id pm) (km_created pm).

Lemma not_latest : is_latest pm = false.
Proof. unfold is_latest. apply Z.eqb_neq. exact Hnz. Qed.

(* the simple cache of this id holds an entry for pm's key that the cache itself calls fresh *)
Definition Fr (k : nat) (w : world) : Prop :=
  forall kc m, nth_error (w_caches w) cid = Some kc -> kc_backing kc = BSimple m ->
    exists e o, assoc_get id m = Some e /\ ce_key e = k /\ nth_error (w_kobjs w) k = Some o /\
                (ko_revoked o = true \/ w_now w <= ce_loaded e + rci).

(* the same, by the clock alone: loaded at most one interval ago (whatever the revoked flag says) *)
Definition FrT (k : nat) (w : world) : Prop :=
  forall kc m, nth_error (w_caches w) cid = Some kc -> kc_backing kc = BSimple m ->
    exists e o, assoc_get id m = Some e /\ ce_key e = k /\ nth_error (w_kobjs w) k = Some o /\ w_now w <= ce_loaded e + rci.
Lemma FrT_Fr k w : FrT k w -> Fr k w.
Proof. intros H kc m Hc Hb. destruct (H kc m Hc Hb) as [e [o [A [B [C D]]]]]. exists e, o. repeat split; try assumption. right. exact D. Qed.

Lemma Fr_sameK k w w' : sameK w w' -> Fr k w -> Fr k w'.
Proof.
  intros [E1 [E2 E3]] H kc m Hc Hb. rewrite E1 in Hc. destruct (H kc m Hc Hb) as [e [o [A [B [C D]]]]].
  destruct (E3 k o C) as [o' [C' [R _]]]. exists e, o'. repeat split; try assumption. rewrite R, E2. exact D.
Qed.

(* Fr is exactly what makes getFresh answer "fresh" *)
Lemma Fr_fresh k w kc m :
  nth_error (w_caches w) cid = Some kc -> kc_backing kc = BSimple m -> Fr k w ->
  exists w1, kc_get_fresh cid rci pm w = (inr (Some (k, true)), w1).
Proof.
  intros Hc Hb H. destruct (H kc m Hc Hb) as [e [o [A [B [C D]]]]].
  unfold kc_get_fresh. unfold bind at 1. rewrite kc_read_eq, Hc, not_latest. cbn zeta. rewrite Hb. cbn [backing_get fst snd]. fold id. rewrite A.
  unfold bind. rewrite reload_required_eq. cbn [w_kobjs with_caches]. rewrite B, C. cbn [ret].
  eexists. f_equal. f_equal. f_equal. f_equal.
  destruct D as [D|D]; [rewrite D; reflexivity|]. destruct (ko_revoked o); [reflexivity|].
  cbn [w_now with_caches]. destruct (ce_loaded e + rci <? w_now w) eqn:L; [apply Z.ltb_lt in L; lia | reflexivity].
Qed.

(* a "fresh" answer leaves Fr behind *)
Lemma fresh_Fr k w w1 : kc_get_fresh cid rci pm w = (inr (Some (k, true)), w1) -> Fr k w1.
Proof.
  unfold kc_get_fresh. unfold bind at 1. rewrite kc_read_eq. destruct (nth_error (w_caches w) cid) as [kc|] eqn:Hc; [|discriminate].
  rewrite not_latest. cbn zeta. fold id. destruct (backing_get (kc_backing kc) (w_now w) id) as [b' r] eqn:Hb. cbn [fst snd].
  destruct r as [e|]; [|discriminate]. unfold bind. rewrite reload_required_eq. cbn [w_kobjs with_caches].
  destruct (nth_error (w_kobjs w) (ce_key e)) as [o|] eqn:Ho; [|discriminate]. cbn [ret]. intro H. injection H as Ek En Ew. subst w1.
  intros kc1 m Hk1 Hk2. cbn [w_caches with_caches] in Hk1. rewrite (nth_error_set_nth_same _ _ _ _ Hc) in Hk1. injection Hk1 as Hk1. subst kc1.
  cbn [kc_backing] in Hk2. subst b'. destruct (kc_backing kc) as [m0|c0] eqn:Hk.
  - cbn [backing_get] in Hb. injection Hb as Hb1 Hb2. subst m0. exists e, o. cbn [w_kobjs w_now with_caches]. rewrite <- Ek. split; [exact Hb2|]. split; [reflexivity|]. split; [exact Ho|].
    destruct (ko_revoked o); [left; reflexivity|]. right.
    destruct (ce_loaded e + rci <? w_now w) eqn:L; [discriminate En | apply Z.ltb_ge in L; exact L].
  - cbn [backing_get] in Hb. destruct (Generic.step str_eqb c0 (w_now w) [] (Generic.OGet id)) as [[c' rr] ev]; destruct rr; discriminate Hb.
Qed.
End Simple.

Lemma kobj_get_inv k w o w0 : kobj_get k w = (inr o, w0) -> w0 = w /\ nth_error (w_kobjs w) k = Some o.
Proof.
  unfold kobj_get, get_kobjs, bind, gets, ret, fail. destruct (nth_error (w_kobjs w) k) as [o'|]; intro H; [|discriminate H].
  injection H as E1 E2. subst. split; reflexivity.
Qed.
Lemma get_cache_inv cid w kc w0 : get_cache cid w = (inr kc, w0) -> w0 = w /\ nth_error (w_caches w) cid = Some kc.
Proof.
  unfold get_cache, bind, gets, ret, fail. destruct (nth_error (w_caches w) cid) as [c|]; intro H; [|discriminate H].
  injection H as E1 E2. subst. split; reflexivity.
Qed.
Lemma get_now_inv w n w0 : get_now w = (inr n, w0) -> w0 = w /\ n = w_now w.
Proof. unfold get_now, gets. intro H. injection H as E1 E2. subst. split; reflexivity. Qed.

Section Simple2.
Variables (cid : nat) (rci : Z) (pm : keymeta).
Hypothesis Hnz : km_created pm <> 0.
Hypothesis Hrci : 0 <= rci.
Let id := cache_key (km_id pm) (km_created pm).

(* write: the entry is in the (simple) map afterwards *)
Lemma kc_write_post e w w' :
  kc_write cid pm e w = (inr tt, w') ->
  w_now w' = w_now w /\ (exists o, nth_error (w_kobjs w') (ce_key e) = Some o) /\
  forall kc m, nth_error (w_caches w') cid = Some kc -> kc_backing kc = BSimple m -> assoc_get id m = Some e.
Proof.
  unfold kc_write. intro H.
  apply bind_ok in H as [o [w0 [G H]]]. apply kobj_get_inv in G as [-> Ho].
  apply bind_ok in H as [kc0 [w0 [G H]]]. apply get_cache_inv in G as [-> Hc].
  rewrite (not_latest pm Hnz) in H.
  set (akey := cache_key (km_id pm) 0) in H.
  assert (exists latest',
            (let '(meta', latest') :=
               match assoc_get akey (kc_latest kc0) with
               | Some l => if km_created l <? ko_created o then (pm, assoc_set akey pm (kc_latest kc0)) else (pm, kc_latest kc0)
               | None => (pm, assoc_set akey pm (kc_latest kc0))
               end in (meta', latest')) = (pm, latest')) as [latest' EL].
  { destruct (assoc_get akey (kc_latest kc0)) as [l|]; [destruct (km_created l <? ko_created o)|]; eexists; reflexivity. }
  destruct (match assoc_get akey (kc_latest kc0) with
            | Some l => if km_created l <? ko_created o then (pm, assoc_set akey pm (kc_latest kc0)) else (pm, kc_latest kc0)
            | None => (pm, assoc_set akey pm (kc_latest kc0))
            end) as [meta' lat] eqn:EM.
  injection EL as E1 E2. subst meta' lat. fold id in H.
  apply bind_ok in H as [now [w0 [G H]]]. apply get_now_inv in G as [-> ->].
  destruct (backing_get (kc_backing kc0) (w_now w) id) as [b1 existing] eqn:EB.
  apply bind_ok in H as [u [w2 [G H]]].
  assert (sameK w w2) as K2.
  { assert (qK (match existing with
                | Some ex => if Nat.eqb (ce_key ex) (ce_key e) then ret tt else cck_close (ce_key ex)
                | None => ret tt end)) as Q by qK_go.
    specialize (Q w). rewrite G in Q. exact Q. }
  destruct (backing_set b1 (w_now w) id e) as [b2 evicted] eqn:ES.
  apply bind_ok in H as [u2 [w3 [G2 H]]]. unfold put_cache, upd in G2. injection G2 as _ G2. subst w3.
  pose proof (qK_closes evicted (with_caches (set_nth cid {| kc_backing := b2; kc_latest := latest' |} (w_caches w2)) w2)) as K3.
  rewrite H in K3. cbn [snd] in K3. destruct K3 as [C3 [N3 O3]]. destruct K2 as [C2 [N2 O2]].
  cbn [w_caches w_now w_kobjs with_caches] in *.
  split; [congruence|]. split.
  - destruct (O2 _ _ Ho) as [o2 [Ho2 _]]. destruct (O3 _ _ Ho2) as [o3 [Ho3 _]]. exists o3. exact Ho3.
  - intros kc m Hk Hb. rewrite C3, C2 in Hk. rewrite (nth_error_set_nth_same _ _ _ _ Hc) in Hk. injection Hk as Hk. subst kc. cbn [kc_backing] in Hb. subst b2.
    destruct (kc_backing kc0) as [m0|c0].
    + cbn [backing_get] in EB. injection EB as EB1 EB2. subst b1. cbn [backing_set] in ES. injection ES as ES1 ES2. subst m.
      rewrite assoc_get_set, str_eqb_refl. reflexivity.
    + cbn [backing_get] in EB. destruct (Generic.step str_eqb c0 (w_now w) [] (Generic.OGet id)) as [[c' rr] ev].
      assert (exists c1, b1 = BCache c1) as [c1 ->] by (destruct rr; injection EB as EB1 EB2; eexists; symmetry; exact EB1).
      cbn [backing_set] in ES. destruct (Generic.step str_eqb c1 (w_now w) [] (Generic.OSet id e)) as [[c2 r2] ev2]. discriminate ES.
Qed.
End Simple2.

(* the clock is nobody's to move *)
Definition sameT (w w' : world) : Prop := w_now w' = w_now w.
Lemma sameT_refl w : sameT w w. Proof. reflexivity. Qed.
Lemma sameT_trans a b c : sameT a b -> sameT b c -> sameT a c. Proof. unfold sameT. congruence. Qed.
Definition qT {A} (m : M A) : Prop := qu sameT m.
Lemma qT_ret {A} (a : A) : qT (ret a). Proof. apply (qu_ret sameT sameT_refl). Qed.
Lemma qT_fail {A} e : qT (@fail A e). Proof. apply (qu_fail sameT sameT_refl). Qed.
Lemma qT_gets {A} (f : world -> A) : qT (gets f). Proof. apply (qu_gets sameT sameT_refl). Qed.
Lemma qT_bind {A B} (m : M A) (f : A -> M B) : qT m -> (forall a, qT (f a)) -> qT (bind m f). Proof. apply (qu_bind sameT sameT_trans). Qed.
Lemma qT_emit e : qT (emit e). Proof. intro w. reflexivity. Qed.
Lemma qT_secret_mark_closed sid : qT (secret_mark_closed sid).
Proof. intro w. unfold secret_mark_closed. destruct (nth_error (w_secrets w) sid); reflexivity. Qed.
Lemma qT_kobj_modify k g : qT (kobj_modify k g).
Proof. intro w. unfold kobj_modify. destruct (nth_error (w_kobjs w) k); reflexivity. Qed.
Global Hint Resolve qT_emit qT_secret_mark_closed qT_kobj_modify : qT.
Ltac qT_step :=
  first
    [ solve [auto with qT]
    | apply qT_ret | apply qT_fail | apply qT_gets
    | apply qT_bind; [|intro]
    | match goal with
      | |- qT (match ?x with _ => _ end) => destruct x
      | |- qT (if ?x then _ else _) => destruct x
      end ].
Ltac qT_go := repeat qT_step.
Lemma qT_secret_close sid : qT (secret_close sid). Proof. unfold secret_close. qT_go. Qed.
Global Hint Resolve qT_secret_close : qT.
Lemma qT_ck_close k : qT (ck_close k). Proof. unfold ck_close. qT_go. Qed.
Lemma qT_ck_set_revoked k b : qT (ck_set_revoked k b). Proof. unfold ck_set_revoked. qT_go. Qed.
Lemma qT_cck_wrap k : qT (cck_wrap k). Proof. unfold cck_wrap. qT_go. Qed.
Lemma qT_kobj_get k : qT (kobj_get k). Proof. unfold kobj_get, get_kobjs. qT_go. Qed.
Global Hint Resolve qT_ck_close qT_ck_set_revoked qT_cck_wrap qT_kobj_get : qT.

Lemma qu_at {A} (R : world -> world -> Prop) (m : M A) w r w' : qu R m -> m w = (r, w') -> R w w'.
Proof. intros Q E. specialize (Q w). rewrite E in Q. exact Q. Qed.

Section Simple3.
Variables (cid : nat) (rci : Z) (pm : keymeta).
Hypothesis Hnz : km_created pm <> 0.
Hypothesis Hrci : 0 <= rci.

(* load: whatever the loader did, the key it handed back sits in the (simple) map, loaded now *)
Lemma kc_load_post_T loader w k w' : kc_load cid pm loader w = (inr k, w') -> FrT cid rci pm k w'.
Proof.
  unfold kc_load. intro H.
  apply bind_ok in H as [k0 [wa [_ H]]].
  apply bind_ok in H as [ko [w0 [G H]]]. apply kobj_get_inv in G as [-> Hko].
  apply bind_ok in H as [r [wr [G H]]].
  assert (w_now wr = w_now wa) as Nr.
  { rewrite kc_read_eq in G. destruct (nth_error (w_caches wa) cid); [|discriminate G]. injection G as _ G. subst wr. reflexivity. }
  apply bind_ok in H as [now [w0 [G1 H]]]. apply get_now_inv in G1 as [-> ->].
  apply bind_ok in H as [same [ws [G2 H]]].
  assert (w_now ws = w_now wr) as Ns.
  { assert (qT (match r with
                | Some e => eo <- kobj_get (ce_key e) ;; ret (ko_created eo =? ko_created ko)
                | None => ret false end)) as Q by qT_go.
    exact (qu_at sameT _ _ _ _ Q G2). }
  assert (forall (pre : M unit) kk, qT pre ->
            (pre ;;; kc_write cid pm {| ce_loaded := w_now wr; ce_key := kk |} ;;; ret kk) ws = (inr k, w') -> FrT cid rci pm k w') as Main.
  { intros pre kk Qp HH. apply bind_ok in HH as [u [wp [Gp HH]]]. pose proof (qu_at sameT _ _ _ _ Qp Gp) as Np. unfold sameT in Np.
    apply bind_ok in HH as [u2 [ww [Gw HH]]]. unfold ret in HH. injection HH as E1 E2. subst kk ww.
    destruct u2. destruct (kc_write_post cid pm Hnz _ _ _ Gw) as [Nw [[o Ho] Hm]]. cbn [ce_key] in Ho.
    intros kc m Hc Hb. exists {| ce_loaded := w_now wr; ce_key := k |}, o. split; [exact (Hm kc m Hc Hb)|]. split; [reflexivity|]. split; [exact Ho|].
    cbn [ce_loaded]. lia. }
  destruct r as [e|]; [destruct same|].
  - apply (Main (ck_set_revoked (ce_key e) (ko_revoked ko) ;;; ck_close k0) (ce_key e)); [qT_go|].
    revert H. unfold bind. destruct (ck_set_revoked (ce_key e) (ko_revoked ko) ws) as [[er|u] wx]; [intro; assumption|]. intro H. exact H.
  - apply (Main (cck_wrap k0) k0); [qT_go | exact H].
  - apply (Main (cck_wrap k0) k0); [qT_go | exact H].
Qed.
Lemma kc_load_post loader w k w' : kc_load cid pm loader w = (inr k, w') -> Fr cid rci pm k w'.
Proof. intro H. apply FrT_Fr. eapply kc_load_post_T. exact H. Qed.
End Simple3.

Section Simple4.
Variables (cid : nat) (rci : Z) (pm : keymeta).
Hypothesis Hnz : km_created pm <> 0.
Hypothesis Hrci : 0 <= rci.

Lemma incr_ret k1 w1 k w' : (cck_increment k1 ;;; ret k1) w1 = (inr k, w') -> k = k1 /\ sameK w1 w'.
Proof.
  intro H. assert (qK (cck_increment k1 ;;; ret k1)) as Q by (apply qK_bind; [apply qK_cck_increment | intro; apply qK_ret]).
  split; [|exact (qu_at sameK _ _ _ _ Q H)].
  apply bind_ok in H as [u [w2 [_ H]]]. unfold ret in H. injection H as E _. symmetry. exact E.
Qed.

(* GetOrLoad that succeeded leaves its key fresh in the (simple) cache - whichever of its three paths it took *)
Lemma get_or_load_post loader w k w' : get_or_load (Some cid) rci pm loader w = (inr k, w') -> Fr cid rci pm k w'.
Proof.
  unfold get_or_load. intro H. apply bind_ok in H as [f1 [w1 [G1 H]]].
  assert (forall k1 wx, kc_get_fresh cid rci pm wx = (inr (Some (k1, true)), w1) -> (cck_increment k1 ;;; ret k1) w1 = (inr k, w') -> Fr cid rci pm k w') as Hit.
  { intros k1 wx Gx Hx. apply incr_ret in Hx as [-> K]. eapply Fr_sameK; [exact K|]. eapply fresh_Fr; [exact Hnz | exact Gx]. }
  assert (forall wx, (f2 <- kc_get_fresh cid rci pm ;;
                      match f2 with
                      | Some (k2, true) => cck_increment k2 ;;; ret k2
                      | _ => k2 <- kc_load cid pm loader ;; cck_increment k2 ;;; ret k2
                      end) wx = (inr k, w') -> Fr cid rci pm k w') as Second.
  { intros wx HH. apply bind_ok in HH as [f2 [w2 [G2 HH]]].
    assert ((k2 <- kc_load cid pm loader ;; cck_increment k2 ;;; ret k2) w2 = (inr k, w') -> Fr cid rci pm k w') as Load.
    { intro HL. apply bind_ok in HL as [k2 [w3 [GL HL]]]. apply incr_ret in HL as [-> K]. eapply Fr_sameK; [exact K|].
      eapply kc_load_post; [exact Hnz | exact Hrci | exact GL]. }
    destruct f2 as [[k2 [|]]|]; [|exact (Load HH)|exact (Load HH)].
    apply incr_ret in HH as [-> K]. eapply Fr_sameK; [exact K|]. eapply fresh_Fr; [exact Hnz | exact G2]. }
  destruct f1 as [[k1 [|]]|]; [exact (Hit k1 w G1 H) | exact (Second w1 H) | exact (Second w1 H)].
Qed.
End Simple4.

(* ---- the session-level statements ------------------------------------------------------------------------------------------ *)

(* a Decrypt that succeeded leaves the record's intermediate key fresh in the session's (simple) key cache *)
Theorem decrypt_leaves_its_key_fresh e r key pm cid p w w' :
  en_ik e = Some cid -> d_key r = Some key -> e_parent key = Some pm -> km_created pm <> 0 -> 0 <= p_rci (en_pol e) ->
  decrypt_data_row_record e r w = (inr p, w') ->
  exists k, Fr cid (p_rci (en_pol e)) pm k w'.
Proof.
  intros Hc Hk Hp Hnz Hrci. unfold decrypt_data_row_record. rewrite Hk, Hp.
  destruct (negb (is_valid_ik_id (en_part e) (km_id pm))); [intro H; discriminate H|]. rewrite Hc. intro H.
  apply bind_ok in H as [ik [wa [G H]]]. apply finally_ok in H as [w1 [D ->]].
  exists ik. eapply Fr_sameK; [exact (qK_cck_close ik w1)|]. eapply Fr_sameK; [exact (qu_at sameK _ _ _ _ (qK_decrypt_row _ _ _) D)|].
  eapply get_or_load_post; [exact Hnz | exact Hrci | exact G].
Qed.

(* "repeating a decrypt that already succeeded on a session performs no metastore and no KMS calls": with the default (simple) key
   cache, for every world in which the first Decrypt succeeded, the same Decrypt run again right away leaves the key table and the
   metastore/KMS part of the trace exactly as they were.  (How long the entry stays fresh is C20_fresh_means: one interval from its load.) *)
Theorem repeated_decrypt_makes_no_external_call e r key pm cid p w w' kc m :
  en_ik e = Some cid -> d_key r = Some key -> e_parent key = Some pm -> km_created pm <> 0 -> 0 <= p_rci (en_pol e) ->
  decrypt_data_row_record e r w = (inr p, w') ->
  nth_error (w_caches w') cid = Some kc -> kc_backing kc = BSimple m ->
  let w'' := snd (decrypt_data_row_record e r w') in
  w_store w'' = w_store w' /\ ext (w_trace w'') = ext (w_trace w').
Proof.
  intros Hc Hk Hp Hnz Hrci H Hkc Hb.
  destruct (decrypt_leaves_its_key_fresh e r key pm cid p w w' Hc Hk Hp Hnz Hrci H) as [k F].
  destruct (Fr_fresh cid (p_rci (en_pol e)) pm Hnz k w' kc m Hkc Hb F) as [w1 G].
  exact (decrypt_with_fresh_key_makes_no_external_call e r key pm cid w' k w1 Hc Hk Hp G).
Qed.

(* ---- the premises are met in a reachable world ------------------------------------------------------------------------------ *)
From Asherah Require Envelope.Rotation.

(* a writer factory encrypts; a second, cold factory (default simple caches) opens the partition and decrypts twice *)
Definition rep_ops : list hop :=
  [HNewFactory Rotation.pol100 (s "svc") (s "prod") None; HGetSession 0 (s "p"); HEncrypt 0 5 [];
   HNewFactory Rotation.pol100 (s "svc") (s "prod") None; HGetSession 1 (s "p")].

Definition rep_check : bool :=
  let h := snd (hrun (hinit Rotation.t0) rep_ops) in
  let w := begin_op [] (h_world h) in
  match session_env 1 w, nth_error (h_recs h) 0 with
  | (inr e, _), Some r =>
      match en_ik e, d_key r with
      | Some cid, Some key =>
          match e_parent key with
          | Some pm =>
              negb (km_created pm =? 0) && (0 <=? p_rci (en_pol e)) &&
              match decrypt_data_row_record e r w with
              | (inr p, w') =>
                  (* the first, cold Decrypt did go to the metastore and the KMS ... *)
                  (Nat.ltb (length (ext (w_trace w))) (length (ext (w_trace w')))) &&
                  match nth_error (w_caches w') cid with
                  | Some kc => match kc_backing kc with BSimple _ => true | BCache _ => false end
                  | None => false
                  end &&
                  (* ... the second returns the same payload *)
                  match decrypt_data_row_record e r w' with
                  | (inr p2, w'') => Nat.eqb (length (ext (w_trace w''))) (length (ext (w_trace w')))
                  | _ => false
                  end
              | _ => false
              end
          | None => false
          end
      | _, _ => false
      end
  | _, _ => false
  end.

Example repeated_decrypt_premises_met : rep_check = true.
Proof. vm_compute. reflexivity. Qed.
