(* C04, clause 1, over all histories: a record returned by an UNFAULTED Encrypt names an intermediate key that is not expired at
   the time of the operation (policy sanity: ExpireKeyAfter >= CreateDatePrecision + 1 s). *)
From Asherah Require Import Envelope.Session Envelope.Frame Envelope.FrameInst Envelope.Hoare Envelope.Coherent Envelope.Local Envelope.LiveD.
From Coq Require Import Lia.
Open Scope Z_scope.

(* rows carry their own creation stamp: preserved by everything, because the only writers store matching records *)
Definition RC (st : list row) : Prop := forall i c r, store_find i c st = Some r -> e_created r = c.
Definition sameR (w w' : world) : Prop := RC (w_store w) -> RC (w_store w').
Lemma sameR_refl w : sameR w w. Proof. intro H. exact H. Qed.
Lemma sameR_trans a b c : sameR a b -> sameR b c -> sameR a c. Proof. unfold sameR. tauto. Qed.
Definition qR {A} (m : M A) : Prop := qu sameR m.
Lemma qR_ret {A} (a : A) : qR (ret a). Proof. apply (qu_ret sameR sameR_refl). Qed.
Lemma qR_fail {A} e : qR (@fail A e). Proof. apply (qu_fail sameR sameR_refl). Qed.
Lemma qR_gets {A} (f : world -> A) : qR (gets f). Proof. apply (qu_gets sameR sameR_refl). Qed.
Lemma qR_bind {A B} (m : M A) (f : A -> M B) : qR m -> (forall a, qR (f a)) -> qR (bind m f). Proof. apply (qu_bind sameR sameR_trans). Qed.
Lemma qR_finally {A} (m : M A) (c : M unit) : qR m -> qR c -> qR (finally m c). Proof. apply (qu_finally sameR sameR_trans). Qed.
Lemma qR_try {A} (m : M A) : qR m -> qR (try_ m). Proof. apply (qu_try sameR). Qed.
Lemma qR_emit e : qR (emit e). Proof. intro w. intro H. exact H. Qed.
Lemma qR_next_call : qR next_call. Proof. intro w. intro H. exact H. Qed.
Lemma qR_bump_nonce : qR bump_nonce. Proof. intro w. intro H. exact H. Qed.
Lemma store_find_app_RC id c st i' c' r' r0 :
  store_find id c (st ++ [(i', c', r')]) = Some r0 -> store_find id c st = Some r0 \/ (c' = c /\ r0 = r').
Proof.
  induction st as [|[[i k] r] st IH]; cbn [store_find app].
  - destruct (str_eqb i' id && (c' =? c)) eqn:E; [|discriminate]. intro H. inversion H; subst. right. apply andb_prop in E as [_ E]. apply Z.eqb_eq in E. split; [exact E | reflexivity].
  - destruct (str_eqb i id && (k =? c)); [intro H; left; exact H | exact IH].
Qed.
Lemma qR_store_insert id c r : e_created r = c -> qR (store_insert id c r).
Proof.
  intros Ec w. unfold store_insert. destruct (store_find id c (w_store w)); [intro H; exact H|]. cbn [snd]. intros H i k r0 Hf. cbn in Hf.
  apply store_find_app_RC in Hf as [Hf|[E1 E2]]; [exact (H i k r0 Hf) | rewrite E2, <- E1; exact Ec].
Qed.
Lemma qR_secret_alloc m : qR (secret_alloc m). Proof. intro w. intro H. exact H. Qed.
Lemma qR_secret_mark_closed sid : qR (secret_mark_closed sid). Proof. intro w. unfold secret_mark_closed. destruct (nth_error (w_secrets w) sid); intro H; exact H. Qed.
Lemma qR_kobj_alloc o : qR (kobj_alloc o). Proof. intro w. intro H. exact H. Qed.
Lemma qR_kobj_modify k g : qR (kobj_modify k g). Proof. intro w. unfold kobj_modify. destruct (nth_error (w_kobjs w) k); intro H; exact H. Qed.
Lemma qR_put_cache cid c : qR (put_cache cid c). Proof. intro w. intro H. exact H. Qed.
Lemma qR_put_session s x : qR (put_session s x). Proof. intro w. intro H. exact H. Qed.
Global Hint Resolve qR_emit qR_next_call qR_bump_nonce qR_secret_alloc qR_secret_mark_closed qR_kobj_alloc qR_kobj_modify qR_put_cache qR_put_session : qR.

Ltac qR_step :=
  first
    [ solve [auto with qR]
    | apply qR_ret | apply qR_fail | apply qR_gets
    | apply qR_bind; [|intro]
    | apply qR_finally
    | apply qR_try
    | match goal with
      | |- qR (match ?x with _ => _ end) => destruct x
      | |- qR (let '(_, _) := ?x in _) => destruct x
      | |- qR (if ?x then _ else _) => destruct x
      end ].
Ltac qR_go := repeat qR_step.

Lemma qR_get_now : qR get_now. Proof. apply qR_gets. Qed.
Lemma qR_get_store : qR get_store. Proof. apply qR_gets. Qed.
Lemma qR_get_secrets : qR get_secrets. Proof. apply qR_gets. Qed.
Lemma qR_get_kobjs : qR get_kobjs. Proof. apply qR_gets. Qed.
Lemma qR_secret_count : qR secret_count. Proof. apply qR_gets. Qed.
Global Hint Resolve qR_get_now qR_get_store qR_get_secrets qR_get_kobjs qR_secret_count : qR.
Lemma qR_m_load id c : qR (m_load id c). Proof. unfold m_load. qR_go. Qed.
Lemma qR_m_load_latest id : qR (m_load_latest id). Proof. unfold m_load_latest. qR_go. Qed.
Lemma qR_m_store id c r : e_created r = c -> qR (m_store id c r).
Proof. intro Ec. pose proof (qR_store_insert id c r Ec). unfold m_store. qR_go. Qed.
Lemma qR_kms_encrypt p : qR (kms_encrypt p). Proof. unfold kms_encrypt. qR_go. Qed.
Lemma qR_kms_decrypt c : qR (kms_decrypt c). Proof. unfold kms_decrypt. qR_go. Qed.
Lemma qR_aead_encrypt p k : qR (aead_encrypt p k). Proof. unfold aead_encrypt. qR_go. Qed.
Lemma qR_aead_decrypt c k : qR (aead_decrypt c k). Proof. unfold aead_decrypt. qR_go. Qed.
Lemma qR_secret_new m : qR (secret_new m). Proof. unfold secret_new. qR_go. Qed.
Lemma qR_secret_random : qR secret_random. Proof. unfold secret_random. qR_go. Qed.
Lemma qR_secret_close sid : qR (secret_close sid). Proof. unfold secret_close. qR_go. Qed.
Lemma qR_secret_bytes sid : qR (secret_bytes sid). Proof. unfold secret_bytes. qR_go. Qed.
Lemma qR_kobj_get k : qR (kobj_get k). Proof. unfold kobj_get. qR_go. Qed.
Global Hint Resolve qR_m_load qR_m_load_latest qR_kms_encrypt qR_kms_decrypt qR_aead_encrypt qR_aead_decrypt qR_secret_new
  qR_secret_random qR_secret_close qR_secret_bytes qR_kobj_get : qR.
Lemma qR_ck_close k : qR (ck_close k). Proof. unfold ck_close. qR_go. Qed.
Global Hint Resolve qR_ck_close : qR.
Lemma qR_cck_close k : qR (cck_close k). Proof. unfold cck_close. qR_go. Qed.
Lemma qR_cck_increment k : qR (cck_increment k). Proof. unfold cck_increment. qR_go. Qed.
Lemma qR_ck_set_revoked k b : qR (ck_set_revoked k b). Proof. unfold ck_set_revoked. qR_go. Qed.
Lemma qR_cck_wrap k : qR (cck_wrap k). Proof. unfold cck_wrap. qR_go. Qed.
Global Hint Resolve qR_cck_close qR_cck_increment qR_ck_set_revoked qR_cck_wrap : qR.
Lemma qR_key_bytes k : qR (key_bytes k). Proof. unfold key_bytes. qR_go. Qed.
Lemma qR_new_crypto_key c r m : qR (new_crypto_key c r m). Proof. unfold new_crypto_key. qR_go. Qed.
Lemma qR_generate_key c : qR (generate_key c). Proof. unfold generate_key. qR_go. Qed.
Lemma qR_get_cache cid : qR (get_cache cid). Proof. unfold get_cache. qR_go. Qed.
Global Hint Resolve qR_key_bytes qR_new_crypto_key qR_generate_key qR_get_cache : qR.
Lemma qR_kc_read cid m : qR (kc_read cid m). Proof. unfold kc_read. qR_go. Qed.
Lemma qR_reload_required e rci : qR (reload_required e rci). Proof. unfold reload_required. qR_go. Qed.
Global Hint Resolve qR_kc_read qR_reload_required : qR.
Lemma qR_kc_get_fresh cid rci m : qR (kc_get_fresh cid rci m). Proof. unfold kc_get_fresh. qR_go. Qed.
Lemma qR_closes l : qR (closes l). Proof. unfold closes. induction l as [|x l IH]; cbn [fold_right]; qR_go. Qed.
Global Hint Resolve qR_kc_get_fresh qR_closes : qR.
Lemma qR_kc_write cid m e : qR (kc_write cid m e). Proof. unfold kc_write. qR_go. Qed.
Global Hint Resolve qR_kc_write : qR.
Lemma qR_kc_load cid m loader : (forall x, qR (loader x)) -> qR (kc_load cid m loader). Proof. intro H. unfold kc_load. qR_go. Qed.
Lemma qR_is_key_invalid k e : qR (is_key_invalid k e). Proof. unfold is_key_invalid. qR_go. Qed.
Global Hint Resolve qR_is_key_invalid : qR.
Lemma qR_get_or_load c rci m loader : (forall x, qR (loader x)) -> qR (get_or_load c rci m loader).
Proof. intro H. unfold get_or_load. qR_go; apply qR_kc_load; exact H. Qed.
Lemma qR_get_or_load_latest c rci ex id loader : (forall x, qR (loader x)) -> qR (get_or_load_latest c rci ex id loader).
Proof. intro H. unfold get_or_load_latest. qR_go; try apply qR_kc_load; exact H. Qed.
Lemma qR_is_envelope_invalid e r : qR (is_envelope_invalid e r). Proof. unfold is_envelope_invalid. qR_go. Qed.
Lemma qR_generate_key_now e : qR (generate_key_now e). Proof. unfold generate_key_now. qR_go. Qed.
Lemma qR_system_key_from_ekr r : qR (system_key_from_ekr r). Proof. unfold system_key_from_ekr. qR_go. Qed.
Global Hint Resolve qR_is_envelope_invalid qR_generate_key_now qR_system_key_from_ekr : qR.
Lemma qR_load_system_key m : qR (load_system_key m). Proof. unfold load_system_key. qR_go. Qed.
Global Hint Resolve qR_load_system_key : qR.
Lemma qR_get_or_load_system_key e m : qR (get_or_load_system_key e m).
Proof. unfold get_or_load_system_key. apply qR_get_or_load. intro. apply qR_load_system_key. Qed.
Global Hint Resolve qR_get_or_load_system_key : qR.
Lemma qR_intermediate_key_from_ekr e sk r : qR (intermediate_key_from_ekr e sk r). Proof. unfold intermediate_key_from_ekr. qR_go. Qed.
Lemma qR_try_store_system_key e sk : qR (try_store_system_key e sk).
Proof. unfold try_store_system_key. apply qR_bind; [auto with qR|intro]. apply qR_bind; [auto with qR|intro]. apply qR_bind; [auto with qR|intro]. apply qR_m_store. reflexivity. Qed.
Lemma qR_must_load_latest id : qR (must_load_latest id). Proof. unfold must_load_latest. qR_go. Qed.
Global Hint Resolve qR_intermediate_key_from_ekr qR_try_store_system_key qR_must_load_latest : qR.
Lemma qR_load_latest_or_create_system_key e id : qR (load_latest_or_create_system_key e id). Proof. unfold load_latest_or_create_system_key. qR_go. Qed.
Lemma qR_try_store_intermediate_key e ik sk : qR (try_store_intermediate_key e ik sk).
Proof. unfold try_store_intermediate_key. do 5 (apply qR_bind; [auto with qR|intro]). apply qR_m_store. reflexivity. Qed.
Global Hint Resolve qR_load_latest_or_create_system_key qR_try_store_intermediate_key : qR.
Lemma qR_create_ik_with_sk e sk : qR (create_ik_with_sk e sk). Proof. unfold create_ik_with_sk. qR_go. Qed.
Global Hint Resolve qR_create_ik_with_sk : qR.
Lemma qR_create_intermediate_key e : qR (create_intermediate_key e).
Proof. unfold create_intermediate_key. apply qR_bind; [apply qR_get_or_load_latest; intro; apply qR_load_latest_or_create_system_key | intro sk; qR_go]. Qed.
Global Hint Resolve qR_create_intermediate_key : qR.
Lemma qR_get_valid_intermediate_key e sk r : qR (get_valid_intermediate_key e sk r). Proof. unfold get_valid_intermediate_key. qR_go. Qed.
Global Hint Resolve qR_get_valid_intermediate_key : qR.
Lemma qR_load_latest_or_create_intermediate_key e id : qR (load_latest_or_create_intermediate_key e id). Proof. unfold load_latest_or_create_intermediate_key. qR_go. Qed.
Lemma qR_load_intermediate_key e m : qR (load_intermediate_key e m). Proof. unfold load_intermediate_key. qR_go. Qed.
Global Hint Resolve qR_load_latest_or_create_intermediate_key qR_load_intermediate_key : qR.
Lemma qR_encrypt_with_ik e ik p : qR (encrypt_with_ik e ik p). Proof. unfold encrypt_with_ik. qR_go. Qed.
Global Hint Resolve qR_encrypt_with_ik : qR.
Lemma qR_encrypt_payload e p : qR (encrypt_payload e p).
Proof. unfold encrypt_payload. apply qR_bind; [apply qR_get_or_load_latest; intro; apply qR_load_latest_or_create_intermediate_key | intro ik; qR_go]. Qed.
Lemma qR_decrypt_row ik k d : qR (decrypt_row ik k d). Proof. unfold decrypt_row. qR_go. Qed.
Global Hint Resolve qR_decrypt_row : qR.
Lemma qR_decrypt_data_row_record e r : qR (decrypt_data_row_record e r).
Proof. unfold decrypt_data_row_record. qR_go. apply qR_get_or_load. intro. apply qR_load_intermediate_key. Qed.
Lemma qR_get_factory f : qR (get_factory f). Proof. unfold get_factory. qR_go. Qed.
Lemma qR_get_session s : qR (get_session s). Proof. unfold get_session. qR_go. Qed.
Global Hint Resolve qR_get_factory qR_get_session : qR.
Lemma qR_session_env s : qR (session_env s). Proof. unfold session_env. qR_go. Qed.

(* ---- total correctness: no failure when no fault is planned -------------------------------------------------- *)

(* ---- freshness of a key object at the (fixed) time of the operation --------------------------------------------- *)

Definition FreshK (ex : Z) (k : nat) (w : world) : Prop := exists c, created_of w k c /\ is_key_expired (w_now w) c ex = false.

Lemma stableS_FreshK ex k : stableS (FreshK ex k).
Proof.
  intros w w' R [c [Hc He]]. exists c. split; [exact (stableS_created_of k c w w' R Hc)|]. destruct R as [_ [_ En]]. rewrite En. exact He.
Qed.

Lemma timestamp_fresh now prec ex : ex >= prec + sec -> ex >= sec -> is_key_expired now (new_key_timestamp now prec) ex = false.
Proof.
  intros H1 H2. unfold is_key_expired, new_key_timestamp. apply Z.ltb_ge.
  assert (S0 : sec = 1000000000) by reflexivity.
  destruct (prec >? 0) eqn:E.
  - apply Z.gtb_lt in E.
    pose proof (Z.mod_pos_bound (now + go_zero_offset) prec E) as [M1 M2]. set (m := (now + go_zero_offset) mod prec) in *.
    pose proof (Z.div_mod (now - m) sec ltac:(lia)) as D. pose proof (Z.mod_pos_bound (now - m) sec ltac:(lia)) as [D1 D2].
    set (q := (now - m) / sec) in *. set (r := (now - m) mod sec) in *. lia.
  - pose proof (Z.div_mod now sec ltac:(lia)) as D. pose proof (Z.mod_pos_bound now sec ltac:(lia)) as [D1 D2].
    set (q := now / sec) in *. set (r := now mod sec) in *. lia.
Qed.

Lemma expired_mono now c c' ex : c <= c' -> is_key_expired now c ex = false -> is_key_expired now c' ex = false.
Proof. unfold is_key_expired. intros L H. apply Z.ltb_ge in H. apply Z.ltb_ge. assert (sec = 1000000000) by reflexivity. nia. Qed.

(* the running assertion of an unfaulted operation at time t *)
Definition PT0 (t : Z) (w : world) : Prop := NF w /\ RC (w_store w) /\ w_now w = t.

Lemma hoare_PT0 {A} t (m : M A) : qF m -> qR m -> pres now_same m -> hoare (PT0 t) m (fun _ w => PT0 t w) (PT0 t).
Proof.
  intros QF QR PN w [Hnf [Hrc Hn]]. specialize (QF w). specialize (QR w). specialize (PN w).
  destruct (m w) as [[e|a] w1]; cbn [snd] in *; unfold now_same in PN;
    (split; [unfold NF in *; rewrite (proj2 QF); exact Hnf | split; [exact (QR Hrc) | congruence]]).
Qed.

Lemma hoare_bind_last {A B} (m : M A) (f : A -> M B) (Q : B -> world -> Prop) :
  (forall a, hoare (fun _ => True) (f a) Q (fun _ => True)) -> hoare (fun _ => True) (bind m f) Q (fun _ => True).
Proof. intros H w _. unfold bind. destruct (m w) as [[e|a] w1]; [exact I | exact (H a w1 I)]. Qed.

Lemma ikfe_created e sk r : hoare (fun _ => True) (intermediate_key_from_ekr e sk r) (fun k w => created_of w k (e_created r)) (fun _ => True).
Proof.
  unfold intermediate_key_from_ekr. do 4 (apply hoare_bind_last; intro).
  eapply hoare_post; [apply new_crypto_key_res | cbv beta; tauto].
Qed.

Lemma gvik_created e sk r :
  hoare (fun _ => True) (get_valid_intermediate_key e sk r) (fun v w => forall ik, v = Some ik -> created_of w ik (e_created r)) (fun _ => True).
Proof.
  unfold get_valid_intermediate_key. apply hoare_bind_last. intros [|]; [apply hoare_ret; intros w _ ik H; discriminate H|].
  eapply (hoare_bind _ _ (fun x w => forall ik, x = inr ik -> created_of w ik (e_created r))).
  - eapply hoare_try; [apply ikfe_created | |]; cbv beta.
    + intros a w H ik E. inversion E; subst. exact H.
    + intros er w _ ik E. discriminate E.
  - intros [er|ik]; apply hoare_ret; intros w H ik' E; [discriminate E | inversion E; subst; exact (H ik' eq_refl)].
Qed.

Lemma m_store_refused id c r : hoare NF (m_store id c r) (fun b w => b = false -> store_find id c (w_store w) <> None) (fun _ => True).
Proof.
  intros w Hnf. unfold m_store, bind. rewrite (next_call_nf w Hnf). unfold store_insert. cbn [w_store with_calls].
  destruct (store_find id c (w_store w)) eqn:E; cbn.
  - intros _. rewrite E. discriminate.
  - intro H. discriminate H.
Qed.

Lemma store_latest_mono id : forall t b rb, exists c2 r2, store_latest id t (Some (b, rb)) = Some (c2, r2) /\ b <= c2.
Proof.
  induction t as [|[[i k] r] t IH]; intros b rb; cbn [store_latest].
  - exists b, rb. split; [reflexivity | lia].
  - destruct (str_eqb i id); [|apply IH].
    destruct (b <? k) eqn:E.
    + destruct (IH k r) as [c2 [r2 [H1 H2]]]. exists c2, r2. split; [exact H1|]. apply Z.ltb_lt in E. lia.
    + apply IH.
Qed.

Lemma store_latest_ge id : forall st best c r0, store_find id c st = Some r0 ->
  exists c2 r2, store_latest id st best = Some (c2, r2) /\ c <= c2.
Proof.
  induction st as [|[[i k] r] st IH]; intros best c r0 Hf; cbn [store_find store_latest] in *; [discriminate|].
  destruct (str_eqb i id) eqn:Ei; cbn [andb] in Hf.
  - destruct (k =? c) eqn:Ek.
    + apply Z.eqb_eq in Ek. subst k.
      destruct best as [[b rb]|].
      * destruct (b <? c) eqn:E.
        -- apply store_latest_mono.
        -- destruct (store_latest_mono id st b rb) as [c2 [r2 [H1 H2]]]. exists c2, r2. split; [exact H1|]. apply Z.ltb_ge in E. lia.
      * apply store_latest_mono.
    + exact (IH _ c r0 Hf).
  - exact (IH best c r0 Hf).
Qed.

Lemma qR_implies {A} (m : M A) w : qR m -> RC (w_store w) -> RC (w_store (snd (m w))).
Proof. intros Q H. exact (Q w H). Qed.

(* the latest row of an id that has a row stamped c carries a stamp >= c *)
Lemma mll_max id c :
  hoare (fun w => NF w /\ RC (w_store w) /\ store_find id c (w_store w) <> None) (must_load_latest id) (fun r _ => c <= e_created r) (fun _ => True).
Proof.
  intros w [Hnf [Hrc Hex]]. unfold must_load_latest, bind, m_load_latest. unfold bind at 1. rewrite (next_call_nf w Hnf).
  unfold get_store, gets, bind, emit, upd, ret. cbn [w_store with_calls fst snd].
  destruct (store_find id c (w_store w)) as [r0|] eqn:Ef; [|contradiction].
  destruct (store_latest_ge id (w_store w) None c r0 Ef) as [c2 [r2 [HL Hle]]]. rewrite HL. cbn [option_map snd].
  destruct (store_latest_spec id (w_store w) None c2 r2 HL) as [Hb|[Hf2 _]]; [discriminate|].
  rewrite (Hrc id c2 r2 Hf2). exact Hle.
Qed.

Lemma tsik_refused e ik sk c :
  hoare (fun w => NF w /\ created_of w ik c) (try_store_intermediate_key e ik sk)
        (fun b w => b = false -> store_find (ik_id e) c (w_store w) <> None) (fun _ => True).
Proof.
  unfold try_store_intermediate_key. set (B := fun w => NF w /\ created_of w ik c).
  assert (HB : forall {X} (m : M X) (phi : X -> world -> Prop), quiet0 m -> qF m -> hoare (fun _ => True) m phi (fun _ => True) ->
                 hoare B m (fun a w => B w /\ phi a w) (fun _ => True)).
  { intros X m phi Q0 QF Hr w [Hnf Hc]. specialize (Hr w I). pose proof (Q0 w) as Q. pose proof (QF w) as F.
    destruct (m w) as [[er|a] w1]; cbn [snd] in *; [exact I|]. split; [|exact Hr].
    split; [unfold NF in *; rewrite (proj2 F); exact Hnf | exact (stable_created_of ik c w w1 (Rq0_Rq _ _ Q) Hc)]. }
  eapply (hoare_bind _ _ (fun _ w => B w)); [eapply hoare_post; [exact (HB _ (key_bytes ik) _ (q0_key_bytes ik) (qF_key_bytes ik) (key_bytes_res ik)) | cbv beta; tauto]|]. intro ikb.
  eapply (hoare_bind _ _ (fun _ w => B w)); [eapply hoare_post; [exact (HB _ (key_bytes sk) _ (q0_key_bytes sk) (qF_key_bytes sk) (key_bytes_res sk)) | cbv beta; tauto]|]. intro skb.
  eapply (hoare_bind _ _ (fun _ w => B w)); [eapply hoare_post; [exact (HB _ (aead_encrypt ikb skb) _ (q0_aead_encrypt _ _) (qF_aead_encrypt _ _) (aead_encrypt_res _ _)) | cbv beta; tauto]|]. intro enc.
  eapply (hoare_bind _ _ _); [exact (HB _ (kobj_get ik) _ (q0_kobj_get ik) (qF_kobj_get ik) (kobj_get_res ik))|]. intro iko.
  apply (hoare_pull _ (ko_created iko = c)).
  { intros w [[_ [o [Ho Hc]]] Hn]. rewrite Ho in Hn. inversion Hn; subst o. exact Hc. }
  intros ->.
  eapply (hoare_bind _ _ (fun _ w => NF w)).
  { eapply hoare_weaken; [exact (hoare_NF _ (qF_kobj_get sk)) | | |]; cbv beta; try tauto. intros w [[Hnf _] _]. exact Hnf. }
  intro sko. apply m_store_refused.
Qed.

(* rows this operation adds name parents that are not expired at time t: preserved by everything except the intermediate-key
   store, which needs its system key to be fresh (handled below) *)
Section NewRows.
Variables (exq tq : Z) (st0 : list row).
Definition NR (w : world) : Prop :=
  forall i c r pm, store_find i c (w_store w) = Some r -> store_find i c st0 = None -> e_parent r = Some pm -> is_key_expired tq (km_created pm) exq = false.
Definition sameN (w w' : world) : Prop := NR w -> NR w'.
Lemma sameN_refl w : sameN w w. Proof. intro H. exact H. Qed.
Lemma sameN_trans a b c : sameN a b -> sameN b c -> sameN a c. Proof. unfold sameN. tauto. Qed.
Definition qN {A} (m : M A) : Prop := qu sameN m.
Lemma qN_ret {A} (a : A) : qN (ret a). Proof. apply (qu_ret sameN sameN_refl). Qed.
Lemma qN_fail {A} e : qN (@fail A e). Proof. apply (qu_fail sameN sameN_refl). Qed.
Lemma qN_gets {A} (f : world -> A) : qN (gets f). Proof. apply (qu_gets sameN sameN_refl). Qed.
Lemma qN_bind {A B} (m : M A) (f : A -> M B) : qN m -> (forall a, qN (f a)) -> qN (bind m f). Proof. apply (qu_bind sameN sameN_trans). Qed.
Lemma qN_finally {A} (m : M A) (c : M unit) : qN m -> qN c -> qN (finally m c). Proof. apply (qu_finally sameN sameN_trans). Qed.
Lemma qN_try {A} (m : M A) : qN m -> qN (try_ m). Proof. apply (qu_try sameN). Qed.
Lemma qN_emit e : qN (emit e). Proof. intro w. intro H. exact H. Qed.
Lemma qN_next_call : qN next_call. Proof. intro w. intro H. exact H. Qed.
Lemma qN_bump_nonce : qN bump_nonce. Proof. intro w. intro H. exact H. Qed.
Lemma qN_store_insert id c r : (forall pm, e_parent r = Some pm -> is_key_expired tq (km_created pm) exq = false) -> qN (store_insert id c r).
Proof.
  intros Ep w. unfold store_insert. destruct (store_find id c (w_store w)); [intro H; exact H|]. cbn [snd]. intros H i k r0 pm Hf Hn Hp. cbn in Hf.
  apply store_find_app_RC in Hf as [Hf|[E1 E2]]; [exact (H i k r0 pm Hf Hn Hp) | subst r0; exact (Ep pm Hp)].
Qed.
Lemma qN_secret_alloc m : qN (secret_alloc m). Proof. intro w. intro H. exact H. Qed.
Lemma qN_secret_mark_closed sid : qN (secret_mark_closed sid). Proof. intro w. unfold secret_mark_closed. destruct (nth_error (w_secrets w) sid); intro H; exact H. Qed.
Lemma qN_kobj_alloc o : qN (kobj_alloc o). Proof. intro w. intro H. exact H. Qed.
Lemma qN_kobj_modify k g : qN (kobj_modify k g). Proof. intro w. unfold kobj_modify. destruct (nth_error (w_kobjs w) k); intro H; exact H. Qed.
Lemma qN_put_cache cid c : qN (put_cache cid c). Proof. intro w. intro H. exact H. Qed.
Lemma qN_put_session s x : qN (put_session s x). Proof. intro w. intro H. exact H. Qed.
Local Hint Resolve qN_emit qN_next_call qN_bump_nonce qN_secret_alloc qN_secret_mark_closed qN_kobj_alloc qN_kobj_modify qN_put_cache qN_put_session : qN.

Ltac qN_step :=
  first
    [ solve [auto with qN]
    | apply qN_ret | apply qN_fail | apply qN_gets
    | apply qN_bind; [|intro]
    | apply qN_finally
    | apply qN_try
    | match goal with
      | |- qN (match ?x with _ => _ end) => destruct x
      | |- qN (let '(_, _) := ?x in _) => destruct x
      | |- qN (if ?x then _ else _) => destruct x
      end ].
Ltac qN_go := repeat qN_step.

Lemma qN_get_now : qN get_now. Proof. apply qN_gets. Qed.
Lemma qN_get_store : qN get_store. Proof. apply qN_gets. Qed.
Lemma qN_get_secrets : qN get_secrets. Proof. apply qN_gets. Qed.
Lemma qN_get_kobjs : qN get_kobjs. Proof. apply qN_gets. Qed.
Lemma qN_secret_count : qN secret_count. Proof. apply qN_gets. Qed.
Local Hint Resolve qN_get_now qN_get_store qN_get_secrets qN_get_kobjs qN_secret_count : qN.
Lemma qN_m_load id c : qN (m_load id c). Proof. unfold m_load. qN_go. Qed.
Lemma qN_m_load_latest id : qN (m_load_latest id). Proof. unfold m_load_latest. qN_go. Qed.
Lemma qN_m_store id c r : (forall pm, e_parent r = Some pm -> is_key_expired tq (km_created pm) exq = false) -> qN (m_store id c r).
Proof. intro Ep. pose proof (qN_store_insert id c r Ep). unfold m_store. qN_go. Qed.
Lemma qN_kms_encrypt p : qN (kms_encrypt p). Proof. unfold kms_encrypt. qN_go. Qed.
Lemma qN_kms_decrypt c : qN (kms_decrypt c). Proof. unfold kms_decrypt. qN_go. Qed.
Lemma qN_aead_encrypt p k : qN (aead_encrypt p k). Proof. unfold aead_encrypt. qN_go. Qed.
Lemma qN_aead_decrypt c k : qN (aead_decrypt c k). Proof. unfold aead_decrypt. qN_go. Qed.
Lemma qN_secret_new m : qN (secret_new m). Proof. unfold secret_new. qN_go. Qed.
Lemma qN_secret_random : qN secret_random. Proof. unfold secret_random. qN_go. Qed.
Lemma qN_secret_close sid : qN (secret_close sid). Proof. unfold secret_close. qN_go. Qed.
Lemma qN_secret_bytes sid : qN (secret_bytes sid). Proof. unfold secret_bytes. qN_go. Qed.
Lemma qN_kobj_get k : qN (kobj_get k). Proof. unfold kobj_get. qN_go. Qed.
Local Hint Resolve qN_m_load qN_m_load_latest qN_kms_encrypt qN_kms_decrypt qN_aead_encrypt qN_aead_decrypt qN_secret_new
  qN_secret_random qN_secret_close qN_secret_bytes qN_kobj_get : qN.
Lemma qN_ck_close k : qN (ck_close k). Proof. unfold ck_close. qN_go. Qed.
Local Hint Resolve qN_ck_close : qN.
Lemma qN_cck_close k : qN (cck_close k). Proof. unfold cck_close. qN_go. Qed.
Lemma qN_cck_increment k : qN (cck_increment k). Proof. unfold cck_increment. qN_go. Qed.
Lemma qN_ck_set_revoked k b : qN (ck_set_revoked k b). Proof. unfold ck_set_revoked. qN_go. Qed.
Lemma qN_cck_wrap k : qN (cck_wrap k). Proof. unfold cck_wrap. qN_go. Qed.
Local Hint Resolve qN_cck_close qN_cck_increment qN_ck_set_revoked qN_cck_wrap : qN.
Lemma qN_key_bytes k : qN (key_bytes k). Proof. unfold key_bytes. qN_go. Qed.
Lemma qN_new_crypto_key c r m : qN (new_crypto_key c r m). Proof. unfold new_crypto_key. qN_go. Qed.
Lemma qN_generate_key c : qN (generate_key c). Proof. unfold generate_key. qN_go. Qed.
Lemma qN_get_cache cid : qN (get_cache cid). Proof. unfold get_cache. qN_go. Qed.
Local Hint Resolve qN_key_bytes qN_new_crypto_key qN_generate_key qN_get_cache : qN.
Lemma qN_kc_read cid m : qN (kc_read cid m). Proof. unfold kc_read. qN_go. Qed.
Lemma qN_reload_required e rci : qN (reload_required e rci). Proof. unfold reload_required. qN_go. Qed.
Local Hint Resolve qN_kc_read qN_reload_required : qN.
Lemma qN_kc_get_fresh cid rci m : qN (kc_get_fresh cid rci m). Proof. unfold kc_get_fresh. qN_go. Qed.
Lemma qN_closes l : qN (closes l). Proof. unfold closes. induction l as [|x l IH]; cbn [fold_right]; qN_go. Qed.
Local Hint Resolve qN_kc_get_fresh qN_closes : qN.
Lemma qN_kc_write cid m e : qN (kc_write cid m e). Proof. unfold kc_write. qN_go. Qed.
Local Hint Resolve qN_kc_write : qN.
Lemma qN_kc_load cid m loader : (forall x, qN (loader x)) -> qN (kc_load cid m loader). Proof. intro H. unfold kc_load. qN_go. Qed.
Lemma qN_is_key_invalid k e : qN (is_key_invalid k e). Proof. unfold is_key_invalid. qN_go. Qed.
Local Hint Resolve qN_is_key_invalid : qN.
Lemma qN_get_or_load c rci m loader : (forall x, qN (loader x)) -> qN (get_or_load c rci m loader).
Proof. intro H. unfold get_or_load. qN_go; apply qN_kc_load; exact H. Qed.
Lemma qN_get_or_load_latest c rci ex id loader : (forall x, qN (loader x)) -> qN (get_or_load_latest c rci ex id loader).
Proof. intro H. unfold get_or_load_latest. qN_go; try apply qN_kc_load; exact H. Qed.
Lemma qN_is_envelope_invalid e r : qN (is_envelope_invalid e r). Proof. unfold is_envelope_invalid. qN_go. Qed.
Lemma qN_generate_key_now e : qN (generate_key_now e). Proof. unfold generate_key_now. qN_go. Qed.
Lemma qN_system_key_from_ekr r : qN (system_key_from_ekr r). Proof. unfold system_key_from_ekr. qN_go. Qed.
Local Hint Resolve qN_is_envelope_invalid qN_generate_key_now qN_system_key_from_ekr : qN.
Lemma qN_load_system_key m : qN (load_system_key m). Proof. unfold load_system_key. qN_go. Qed.
Local Hint Resolve qN_load_system_key : qN.
Lemma qN_get_or_load_system_key e m : qN (get_or_load_system_key e m).
Proof. unfold get_or_load_system_key. apply qN_get_or_load. intro. apply qN_load_system_key. Qed.
Local Hint Resolve qN_get_or_load_system_key : qN.
Lemma qN_intermediate_key_from_ekr e sk r : qN (intermediate_key_from_ekr e sk r). Proof. unfold intermediate_key_from_ekr. qN_go. Qed.
Lemma qN_try_store_system_key e sk : qN (try_store_system_key e sk).
Proof. unfold try_store_system_key. apply qN_bind; [auto with qN|intro]. apply qN_bind; [auto with qN|intro]. apply qN_bind; [auto with qN|intro]. apply qN_m_store. intros pm E. discriminate E. Qed.
Lemma qN_must_load_latest id : qN (must_load_latest id). Proof. unfold must_load_latest. qN_go. Qed.
Local Hint Resolve qN_intermediate_key_from_ekr qN_try_store_system_key qN_must_load_latest : qN.
Lemma qN_load_latest_or_create_system_key e id : qN (load_latest_or_create_system_key e id). Proof. unfold load_latest_or_create_system_key. qN_go. Qed.
Local Hint Resolve qN_load_latest_or_create_system_key : qN.
Lemma qN_get_valid_intermediate_key e sk r : qN (get_valid_intermediate_key e sk r). Proof. unfold get_valid_intermediate_key. qN_go. Qed.
Local Hint Resolve qN_get_valid_intermediate_key : qN.
Lemma qN_load_intermediate_key e m : qN (load_intermediate_key e m). Proof. unfold load_intermediate_key. qN_go. Qed.
Local Hint Resolve qN_load_intermediate_key : qN.
Lemma qN_encrypt_with_ik e ik p : qN (encrypt_with_ik e ik p). Proof. unfold encrypt_with_ik. qN_go. Qed.
Local Hint Resolve qN_encrypt_with_ik : qN.
Lemma qN_decrypt_row ik k d : qN (decrypt_row ik k d). Proof. unfold decrypt_row. qN_go. Qed.
Local Hint Resolve qN_decrypt_row : qN.
Lemma qN_decrypt_data_row_record e r : qN (decrypt_data_row_record e r).
Proof. unfold decrypt_data_row_record. qN_go. apply qN_get_or_load. intro. apply qN_load_intermediate_key. Qed.
Lemma qN_get_factory f : qN (get_factory f). Proof. unfold get_factory. qN_go. Qed.
Lemma qN_get_session s : qN (get_session s). Proof. unfold get_session. qN_go. Qed.
Local Hint Resolve qN_get_factory qN_get_session : qN.
Lemma qN_session_env s : qN (session_env s). Proof. unfold session_env. qN_go. Qed.

(* ---- total correctness: no failure when no fault is planned -------------------------------------------------- *)
End NewRows.

Lemma tssk_refused e sk c :
  hoare (fun w => NF w /\ created_of w sk c) (try_store_system_key e sk)
        (fun b w => b = false -> store_find (sk_id e) c (w_store w) <> None) (fun _ => True).
Proof.
  unfold try_store_system_key. set (B := fun w => NF w /\ created_of w sk c).
  assert (HB : forall {X} (m : M X) (phi : X -> world -> Prop), quiet0 m -> qF m -> hoare (fun _ => True) m phi (fun _ => True) ->
                 hoare B m (fun a w => B w /\ phi a w) (fun _ => True)).
  { intros X m phi Q0 QF Hr w [Hnf Hc]. specialize (Hr w I). pose proof (Q0 w) as Q. pose proof (QF w) as F.
    destruct (m w) as [[er|a] w1]; cbn [snd] in *; [exact I|]. split; [|exact Hr].
    split; [unfold NF in *; rewrite (proj2 F); exact Hnf | exact (stable_created_of sk c w w1 (Rq0_Rq _ _ Q) Hc)]. }
  eapply (hoare_bind _ _ (fun _ w => B w)); [eapply hoare_post; [exact (HB _ (key_bytes sk) _ (q0_key_bytes sk) (qF_key_bytes sk) (key_bytes_res sk)) | cbv beta; tauto]|]. intro skb.
  eapply (hoare_bind _ _ (fun _ w => B w)); [eapply hoare_post; [exact (HB _ (kms_encrypt skb) _ (q0_kms_encrypt _) (qF_kms_encrypt _) (kms_encrypt_res _)) | cbv beta; tauto]|]. intro enc.
  eapply (hoare_bind _ _ _); [exact (HB _ (kobj_get sk) _ (q0_kobj_get sk) (qF_kobj_get sk) (kobj_get_res sk))|]. intro o.
  apply (hoare_pull _ (ko_created o = c)).
  { intros w [[_ [o' [Ho Hc]]] Hn]. rewrite Ho in Hn. inversion Hn; subst o'. exact Hc. }
  intros ->. eapply hoare_pre; [apply m_store_refused|]. cbv beta. intros w [[Hnf _] _]. exact Hnf.
Qed.

Lemma skfe_created r : hoare (fun _ => True) (system_key_from_ekr r) (fun k w => created_of w k (e_created r)) (fun _ => True).
Proof. unfold system_key_from_ekr. apply hoare_bind_last. intro. eapply hoare_post; [apply new_crypto_key_res | cbv beta; tauto]. Qed.

Section Expiry.
Variable e : env.
Let ex := p_expire (en_pol e).
Let prec := p_precision (en_pol e).
Hypothesis Sane1 : ex >= prec + sec.
Hypothesis Sane2 : ex >= sec.

Lemma FreshK_pres {A} (m : M A) k : pres Rs m -> hoare (FreshK ex k) m (fun _ w => FreshK ex k w) (FreshK ex k).
Proof. intros P w H. specialize (P w). destruct (m w) as [[er|a] w1]; cbn [snd] in P; exact (stableS_FreshK ex k w w1 P H). Qed.

(* PT0 t together with a fact that survives Rs-steps *)
Lemma hoare_PT0_F {A} t (F : world -> Prop) (m : M A) :
  qF m -> qR m -> pres now_same m -> pres Rs m -> stableS F ->
  hoare (fun w => PT0 t w /\ F w) m (fun _ w => PT0 t w /\ F w) (fun w => PT0 t w /\ F w).
Proof.
  intros QF QR PN PR SF w [HP HF]. pose proof (hoare_PT0 t m QF QR PN w HP) as X. specialize (PR w).
  destruct (m w) as [[er|a] w1]; cbn [snd] in PR; (split; [exact X | exact (SF w w1 PR HF)]).
Qed.

Lemma generate_key_now_fresh t :
  hoare (PT0 t) (generate_key_now e) (fun k w => PT0 t w /\ created_of w k (new_key_timestamp t prec)) (fun _ => True).
Proof.
  unfold generate_key_now.
  eapply (hoare_bind _ _ (fun now w => PT0 t w /\ now = t)).
  { intros w HP. cbn. split; [exact HP | exact (proj2 (proj2 HP))]. }
  intro now. apply hoare_pre with (P' := fun w => now = t /\ PT0 t w); [|cbv beta; tauto]. apply hoare_pure. intros ->.
  eapply hoare_weaken; [exact (hoare_conj _ _ _ _ _ _ _ (hoare_PT0 t _ (qF_generate_key _) (qR_generate_key _) (pres_generate_key now_same now_same_frame _))
                                 (generate_key_res (new_key_timestamp t (p_precision (en_pol e))))) | | |]; cbv beta; tauto.
Qed.

Lemma created_fresh t c k w : PT0 t w -> created_of w k c -> is_key_expired t c ex = false -> FreshK ex k w.
Proof. intros [_ [_ En]] Hc He. exists c. split; [exact Hc | rewrite En; exact He]. Qed.

(* the part of createIntermediateKey after the system key is in hand *)
Lemma create_ik_with_sk_fresh t sk :
  hoare (PT0 t) (create_ik_with_sk e sk) (fun k w => FreshK ex k w) (fun _ => True).
Proof.
  unfold create_ik_with_sk. set (c0 := new_key_timestamp t prec).
  assert (F0 : is_key_expired t c0 ex = false) by (apply timestamp_fresh; assumption).
  eapply (hoare_bind _ _ _); [apply generate_key_now_fresh|]. intro ik. fold c0.
  eapply (hoare_bind _ _ (fun st w => (PT0 t w /\ created_of w ik c0) /\ (st = inr false -> store_find (ik_id e) c0 (w_store w) <> None))).
  { eapply hoare_try with (Q1 := fun b w => (PT0 t w /\ created_of w ik c0) /\ (b = false -> store_find (ik_id e) c0 (w_store w) <> None)) (E1 := fun w => PT0 t w /\ created_of w ik c0).
    - eapply hoare_weaken.
      + exact (hoare_conj _ _ _ _ _ _ _
                 (hoare_PT0_F t (fun w => created_of w ik c0) (try_store_intermediate_key e ik sk) (qF_try_store_intermediate_key e ik sk) (qR_try_store_intermediate_key e ik sk)
                    (pres_try_store_intermediate_key now_same now_same_frame e ik sk) (pres_try_store_intermediate_key Rs Rs_frame e ik sk) (stableS_created_of ik c0))
                 (tsik_refused e ik sk c0)).
      + cbv beta. intros w [[Hnf X] Hc]. split; [split; [split; assumption | exact Hc] | split; assumption].
      + cbv beta. tauto.
      + cbv beta. tauto.
    - cbv beta. intros b w [H1 H2]. split; [exact H1|]. intro E. inversion E; subst. exact (H2 eq_refl).
    - cbv beta. intros er w H. split; [exact H|]. intro E. discriminate E. }
  intros [er|[|]].
  - (* storing failed with an error *)
    eapply (hoare_bind _ _ (fun _ _ => True)); [intros w _; destruct (ck_close ik w) as [[?|?] ?]; exact I|]. intros _. apply hoare_fail. tauto.
  - apply hoare_ret. intros w [[HP Hc] _]. exact (created_fresh t c0 ik w HP Hc F0).
  - (* refused as a duplicate: a row stamped c0 exists; the latest row is at least as young *)
    eapply (hoare_bind _ _ (fun _ w => PT0 t w /\ store_find (ik_id e) c0 (w_store w) <> None)).
    { intros w [[HP Hc] Hex]. pose proof (hoare_PT0 t (ck_close ik) (qF_ck_close ik) (qR_ck_close ik) (pres_ck_close now_same now_same_frame ik) w HP) as X.
      pose proof (q0_ck_close ik w) as Q. destruct (ck_close ik w) as [[er|a] w1]; cbn [snd] in Q; [exact I|].
      split; [exact X | rewrite (proj2 Q); exact (Hex eq_refl)]. }
    intros _.
    eapply (hoare_bind _ _ (fun r2 w => PT0 t w /\ c0 <= e_created r2)).
    { eapply hoare_weaken.
      - exact (hoare_conj _ _ _ _ _ _ _ (hoare_PT0 t _ (qF_must_load_latest _) (qR_must_load_latest _) (pres_must_load_latest now_same now_same_frame _)) (mll_max (ik_id e) c0)).
      - cbv beta. intros w [[Hnf [Hrc Hn]] Hex]. split; [split; [exact Hnf | split; assumption] | split; [exact Hnf | split; assumption]].
      - cbv beta. tauto.
      - cbv beta. tauto. }
    intro r2. apply hoare_pre with (P' := fun w => c0 <= e_created r2 /\ PT0 t w); [|cbv beta; tauto]. apply hoare_pure. intro Le.
    eapply hoare_weaken.
    + exact (hoare_conj _ _ _ _ _ _ _ (hoare_PT0 t _ (qF_intermediate_key_from_ekr e sk r2) (qR_intermediate_key_from_ekr e sk r2) (pres_intermediate_key_from_ekr now_same now_same_frame e sk r2))
               (ikfe_created e sk r2)).
    + cbv beta. tauto.
    + cbv beta. intros k w [HP Hc]. apply (created_fresh t (e_created r2) k w HP Hc). exact (expired_mono t c0 _ ex Le F0).
    + cbv beta. tauto.
Qed.


(* createIntermediateKey *)
Lemma create_intermediate_key_fresh t : hoare (PT0 t) (create_intermediate_key e) (fun k w => FreshK ex k w) (fun _ => True).
Proof.
  unfold create_intermediate_key.
  eapply (hoare_bind _ _ (fun _ w => PT0 t w)).
  { eapply hoare_weaken; [apply (hoare_PT0 t) | | |]; cbv beta; try tauto.
    - apply qF_get_or_load_latest. intro x. apply qF_load_latest_or_create_system_key.
    - apply qR_get_or_load_latest. intro x. apply qR_load_latest_or_create_system_key.
    - apply (pres_get_or_load_latest now_same now_same_frame). intro x. apply (pres_load_latest_or_create_system_key now_same now_same_frame). }
  intro sk.
  eapply hoare_finally with (Q1 := fun k w => FreshK ex k w) (E1 := fun _ => True).
  - apply create_ik_with_sk_fresh.
  - intro k. eapply hoare_weaken; [exact (FreshK_pres (cck_close sk) k (pres_cck_close Rs Rs_frame sk)) | | |]; cbv beta; tauto.
  - intros w _. destruct (cck_close sk w) as [[?|?] ?]; exact I.
Qed.

(* loadLatestOrCreateIntermediateKey *)
Lemma loader_fresh t : hoare (PT0 t) (load_latest_or_create_intermediate_key e (ik_id e)) (fun k w => FreshK ex k w) (fun _ => True).
Proof.
  unfold load_latest_or_create_intermediate_key.
  assert (Create : forall (P : world -> Prop), (forall w, P w -> PT0 t w) -> hoare P (create_intermediate_key e) (fun k w => FreshK ex k w) (fun _ => True)).
  { intros P HP. eapply hoare_pre; [apply create_intermediate_key_fresh | exact HP]. }
  eapply (hoare_bind _ _ (fun _ w => PT0 t w)).
  { eapply hoare_weaken; [exact (hoare_PT0 t _ (qF_m_load_latest _) (qR_m_load_latest _) (pres_m_load_latest now_same now_same_frame _)) | | |]; cbv beta; tauto. }
  intro r.
  eapply (hoare_bind _ _ (fun usable w => PT0 t w /\ (usable = true -> forall r0, r = Some r0 -> is_key_expired t (e_created r0) ex = false))).
  { destruct r as [r0|]; [|apply hoare_ret; intros w H; split; [exact H | intro E; discriminate E]].
    destruct (e_parent r0); [|apply hoare_ret; intros w H; split; [exact H | intro E; discriminate E]].
    unfold is_envelope_invalid. intros w HP. cbn. split; [exact HP|]. intros E r1 E1. inversion E1; subst r1.
    destruct HP as [_ [_ En]]. rewrite En in E. fold ex in E. apply Bool.negb_true_iff, Bool.orb_false_iff in E. exact (proj1 E). }
  intro usable.
  destruct r as [r0|]; [|apply Create; cbv beta; tauto].
  destruct usable; [|apply Create; cbv beta; tauto].
  destruct (e_parent r0) as [pm|]; [|apply Create; cbv beta; tauto].
  apply hoare_pre with (P' := fun w => is_key_expired t (e_created r0) ex = false /\ PT0 t w).
  2:{ cbv beta. intros w [HP H]. split; [exact (H eq_refl r0 eq_refl) | exact HP]. }
  apply hoare_pure. intro F0.
  eapply (hoare_bind _ _ (fun _ w => PT0 t w)).
  { eapply hoare_try with (Q1 := fun _ w => PT0 t w) (E1 := PT0 t); [| cbv beta; tauto | cbv beta; tauto].
    apply (hoare_PT0 t); [apply qF_get_or_load_system_key | apply qR_get_or_load_system_key | apply (pres_get_or_load_system_key now_same now_same_frame)]. }
  intros [er|sk]; [apply Create; cbv beta; tauto|].
  eapply hoare_finally with (Q1 := fun k w => FreshK ex k w) (E1 := fun _ => True).
  - eapply (hoare_bind _ _ (fun v w => PT0 t w /\ forall ik, v = Some ik -> created_of w ik (e_created r0))).
    + eapply hoare_weaken; [exact (hoare_conj _ _ _ _ _ _ _
                 (hoare_PT0 t _ (qF_get_valid_intermediate_key e sk r0) (qR_get_valid_intermediate_key e sk r0) (pres_get_valid_intermediate_key now_same now_same_frame e sk r0))
                 (gvik_created e sk r0)) | | |]; cbv beta; tauto.
    + intros [ik|]; [|apply Create; cbv beta; tauto].
      apply hoare_ret. intros w [HP H]. exact (created_fresh t _ ik w HP (H ik eq_refl) F0).
  - intro k. eapply hoare_weaken; [exact (FreshK_pres (cck_close sk) k (pres_cck_close Rs Rs_frame sk)) | | |]; cbv beta; tauto.
  - intros w _. destruct (cck_close sk w) as [[?|?] ?]; exact I.
Qed.


Lemma is_key_invalid_fresh k :
  hoare (fun _ => True) (is_key_invalid k ex) (fun b w => b = false -> FreshK ex k w) (fun _ => True).
Proof.
  intros w _. unfold is_key_invalid, bind, kobj_get, get_kobjs, get_now, gets, ret. cbn.
  destruct (nth_error (w_kobjs w) k) as [o|] eqn:Ho; cbn; [|exact I].
  intro E. apply Bool.orb_false_iff in E as [_ E]. exists (ko_created o). split; [exists o; split; [exact Ho | reflexivity] | exact E].
Qed.

(* GetOrLoadLatest with any cache or none, for a loader that answers with fresh keys *)
Lemma gol_latest_fresh t c rci id (loader : keymeta -> M nat) :
  (forall x, qF (loader x)) -> (forall x, qR (loader x)) -> (forall x, pres now_same (loader x)) ->
  hoare (PT0 t) (loader {| km_id := id; km_created := 0 |}) (fun k w => FreshK ex k w) (fun _ => True) ->
  hoare (PT0 t) (get_or_load_latest c rci ex id loader) (fun k w => FreshK ex k w) (fun _ => True).
Proof.
  intros QFl QRl PNl LF.
  unfold get_or_load_latest. destruct c as [cid|].
  - set (meta := {| km_id := id; km_created := 0 |}).
    eapply (hoare_bind _ _ (fun _ w => PT0 t w)).
    { eapply hoare_weaken; [exact (hoare_PT0 t _ (qF_kc_get_fresh cid rci meta) (qR_kc_get_fresh cid rci meta) (pres_kc_get_fresh now_same now_same_frame cid rci meta)) | | |]; cbv beta; tauto. }
    intro f.
    eapply (hoare_bind _ _ (fun _ w => PT0 t w)).
    { destruct f as [[k [|]]|]; [apply hoare_ret; tauto | |];
        (eapply hoare_weaken; [exact (hoare_PT0 t _ (qF_kc_load cid meta loader QFl) (qR_kc_load cid meta loader QRl) (pres_kc_load now_same now_same_frame cid meta loader PNl)) | | |]; cbv beta; tauto). }
    intro key.
    eapply (hoare_bind _ _ (fun inv w => PT0 t w /\ (inv = false -> FreshK ex key w))).
    { eapply hoare_weaken; [exact (hoare_conj _ _ _ _ _ _ _
                 (hoare_PT0 t _ (qF_is_key_invalid key ex) (qR_is_key_invalid key ex) (pres_is_key_invalid now_same now_same_frame key ex)) (is_key_invalid_fresh key)) | | |]; cbv beta; tauto. }
    intros [|].
    + eapply (hoare_bind _ _ (fun k w => FreshK ex k w)); [eapply hoare_pre; [exact LF | cbv beta; tauto]|]. intro reloaded.
      eapply (hoare_bind _ _ (fun _ w => FreshK ex reloaded w)); [eapply hoare_weaken; [exact (FreshK_pres (kobj_get reloaded) reloaded (pres_kobj_get Rs Rs_frame reloaded)) | | |]; cbv beta; tauto|]. intro ro.
      eapply (hoare_bind _ _ (fun _ w => FreshK ex reloaded w)); [eapply hoare_weaken; [exact (FreshK_pres get_now reloaded (pres_get_now Rs Rs_frame)) | | |]; cbv beta; tauto|]. intro now.
      eapply (hoare_bind _ _ (fun _ w => FreshK ex reloaded w)); [eapply hoare_weaken; [exact (FreshK_pres (cck_wrap reloaded) reloaded (pres_cck_wrap Rs Rs_frame reloaded)) | | |]; cbv beta; tauto|]. intros _.
      eapply (hoare_bind _ _ (fun _ w => FreshK ex reloaded w)); [eapply hoare_weaken; [exact (FreshK_pres _ reloaded (pres_kc_write Rs Rs_frame cid _ _)) | | |]; cbv beta; tauto|]. intros _.
      eapply (hoare_bind _ _ (fun _ w => FreshK ex reloaded w)); [eapply hoare_weaken; [exact (FreshK_pres (cck_increment reloaded) reloaded (pres_cck_increment Rs Rs_frame reloaded)) | | |]; cbv beta; tauto|]. intros _.
      apply hoare_ret. tauto.
    + eapply (hoare_bind _ _ (fun _ w => FreshK ex key w)).
      { eapply hoare_weaken; [exact (FreshK_pres (cck_increment key) key (pres_cck_increment Rs Rs_frame key)) | | |]; cbv beta; try tauto; intros w [_ H]; exact (H eq_refl). }
      intros _. apply hoare_ret. tauto.
  - eapply (hoare_bind _ _ (fun k w => FreshK ex k w)); [exact LF|]. intro k.
    eapply (hoare_bind _ _ (fun _ w => FreshK ex k w)); [eapply hoare_weaken; [exact (FreshK_pres (cck_wrap k) k (pres_cck_wrap Rs Rs_frame k)) | | |]; cbv beta; tauto|]. intros _.
    apply hoare_ret. tauto.
Qed.

(* GetOrLoadLatest for the intermediate key *)
Lemma get_or_load_latest_fresh t c rci :
  hoare (PT0 t) (get_or_load_latest c rci ex (ik_id e) (fun m => load_latest_or_create_intermediate_key e (km_id m)))
        (fun k w => FreshK ex k w) (fun _ => True).
Proof.
  apply gol_latest_fresh.
  - intro x. apply qF_load_latest_or_create_intermediate_key.
  - intro x. apply qR_load_latest_or_create_intermediate_key.
  - intro x. apply (pres_load_latest_or_create_intermediate_key now_same now_same_frame).
  - exact (loader_fresh t).
Qed.

(* loadLatestOrCreateSystemKey: whatever it returns - a valid stored key, a new one, the duplicate fallback - is not expired *)
Lemma sk_loader_fresh t : hoare (PT0 t) (load_latest_or_create_system_key e (sk_id e)) (fun k w => FreshK ex k w) (fun _ => True).
Proof.
  unfold load_latest_or_create_system_key. set (c0 := new_key_timestamp t prec).
  assert (F0 : is_key_expired t c0 ex = false) by (apply timestamp_fresh; assumption).
  eapply (hoare_bind _ _ (fun _ w => PT0 t w)).
  { eapply hoare_weaken; [exact (hoare_PT0 t _ (qF_m_load_latest _) (qR_m_load_latest _) (pres_m_load_latest now_same now_same_frame _)) | | |]; cbv beta; tauto. }
  intro r.
  eapply (hoare_bind _ _ (fun valid w => PT0 t w /\ (valid = true -> forall r0, r = Some r0 -> is_key_expired t (e_created r0) ex = false))).
  { destruct r as [r0|]; [|apply hoare_ret; intros w H; split; [exact H | intro E; discriminate E]].
    unfold is_envelope_invalid. intros w HP. cbn. split; [exact HP|]. intros E r1 E1. inversion E1; subst r1.
    destruct HP as [_ [_ En]]. rewrite En in E. fold ex in E. apply Bool.negb_true_iff, Bool.orb_false_iff in E. exact (proj1 E). }
  intro valid.
  assert (Create : hoare (PT0 t)
            (sk <- generate_key_now e;; st <- try_ (try_store_system_key e sk);;
             match st with
             | inr true => ret sk
             | inr false => ck_close sk;;; (r2 <- must_load_latest (sk_id e);; system_key_from_ekr r2)
             | inl er => ck_close sk;;; fail er
             end) (fun k w => FreshK ex k w) (fun _ => True)).
  { eapply (hoare_bind _ _ _); [apply generate_key_now_fresh|]. intro sk. fold c0.
    eapply (hoare_bind _ _ (fun st w => (PT0 t w /\ created_of w sk c0) /\ (st = inr false -> store_find (sk_id e) c0 (w_store w) <> None))).
    { eapply hoare_try with (Q1 := fun b w => (PT0 t w /\ created_of w sk c0) /\ (b = false -> store_find (sk_id e) c0 (w_store w) <> None)) (E1 := fun w => PT0 t w /\ created_of w sk c0).
      - eapply hoare_weaken.
        + exact (hoare_conj _ _ _ _ _ _ _
                   (hoare_PT0_F t (fun w => created_of w sk c0) (try_store_system_key e sk) (qF_try_store_system_key e sk) (qR_try_store_system_key e sk)
                      (pres_try_store_system_key now_same now_same_frame e sk) (pres_try_store_system_key Rs Rs_frame e sk) (stableS_created_of sk c0))
                   (tssk_refused e sk c0)).
        + cbv beta. intros w [[Hnf X] Hc]. split; [split; [split; assumption | exact Hc] | split; assumption].
        + cbv beta. tauto.
        + cbv beta. tauto.
      - cbv beta. intros b w [H1 H2]. split; [exact H1|]. intro E. inversion E; subst. exact (H2 eq_refl).
      - cbv beta. intros er w H. split; [exact H|]. intro E. discriminate E. }
    intros [er|[|]].
    - eapply (hoare_bind _ _ (fun _ _ => True)); [intros w _; destruct (ck_close sk w) as [[?|?] ?]; exact I|]. intros _. apply hoare_fail. tauto.
    - apply hoare_ret. intros w [[HP Hc] _]. exact (created_fresh t c0 sk w HP Hc F0).
    - eapply (hoare_bind _ _ (fun _ w => PT0 t w /\ store_find (sk_id e) c0 (w_store w) <> None)).
      { intros w [[HP Hc] Hex]. pose proof (hoare_PT0 t (ck_close sk) (qF_ck_close sk) (qR_ck_close sk) (pres_ck_close now_same now_same_frame sk) w HP) as X.
        pose proof (q0_ck_close sk w) as Q. destruct (ck_close sk w) as [[er|a] w1]; cbn [snd] in Q; [exact I|].
        split; [exact X | rewrite (proj2 Q); exact (Hex eq_refl)]. }
      intros _.
      eapply (hoare_bind _ _ (fun r2 w => PT0 t w /\ c0 <= e_created r2)).
      { eapply hoare_weaken.
        - exact (hoare_conj _ _ _ _ _ _ _ (hoare_PT0 t _ (qF_must_load_latest _) (qR_must_load_latest _) (pres_must_load_latest now_same now_same_frame _)) (mll_max (sk_id e) c0)).
        - cbv beta. intros w [[Hnf [Hrc Hn]] Hex]. split; [split; [exact Hnf | split; assumption] | split; [exact Hnf | split; assumption]].
        - cbv beta. tauto.
        - cbv beta. tauto. }
      intro r2. apply hoare_pre with (P' := fun w => c0 <= e_created r2 /\ PT0 t w); [|cbv beta; tauto]. apply hoare_pure. intro Le.
      eapply hoare_weaken.
      + exact (hoare_conj _ _ _ _ _ _ _ (hoare_PT0 t _ (qF_system_key_from_ekr r2) (qR_system_key_from_ekr r2) (pres_system_key_from_ekr now_same now_same_frame r2)) (skfe_created r2)).
      + cbv beta. tauto.
      + cbv beta. intros k w [HP Hc]. apply (created_fresh t (e_created r2) k w HP Hc). exact (expired_mono t c0 _ ex Le F0).
      + cbv beta. tauto. }
  destruct r as [r0|]; [destruct valid|]; [|eapply hoare_pre; [exact Create | cbv beta; tauto]|eapply hoare_pre; [exact Create | cbv beta; tauto]].
  apply hoare_pre with (P' := fun w => is_key_expired t (e_created r0) ex = false /\ PT0 t w).
  2:{ cbv beta. intros w [HP H]. split; [exact (H eq_refl r0 eq_refl) | exact HP]. }
  apply hoare_pure. intro Fr.
  eapply hoare_weaken.
  + exact (hoare_conj _ _ _ _ _ _ _ (hoare_PT0 t _ (qF_system_key_from_ekr r0) (qR_system_key_from_ekr r0) (pres_system_key_from_ekr now_same now_same_frame r0)) (skfe_created r0)).
  + cbv beta. tauto.
  + cbv beta. intros k w [HP Hc]. exact (created_fresh t (e_created r0) k w HP Hc Fr).
  + cbv beta. tauto.
Qed.

(* the system key createIntermediateKey works with is not expired *)
Lemma sk_get_or_load_latest_fresh t c rci :
  hoare (PT0 t) (get_or_load_latest c rci ex (sk_id e) (fun m => load_latest_or_create_system_key e (km_id m)))
        (fun k w => FreshK ex k w) (fun _ => True).
Proof.
  apply gol_latest_fresh.
  - intro x. apply qF_load_latest_or_create_system_key.
  - intro x. apply qR_load_latest_or_create_system_key.
  - intro x. apply (pres_load_latest_or_create_system_key now_same now_same_frame).
  - exact (sk_loader_fresh t).
Qed.

(* ---- clause 2: rows added by an unfaulted operation name parents that are not expired -------------------------- *)

Definition P2 (t : Z) (st0 : list row) (w : world) : Prop := PT0 t w /\ NR ex t st0 w.

Lemma keeps_P2 {A} t st0 (m : M A) : qF m -> qR m -> pres now_same m -> qN ex t st0 m -> hoare (P2 t st0) m (fun _ w => P2 t st0 w) (P2 t st0).
Proof.
  intros QF QR PN QN w [HP HN]. pose proof (hoare_PT0 t m QF QR PN w HP) as X. specialize (QN w HN).
  destruct (m w) as [[er|a] w1]; cbn [snd] in QN; (split; [exact X | exact QN]).
Qed.

(* P2 together with a fact that survives Rs-steps *)
Lemma keeps_P2_F {A} t st0 (F : world -> Prop) (m : M A) :
  qF m -> qR m -> pres now_same m -> qN ex t st0 m -> pres Rs m -> stableS F ->
  hoare (fun w => P2 t st0 w /\ F w) m (fun _ w => P2 t st0 w /\ F w) (fun w => P2 t st0 w /\ F w).
Proof.
  intros QF QR PN QN PR SF w [HP HF]. pose proof (keeps_P2 t st0 m QF QR PN QN w HP) as X. specialize (PR w).
  destruct (m w) as [[er|a] w1]; cbn [snd] in PR; (split; [exact X | exact (SF w w1 PR HF)]).
Qed.

Lemma tsik_P2 t st0 ik sk :
  hoare (fun w => P2 t st0 w /\ FreshK ex sk w) (try_store_intermediate_key e ik sk) (fun _ w => P2 t st0 w) (P2 t st0).
Proof.
  unfold try_store_intermediate_key.
  set (B := fun w => P2 t st0 w /\ FreshK ex sk w).
  assert (HB : forall {X} (m : M X), qF m -> qR m -> pres now_same m -> qN ex t st0 m -> pres Rs m -> hoare B m (fun _ w => B w) (P2 t st0)).
  { intros X m QF QR PN QN PR. eapply hoare_weaken; [exact (keeps_P2_F t st0 (FreshK ex sk) m QF QR PN QN PR (stableS_FreshK ex sk)) | | |]; unfold B; cbv beta; tauto. }
  eapply (hoare_bind _ _ (fun _ w => B w)); [exact (HB _ _ (qF_key_bytes ik) (qR_key_bytes ik) (pres_key_bytes now_same now_same_frame ik) (qN_key_bytes ex t st0 ik) (pres_key_bytes Rs Rs_frame ik))|]. intro ikb.
  eapply (hoare_bind _ _ (fun _ w => B w)); [exact (HB _ _ (qF_key_bytes sk) (qR_key_bytes sk) (pres_key_bytes now_same now_same_frame sk) (qN_key_bytes ex t st0 sk) (pres_key_bytes Rs Rs_frame sk))|]. intro skb.
  eapply (hoare_bind _ _ (fun _ w => B w)); [exact (HB _ _ (qF_aead_encrypt ikb skb) (qR_aead_encrypt ikb skb) (pres_aead_encrypt now_same now_same_frame ikb skb) (qN_aead_encrypt ex t st0 ikb skb) (pres_aead_encrypt Rs Rs_frame ikb skb))|]. intro enc.
  eapply (hoare_bind _ _ (fun _ w => B w)); [exact (HB _ _ (qF_kobj_get ik) (qR_kobj_get ik) (pres_kobj_get now_same now_same_frame ik) (qN_kobj_get ex t st0 ik) (pres_kobj_get Rs Rs_frame ik))|]. intro iko.
  eapply (hoare_bind _ _ (fun sko w => B w /\ nth_error (w_kobjs w) sk = Some sko)).
  { intros w HBw. pose proof (HB _ _ (qF_kobj_get sk) (qR_kobj_get sk) (pres_kobj_get now_same now_same_frame sk) (qN_kobj_get ex t st0 sk) (pres_kobj_get Rs Rs_frame sk) w HBw) as X.
    pose proof (kobj_get_res sk w I) as Y. destruct (kobj_get sk w) as [[er|a] w1]; [exact X | split; assumption]. }
  intro sko.
  intros w [[[HP HN] [c' [[o [Ho Hc]] He]]] Hn]. rewrite Ho in Hn. inversion Hn; subst o.
  assert (En : w_now w = t) by exact (proj2 (proj2 HP)).
  set (row := {| e_revoked := false; e_created := ko_created iko; e_key := enc; e_parent := Some {| km_id := sk_id e; km_created := ko_created sko |} |}).
  assert (QNs : qN ex t st0 (m_store (ik_id e) (ko_created iko) row)).
  { apply qN_m_store. intros pm E. inversion E; subst pm. cbn [km_created]. rewrite Hc. rewrite <- En. exact He. }
  pose proof (keeps_P2 t st0 (m_store (ik_id e) (ko_created iko) row) (qF_m_store _ _ _) (qR_m_store (ik_id e) (ko_created iko) row eq_refl) (pres_m_store now_same now_same_frame _ _ _) QNs w (conj HP HN)) as X.
  destruct (m_store (ik_id e) (ko_created iko) row w) as [[er|a] w1]; exact X.
Qed.

Ltac keeps4 := first [ solve [auto with qF] | idtac ].

Lemma create_ik_with_sk_P2 t st0 sk :
  hoare (fun w => P2 t st0 w /\ FreshK ex sk w) (create_ik_with_sk e sk) (fun _ w => P2 t st0 w) (P2 t st0).
Proof.
  unfold create_ik_with_sk.
  set (B := fun w => P2 t st0 w /\ FreshK ex sk w).
  assert (HB : forall {X} (m : M X), qF m -> qR m -> pres now_same m -> qN ex t st0 m -> pres Rs m -> hoare B m (fun _ w => B w) (P2 t st0)).
  { intros X m QF QR PN QN PR. eapply hoare_weaken; [exact (keeps_P2_F t st0 (FreshK ex sk) m QF QR PN QN PR (stableS_FreshK ex sk)) | | |]; unfold B; cbv beta; tauto. }
  assert (HK : forall {X} (m : M X), qF m -> qR m -> pres now_same m -> qN ex t st0 m -> hoare (P2 t st0) m (fun _ w => P2 t st0 w) (P2 t st0)).
  { intros X m QF QR PN QN. exact (keeps_P2 t st0 m QF QR PN QN). }
  eapply (hoare_bind _ _ (fun _ w => B w)).
  { exact (HB _ _ (qF_generate_key_now e) (qR_generate_key_now e) (pres_generate_key_now now_same now_same_frame e) (qN_generate_key_now ex t st0 e) (pres_generate_key_now Rs Rs_frame e)). }
  intro ik.
  eapply (hoare_bind _ _ (fun _ w => P2 t st0 w)).
  { eapply hoare_try with (Q1 := fun _ w => P2 t st0 w) (E1 := P2 t st0); [exact (tsik_P2 t st0 ik sk) | cbv beta; tauto | cbv beta; tauto]. }
  intros [er|[|]].
  - eapply (hoare_bind _ _ (fun _ w => P2 t st0 w)); [exact (HK _ _ (qF_ck_close ik) (qR_ck_close ik) (pres_ck_close now_same now_same_frame ik) (qN_ck_close ex t st0 ik))|].
    intros _. apply hoare_fail. tauto.
  - apply hoare_ret. tauto.
  - eapply (hoare_bind _ _ (fun _ w => P2 t st0 w)); [exact (HK _ _ (qF_ck_close ik) (qR_ck_close ik) (pres_ck_close now_same now_same_frame ik) (qN_ck_close ex t st0 ik))|]. intros _.
    eapply (hoare_bind _ _ (fun _ w => P2 t st0 w)); [exact (HK _ _ (qF_must_load_latest _) (qR_must_load_latest _) (pres_must_load_latest now_same now_same_frame _) (qN_must_load_latest ex t st0 _))|]. intro r2.
    exact (HK _ _ (qF_intermediate_key_from_ekr e sk r2) (qR_intermediate_key_from_ekr e sk r2) (pres_intermediate_key_from_ekr now_same now_same_frame e sk r2) (qN_intermediate_key_from_ekr ex t st0 e sk r2)).
Qed.

Lemma create_intermediate_key_P2 t st0 : hoare (P2 t st0) (create_intermediate_key e) (fun _ w => P2 t st0 w) (P2 t st0).
Proof.
  unfold create_intermediate_key.
  set (loader := fun m : keymeta => load_latest_or_create_system_key e (km_id m)).
  eapply (hoare_bind _ _ (fun sk w => P2 t st0 w /\ FreshK ex sk w)).
  { eapply hoare_weaken.
    - exact (hoare_conj _ _ _ _ _ _ _
               (keeps_P2 t st0 _ (qF_get_or_load_latest _ _ _ _ loader (fun x => qF_load_latest_or_create_system_key e (km_id x)))
                                  (qR_get_or_load_latest _ _ _ _ loader (fun x => qR_load_latest_or_create_system_key e (km_id x)))
                                  (pres_get_or_load_latest now_same now_same_frame _ _ _ _ loader (fun x => pres_load_latest_or_create_system_key now_same now_same_frame e (km_id x)))
                                  (qN_get_or_load_latest ex t st0 _ _ _ _ loader (fun x => qN_load_latest_or_create_system_key ex t st0 e (km_id x))))
               (sk_get_or_load_latest_fresh t (en_sk e) (p_rci (en_pol e)))).
    - cbv beta. intros w H. split; [exact H | exact (proj1 H)].
    - cbv beta. tauto.
    - cbv beta. tauto. }
  intro sk.
  eapply hoare_finally with (Q1 := fun _ w => P2 t st0 w) (E1 := P2 t st0).
  - apply create_ik_with_sk_P2.
  - intros _. exact (keeps_P2 t st0 _ (qF_cck_close sk) (qR_cck_close sk) (pres_cck_close now_same now_same_frame sk) (qN_cck_close ex t st0 sk)).
  - exact (keeps_P2 t st0 _ (qF_cck_close sk) (qR_cck_close sk) (pres_cck_close now_same now_same_frame sk) (qN_cck_close ex t st0 sk)).
Qed.

Lemma loader_P2 t st0 id : hoare (P2 t st0) (load_latest_or_create_intermediate_key e id) (fun _ w => P2 t st0 w) (P2 t st0).
Proof.
  unfold load_latest_or_create_intermediate_key.
  assert (HK : forall {X} (m : M X), qF m -> qR m -> pres now_same m -> qN ex t st0 m -> hoare (P2 t st0) m (fun _ w => P2 t st0 w) (P2 t st0)).
  { intros X m QF QR PN QN. exact (keeps_P2 t st0 m QF QR PN QN). }
  eapply (hoare_bind _ _ (fun _ w => P2 t st0 w)); [exact (HK _ _ (qF_m_load_latest _) (qR_m_load_latest _) (pres_m_load_latest now_same now_same_frame _) (qN_m_load_latest ex t st0 _))|]. intro r.
  eapply (hoare_bind _ _ (fun _ w => P2 t st0 w)).
  { destruct r as [r0|]; [|apply hoare_ret; tauto]. destruct (e_parent r0); [|apply hoare_ret; tauto].
    apply HK; [qF_go | | | ].
    - apply qR_bind; [apply qR_is_envelope_invalid | intro; apply qR_ret].
    - apply (pres_bind now_same now_same_frame); [apply (pres_is_envelope_invalid now_same now_same_frame) | intro; apply (pres_ret now_same now_same_frame)].
    - apply qN_bind; [apply qN_is_envelope_invalid | intro; apply qN_ret]. }
  intro usable.
  destruct r as [r0|]; [|apply create_intermediate_key_P2].
  destruct usable; [|apply create_intermediate_key_P2].
  destruct (e_parent r0) as [pm|]; [|apply create_intermediate_key_P2].
  eapply (hoare_bind _ _ (fun _ w => P2 t st0 w)).
  { eapply hoare_try with (Q1 := fun _ w => P2 t st0 w) (E1 := P2 t st0); [| cbv beta; tauto | cbv beta; tauto].
    exact (HK _ _ (qF_get_or_load_system_key e pm) (qR_get_or_load_system_key e pm) (pres_get_or_load_system_key now_same now_same_frame e pm) (qN_get_or_load_system_key ex t st0 e pm)). }
  intros [er|sk]; [apply create_intermediate_key_P2|].
  eapply hoare_finally with (Q1 := fun _ w => P2 t st0 w) (E1 := P2 t st0).
  - eapply (hoare_bind _ _ (fun _ w => P2 t st0 w)).
    + exact (HK _ _ (qF_get_valid_intermediate_key e sk r0) (qR_get_valid_intermediate_key e sk r0) (pres_get_valid_intermediate_key now_same now_same_frame e sk r0) (qN_get_valid_intermediate_key ex t st0 e sk r0)).
    + intros [ik|]; [apply hoare_ret; tauto | apply create_intermediate_key_P2].
  - intros _. exact (HK _ _ (qF_cck_close sk) (qR_cck_close sk) (pres_cck_close now_same now_same_frame sk) (qN_cck_close ex t st0 sk)).
  - exact (HK _ _ (qF_cck_close sk) (qR_cck_close sk) (pres_cck_close now_same now_same_frame sk) (qN_cck_close ex t st0 sk)).
Qed.

Lemma kc_load_P2 t st0 cid meta (loader : keymeta -> M nat) :
  hoare (P2 t st0) (loader meta) (fun _ w => P2 t st0 w) (P2 t st0) ->
  hoare (P2 t st0) (kc_load cid meta loader) (fun _ w => P2 t st0 w) (P2 t st0).
Proof.
  intros HL w HP. specialize (HL w HP). unfold kc_load. unfold bind at 1. destruct (loader meta w) as [[er|k] w1]; [exact HL|].
  pose proof (keeps_P2 t st0 (kc_load cid meta (fun _ => ret k))
                (qF_kc_load cid meta _ (fun _ => qF_ret k)) (qR_kc_load cid meta _ (fun _ => qR_ret k))
                (pres_kc_load now_same now_same_frame cid meta _ (fun _ => pres_ret now_same now_same_frame k))
                (qN_kc_load ex t st0 cid meta _ (fun _ => qN_ret ex t st0 k)) w1 HL) as X.
  exact X.
Qed.

Lemma gol_latest_P2 t st0 c rci id (loader : keymeta -> M nat) :
  hoare (P2 t st0) (loader {| km_id := id; km_created := 0 |}) (fun _ w => P2 t st0 w) (P2 t st0) ->
  hoare (P2 t st0) (get_or_load_latest c rci ex id loader) (fun _ w => P2 t st0 w) (P2 t st0).
Proof.
  intro HL.
  assert (HK : forall {X} (m : M X), qF m -> qR m -> pres now_same m -> qN ex t st0 m -> hoare (P2 t st0) m (fun _ w => P2 t st0 w) (P2 t st0)).
  { intros X m QF QR PN QN. exact (keeps_P2 t st0 m QF QR PN QN). }
  unfold get_or_load_latest. destruct c as [cid|].
  - set (meta := {| km_id := id; km_created := 0 |}) in *.
    eapply (hoare_bind _ _ (fun _ w => P2 t st0 w)); [exact (HK _ _ (qF_kc_get_fresh cid rci meta) (qR_kc_get_fresh cid rci meta) (pres_kc_get_fresh now_same now_same_frame cid rci meta) (qN_kc_get_fresh ex t st0 cid rci meta))|].
    intro f.
    eapply (hoare_bind _ _ (fun _ w => P2 t st0 w)).
    { destruct f as [[k [|]]|]; [apply hoare_ret; tauto | |]; exact (kc_load_P2 t st0 cid meta loader HL). }
    intro key.
    eapply (hoare_bind _ _ (fun _ w => P2 t st0 w)); [exact (HK _ _ (qF_is_key_invalid key ex) (qR_is_key_invalid key ex) (pres_is_key_invalid now_same now_same_frame key ex) (qN_is_key_invalid ex t st0 key ex))|].
    intros [|].
    + eapply (hoare_bind _ _ (fun _ w => P2 t st0 w)); [exact HL|]. intro reloaded.
      eapply (hoare_bind _ _ (fun _ w => P2 t st0 w)); [exact (HK _ _ (qF_kobj_get _) (qR_kobj_get _) (pres_kobj_get now_same now_same_frame _) (qN_kobj_get ex t st0 _))|]. intro ro.
      eapply (hoare_bind _ _ (fun _ w => P2 t st0 w)); [exact (HK _ _ qF_get_now qR_get_now (pres_get_now now_same now_same_frame) (qN_get_now ex t st0))|]. intro now.
      eapply (hoare_bind _ _ (fun _ w => P2 t st0 w)); [exact (HK _ _ (qF_cck_wrap _) (qR_cck_wrap _) (pres_cck_wrap now_same now_same_frame _) (qN_cck_wrap ex t st0 _))|]. intros _.
      eapply (hoare_bind _ _ (fun _ w => P2 t st0 w)); [exact (HK _ _ (qF_kc_write cid _ _) (qR_kc_write cid _ _) (pres_kc_write now_same now_same_frame cid _ _) (qN_kc_write ex t st0 cid _ _))|]. intros _.
      eapply (hoare_bind _ _ (fun _ w => P2 t st0 w)); [exact (HK _ _ (qF_cck_increment _) (qR_cck_increment _) (pres_cck_increment now_same now_same_frame _) (qN_cck_increment ex t st0 _))|]. intros _.
      apply hoare_ret. tauto.
    + eapply (hoare_bind _ _ (fun _ w => P2 t st0 w)); [exact (HK _ _ (qF_cck_increment _) (qR_cck_increment _) (pres_cck_increment now_same now_same_frame _) (qN_cck_increment ex t st0 _))|]. intros _.
      apply hoare_ret. tauto.
  - eapply (hoare_bind _ _ (fun _ w => P2 t st0 w)); [exact HL|]. intro k.
    eapply (hoare_bind _ _ (fun _ w => P2 t st0 w)); [exact (HK _ _ (qF_cck_wrap _) (qR_cck_wrap _) (pres_cck_wrap now_same now_same_frame _) (qN_cck_wrap ex t st0 _))|]. intros _.
    apply hoare_ret. tauto.
Qed.

(* EncryptPayload, unfaulted, at time t, with the metastore st0 before: every row it adds names a parent that is not expired at t *)
Theorem encrypt_payload_P2 t st0 payload : hoare (P2 t st0) (encrypt_payload e payload) (fun _ w => P2 t st0 w) (P2 t st0).
Proof.
  unfold encrypt_payload.
  eapply (hoare_bind _ _ (fun _ w => P2 t st0 w)).
  { apply gol_latest_P2. apply loader_P2. }
  intro ik.
  eapply hoare_finally with (Q1 := fun _ w => P2 t st0 w) (E1 := P2 t st0).
  - exact (keeps_P2 t st0 _ (qF_encrypt_with_ik e ik payload) (qR_encrypt_with_ik e ik payload) (pres_encrypt_with_ik now_same now_same_frame e ik payload) (qN_encrypt_with_ik ex t st0 e ik payload)).
  - intros _. exact (keeps_P2 t st0 _ (qF_cck_close ik) (qR_cck_close ik) (pres_cck_close now_same now_same_frame ik) (qN_cck_close ex t st0 ik)).
  - exact (keeps_P2 t st0 _ (qF_cck_close ik) (qR_cck_close ik) (pres_cck_close now_same now_same_frame ik) (qN_cck_close ex t st0 ik)).
Qed.

(* the record EncryptPayload builds names the intermediate key object's own stamp *)
Lemma encrypt_with_ik_names ik payload :
  hoare (fun _ => True) (encrypt_with_ik e ik payload)
        (fun d w => exists key pm, d_key d = Some key /\ e_parent key = Some pm /\ created_of w ik (km_created pm)) (fun _ => True).
Proof.
  unfold encrypt_with_ik. do 2 (apply hoare_bind_last; intro).
  eapply hoare_finally with (Q1 := fun d w => exists key pm, d_key d = Some key /\ e_parent key = Some pm /\ created_of w ik (km_created pm)) (E1 := fun _ => True).
  - do 6 (apply hoare_bind_last; intro).
    eapply (hoare_bind _ _ (fun iko w => nth_error (w_kobjs w) ik = Some iko)); [exact (kobj_get_res ik)|]. intro iko.
    apply hoare_ret. intros w Hn. eexists. eexists. split; [reflexivity|]. split; [reflexivity|]. cbn [km_created]. exists iko. split; [exact Hn | reflexivity].
  - intro d. intros w [key [pm [H1 [H2 H3]]]]. pose proof (pres_ck_close Rs Rs_frame a0 w) as R.
    destruct (ck_close a0 w) as [[er|u] w1]; cbn [snd] in R; (exists key, pm; split; [exact H1|]; split; [exact H2|]; exact (stableS_created_of ik _ w w1 R H3)).
  - intros w _. destruct (ck_close a0 w) as [[?|?] ?]; exact I.
Qed.

(* EncryptPayload, unfaulted, at time t: the record's intermediate key is not expired at t *)
Theorem encrypt_payload_key_not_expired t payload :
  hoare (PT0 t) (encrypt_payload e payload)
        (fun d _ => exists key pm, d_key d = Some key /\ e_parent key = Some pm /\ is_key_expired t (km_created pm) ex = false) (fun _ => True).
Proof.
  unfold encrypt_payload.
  eapply (hoare_bind _ _ (fun ik w => FreshK ex ik w /\ w_now w = t)).
  { eapply hoare_weaken; [exact (hoare_conj _ _ _ _ _ _ _ (get_or_load_latest_fresh t (en_ik e) (p_rci (en_pol e)))
        (hoare_PT0 t _ (qF_get_or_load_latest _ _ _ _ _ (fun x => qF_load_latest_or_create_intermediate_key e (km_id x)))
                       (qR_get_or_load_latest _ _ _ _ _ (fun x => qR_load_latest_or_create_intermediate_key e (km_id x)))
                       (pres_get_or_load_latest now_same now_same_frame _ _ _ _ _ (fun x => pres_load_latest_or_create_intermediate_key now_same now_same_frame e (km_id x))))) | | |]; cbv beta.
    - tauto.
    - intros a w [H1 [_ [_ H2]]]. split; assumption.
    - tauto. }
  intro ik.
  eapply hoare_finally with (Q1 := fun d _ => exists key pm, d_key d = Some key /\ e_parent key = Some pm /\ is_key_expired t (km_created pm) ex = false) (E1 := fun _ => True).
  - intros w [[c [Hc He]] En]. pose proof (encrypt_with_ik_names ik payload w I) as X. pose proof (pres_encrypt_with_ik Rs Rs_frame e ik payload w) as R.
    destruct (encrypt_with_ik e ik payload w) as [[er|d] w1]; cbn [snd] in R; [exact I|].
    destruct X as [key [pm [H1 [H2 H3]]]]. exists key, pm. split; [exact H1|]. split; [exact H2|].
    pose proof (stableS_created_of ik c w w1 R Hc) as Hc1. rewrite (created_of_fun _ _ _ _ H3 Hc1). rewrite <- En. exact He.
  - intros d w H. destruct (cck_close ik w) as [[?|?] ?]; exact H.
  - intros w _. destruct (cck_close ik w) as [[?|?] ?]; exact I.
Qed.

End Expiry.

Lemma store_ok_RC svc prod st : store_ok svc prod st -> RC st.
Proof.
  intros SO i c r Hf. destruct (SO i c r Hf) as [[Ei [m [r' [Hf' [Hc _]]]]]|[p [Ei [m [r' [c' [skm [n [Hf' [Hc _]]]]]]]]]].
  - subst i. rewrite Hf in Hf'. inversion Hf'; subst r'. exact Hc.
  - rewrite Hf in Hf'. inversion Hf'; subst r'. exact Hc.
Qed.

Lemma session_env_fail1 s w : nth_error (w_sessions w) s = None -> session_env s w = (inl ErrPanic, w).
Proof. intro E. cbv beta iota delta [session_env bind get_session get_factory gets ret fail]. rewrite E. reflexivity. Qed.
Lemma session_env_fail2 s w x : nth_error (w_sessions w) s = Some x -> nth_error (w_factories w) (ss_factory x) = None -> session_env s w = (inl ErrPanic, w).
Proof. intros E1 E2. cbv beta iota delta [session_env bind get_session get_factory gets ret fail]. rewrite E1. cbv beta iota delta [ret]. cbv beta iota. rewrite E2. reflexivity. Qed.

(* at the API, after any history: an unfaulted Encrypt that returns a record wrote it under an intermediate key that is not
   expired at the time of the operation *)
Theorem unfaulted_encrypt_key_not_expired svc prod t0 ops s payload :
  Forall (benign svc prod) ops ->
  let h := snd (hrun (hinit t0) ops) in
  match hstep h (HEncrypt s payload []) with
  | (OEnc pm _, _, _) =>
      forall x fa, nth_error (w_sessions (h_world h)) s = Some x -> nth_error (w_factories (h_world h)) (ss_factory x) = Some fa ->
        p_expire (fa_policy fa) >= p_precision (fa_policy fa) + sec -> p_expire (fa_policy fa) >= sec ->
        is_key_expired (w_now (h_world h)) (km_created pm) (p_expire (fa_policy fa)) = false
  | _ => True
  end.
Proof.
  intros FB h. pose proof (store_ok_RC svc prod _ (store_well_formed svc prod t0 ops FB)) as Hrc. fold h in Hrc.
  cbn [hstep]. set (w := h_world h) in *. set (w0 := begin_op [] w).
  assert (P0 : PT0 (w_now w) w0) by (split; [reflexivity | split; [exact Hrc | reflexivity]]).
  assert (Ss : w_sessions w0 = w_sessions w) by reflexivity. assert (Sf : w_factories w0 = w_factories w) by reflexivity.
  clearbody w0.
  destruct (nth_error (w_sessions w) s) as [x|] eqn:Es.
  2:{ rewrite <- Ss in Es. unfold bind. rewrite (session_env_fail1 s w0 Es). exact I. }
  destruct (nth_error (w_factories w) (ss_factory x)) as [fa|] eqn:Ef.
  2:{ rewrite <- Ss in Es. rewrite <- Sf in Ef. unfold bind. rewrite (session_env_fail2 s w0 x Es Ef). exact I. }
  rewrite <- Ss in Es. rewrite <- Sf in Ef.
  unfold bind. rewrite (session_env_run s x fa w0 Es Ef).
  set (e := {| en_part := ss_part x; en_pol := fa_policy fa; en_sk := fa_sk fa; en_ik := ss_ik x |}).
  destruct (Z_ge_dec (p_expire (fa_policy fa)) (p_precision (fa_policy fa) + sec)) as [S1|N1].
  2:{ destruct (encrypt_payload e (PPayload payload) w0) as [[er|d] w1]; cbn [outcome]; [destruct er; exact I|].
      destruct (d_key d) as [k|]; [|exact I]. destruct (e_parent k); [|exact I]. intros x' fa' E1 E2 S1. inversion E1; subst x'. rewrite <- Sf, Ef in E2. inversion E2; subst fa'. contradiction. }
  destruct (Z_ge_dec (p_expire (fa_policy fa)) sec) as [S2|N2].
  2:{ destruct (encrypt_payload e (PPayload payload) w0) as [[er|d] w1]; cbn [outcome]; [destruct er; exact I|].
      destruct (d_key d) as [k|]; [|exact I]. destruct (e_parent k); [|exact I]. intros x' fa' E1 E2 _ S2. inversion E1; subst x'. rewrite <- Sf, Ef in E2. inversion E2; subst fa'. contradiction. }
  pose proof (encrypt_payload_key_not_expired e S1 S2 (w_now w) (PPayload payload) w0 P0) as X.
  destruct (encrypt_payload e (PPayload payload) w0) as [[er|d] w1]; cbn [outcome]; [destruct er; exact I|].
  destruct X as [key [pm [H1 [H2 H3]]]]. rewrite H1, H2.
  intros x' fa' E1 E2 _ _. inversion E1; subst x'. rewrite <- Sf, Ef in E2. inversion E2; subst fa'. exact H3.
Qed.

(* clause 2 at the API, after any history: every metastore row an unfaulted Encrypt adds (a new intermediate key, a new system key)
   names a parent key that is not expired at the time of the operation - no intermediate key is created under an expired system key *)
Theorem unfaulted_encrypt_new_rows_fresh svc prod t0 ops s payload :
  Forall (benign svc prod) ops ->
  let h := snd (hrun (hinit t0) ops) in
  let w := h_world h in
  let w' := h_world (snd (hstep h (HEncrypt s payload []))) in
  forall x fa, nth_error (w_sessions w) s = Some x -> nth_error (w_factories w) (ss_factory x) = Some fa ->
    p_expire (fa_policy fa) >= p_precision (fa_policy fa) + sec -> p_expire (fa_policy fa) >= sec ->
    forall i c r pm, store_find i c (w_store w') = Some r -> store_find i c (w_store w) = None -> e_parent r = Some pm ->
      is_key_expired (w_now w) (km_created pm) (p_expire (fa_policy fa)) = false.
Proof.
  intros FB h w w' x fa Es Ef S1 S2.
  pose proof (store_ok_RC svc prod _ (store_well_formed svc prod t0 ops FB)) as Hrc. fold h in Hrc. fold w in Hrc.
  unfold w'. cbn [hstep]. fold w. set (w0 := begin_op [] w).
  set (e := {| en_part := ss_part x; en_pol := fa_policy fa; en_sk := fa_sk fa; en_ik := ss_ik x |}).
  assert (P0 : P2 e (w_now w) (w_store w) w0).
  { split; [split; [reflexivity | split; [exact Hrc | reflexivity]]|]. intros i c r pm Hf Hn. cbn in Hf. rewrite Hn in Hf. discriminate Hf. }
  assert (Es0 : nth_error (w_sessions w0) s = Some x) by exact Es.
  assert (Ef0 : nth_error (w_factories w0) (ss_factory x) = Some fa) by exact Ef.
  clearbody w0.
  unfold bind. rewrite (session_env_run s x fa w0 Es0 Ef0). fold e.
  pose proof (encrypt_payload_P2 e S1 S2 (w_now w) (w_store w) (PPayload payload) w0 P0) as X.
  destruct (encrypt_payload e (PPayload payload) w0) as [[er|d] w1]; cbn [snd h_world]; exact (proj2 X).
Qed.
