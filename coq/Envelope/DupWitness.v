(* Known finding C04-DUP / C05-DUP on the faithful model: createIntermediateKey's duplicate fallback adopts the latest stored
   intermediate key without validating its parent system key. *)
From Asherah Require Import Envelope.Session Envelope.Rotation.
Open Scope Z_scope.

Definition pol_nc : policy :=
  {| p_expire := 100 * sec; p_rci := 10 * sec; p_precision := 1 * sec; p_cache_sk := false; p_cache_ik := false; p_shared_ik := false;
     p_sk_pol := simple_pol; p_ik_pol := simple_pol; p_cache_sessions := false; p_sess_cap := 1000; p_sess_dur := 7200 * sec; p_sess_kind := Generic.Slru |}.

(* t0: SK(t0) and IK_q.  t0+50: IK_p(t0+50) under SK(t0).  t0+120: SK(t0) expired 20 s ago.
   Op 7: an Encrypt whose system-key insert FAILS (fault on boundary call 7): the fallback adopts the latest stored system key,
         the expired SK(t0), and stores IK_p(t0+120) under it.
   Op 8: an UNFAULTED Encrypt in the same second: it creates SK(t0+120), its own IK_p(t0+120) is refused as a duplicate, and the
         fallback adopts the stored IK_p(t0+120) - whose system key expired 20 s (two intervals) ago - for the new record. *)
Definition witness_dup : list hop :=
  [ HNewFactory pol_nc (s "svc") (s "prod") None;
    HGetSession 0 (s "q"); HEncrypt 0 1 [];
    HAdvance (50 * sec);
    HGetSession 0 (s "p"); HEncrypt 1 2 [];
    HAdvance (70 * sec);
    HEncrypt 1 3 [(7%nat, FErr)];
    HEncrypt 1 4 [] ].

Definition ik_p : str := s "_IK_p_svc_prod".

Definition row_parent (st : list row) (id : str) (c : Z) : option Z :=
  match store_find id c st with Some r => option_map km_created (e_parent r) | None => None end.

Definition refused_ik_insert (ev : list event) : bool :=
  existsb (fun e => match e with EvMStore i c _ StFalse => str_eqb i ik_p && (c =? t0 / sec + 120) | _ => false end) ev.

Lemma C04_refuted_by_duplicate_fallback :
  (* the unfaulted Encrypt (op 8) wrote its record under IK_p(t0+120) *)
  nth_enc_parent 8 witness_dup = Some (t0 / sec + 120) /\
  (* which it did not create: its own insert was refused and it went through the duplicate fallback *)
  option_map (fun x => refused_ik_insert (snd x)) (nth_error (fst (hrun (hinit t0) witness_dup)) 8) = Some true /\
  (* that intermediate key's parent is SK(t0) *)
  row_parent (w_store (h_world (snd (hrun (hinit t0) witness_dup)))) ik_p (t0 / sec + 120) = Some (t0 / sec) /\
  (* which had expired more than one revoke-check interval before the operation *)
  is_key_expired (t0 + 120 * sec - p_rci pol_nc) (t0 / sec) (p_expire pol_nc) = true.
Proof. repeat split; vm_compute; reflexivity. Qed.

(* the same with a REVOKED system key: SK(t0) is revoked at t0+50; 30 s (three intervals) later the faulted Encrypt stores
   IK_p(t0+80) under it and the unfaulted Encrypt adopts that key *)
Definition witness_dup_revoked : list hop :=
  [ HNewFactory pol_nc (s "svc") (s "prod") None;
    HGetSession 0 (s "q"); HEncrypt 0 1 [];
    HAdvance (50 * sec);
    HGetSession 0 (s "p"); HEncrypt 1 2 [];
    HRevoke (s "_SK_svc_prod") (t0 / sec);
    HAdvance (30 * sec);
    HEncrypt 1 3 [(7%nat, FErr)];
    HEncrypt 1 4 [] ].

Definition row_revoked (st : list row) (id : str) (c : Z) : option bool :=
  match store_find id c st with Some r => Some (e_revoked r) | None => None end.

Lemma C05_refuted_by_duplicate_fallback :
  nth_enc_parent 9 witness_dup_revoked = Some (t0 / sec + 80) /\
  option_map (fun x => existsb (fun e => match e with EvMStore i c _ StFalse => str_eqb i ik_p && (c =? t0 / sec + 80) | _ => false end) (snd x))
             (nth_error (fst (hrun (hinit t0) witness_dup_revoked)) 9) = Some true /\
  row_parent (w_store (h_world (snd (hrun (hinit t0) witness_dup_revoked)))) ik_p (t0 / sec + 80) = Some (t0 / sec) /\
  row_revoked (w_store (h_world (snd (hrun (hinit t0) witness_dup_revoked)))) (s "_SK_svc_prod") (t0 / sec) = Some true /\
  (* revoked 30 s = three revoke-check intervals before the operation *)
  30 * sec > 2 * p_rci pol_nc.
Proof. repeat split; vm_compute; reflexivity. Qed.
