(* Known finding C04-DUP / C05-DUP on the faithful model: createIntermediateKey's duplicate fallback adopts the latest stored
   intermediate key without validating its parent system key. *)
From Asherah Require Import Envelope.Session Envelope.Rotation.
Open Scope Z_scope.

Definition pol_nc : policy :=
  {| p_expire := 100 * sec; p_rci := 10 * sec; p_precision := 1 * sec; p_cache_sk := false; p_cache_ik := false; p_shared_ik := false;
     p_sk_pol := simple_pol; p_ik_pol := simple_pol; p_cache_sessions := false; p_sess_cap := 1000; p_sess_dur := 7200 * sec; p_sess_kind := Generic.Slru |}.

(* t0: SK(t0) and IK_q.  t0+50: IK_p(t0+50) under SK(t0).  t0+120: SK(t0) expired 20 s ago.
   Op 7: an Encrypt whose system-key insert FAILS (fault on boundary call 7): the fallback adopts the latest stored system key,
         the expired SK(t0), and stores IK_p(t0+120) under it.
   Op 8: an UNFAULTED Encrypt in the same second: it creates SK(t0+120), its own IK_p(t0+120) is refused as a duplicate, and the
         fallback adopts the stored IK_p(t0+120) - whose system key expired 20 s (two intervals) ago - for the new record. *)
Definition witness_dup : list hop :=
  [ HNewFactory pol_nc (s "svc") (s "prod") None;
    HGetSession 0 (s "q"); HEncrypt 0 1 [];
    HAdvance (50 * sec);
    HGetSession 0 (s "p"); HEncrypt 1 2 [];
    HAdvance (70 * sec);
    HEncrypt 1 3 [(7%nat, FErr)];
    HEncrypt 1 4 [] ].

Definition ik_p : str := s "_IK_p_svc_prod".

Definition row_parent (st : list row) (id : str) (c : Z) : option Z :=
  match store_find id c st with Some r => option_map km_created (e_parent r) | None => None end.

Definition refused_ik_insert (ev : list event) : bool :=
  existsb (fun e => match e with EvMStore i c _ StFalse => str_eqb i ik_p && (c =? t0 / sec + 120) | _ => false end) ev.

Lemma C04_refuted_by_duplicate_fallback :
  (* the unfaulted Encrypt (op 8) wrote its record under IK_p(t0+120) *)
  nth_enc_parent 8 witness_dup = Some (t0 / sec + 120) /\
  (* which it did not create: its own insert was refused and it went through the duplicate fallback *)
  option_map (fun x => refused_ik_insert (snd x)) (nth_error (fst (hrun (hinit t0) witness_dup)) 8) = Some true /\
  (* that intermediate key's parent is SK(t0) *)
  row_parent (w_store (h_world (snd (hrun (hinit t0) witness_dup)))) ik_p (t0 / sec + 120) = Some (t0 / sec) /\
  (* which had expired more than one revoke-check interval before the operation *)
  is_key_expired (t0 + 120 * sec - p_rci pol_nc) (t0 / sec) (p_expire pol_nc) = true.
Proof. repeat split; vm_compute; reflexivity. Qed.

(* the same with a REVOKED system key: SK(t0) is revoked at t0+50; 30 s (three intervals) later the faulted Encrypt stores
   IK_p(t0+80) under it and the unfaulted Encrypt adopts that key *)
Definition witness_dup_revoked : list hop :=
  [ HNewFactory pol_nc (s "svc") (s "prod") None;
    HGetSession 0 (s "q"); HEncrypt 0 1 [];
    HAdvance (50 * sec);
    HGetSession 0 (s "p"); HEncrypt 1 2 [];
    HRevoke (s "_SK_svc_prod") (t0 / sec);
    HAdvance (30 * sec);
    HEncrypt 1 3 [(7%nat, FErr)];
    HEncrypt 1 4 [] ].

Definition row_revoked (st : list row) (id : str) (c : Z) : option bool :=
  match store_find id c st with Some r => Some (e_revoked r) | None => None end.

Lemma C05_refuted_by_duplicate_fallback :
  nth_enc_parent 9 witness_dup_revoked = Some (t0 / sec + 80) /\
  option_map (fun x => existsb (fun e => match e with EvMStore i c _ StFalse => str_eqb i ik_p && (c =? t0 / sec + 80) | _ => false end) (snd x))
             (nth_error (fst (hrun (hinit t0) witness_dup_revoked)) 9) = Some true /\
  row_parent (w_store (h_world (snd (hrun (hinit t0) witness_dup_revoked)))) ik_p (t0 / sec + 80) = Some (t0 / sec) /\
  row_revoked (w_store (h_world (snd (hrun (hinit t0) witness_dup_revoked)))) (s "_SK_svc_prod") (t0 / sec) = Some true /\
  (* revoked 30 s = three revoke-check intervals before the operation *)
  30 * sec > 2 * p_rci pol_nc.
Proof. repeat split; vm_compute; reflexivity. Qed.

(* Form c of the finding, with RevokeCheckInterval = 0 ("re-validate on every use") and NO fault anywhere.
   t0: SK(t0), IK_q.  t0+100 s exactly: SK(t0) is at the end of its life, not past it; partition p's first encrypt creates IK_p(t0+100) under it.
   999999999 ns later (same second, SK(t0) now expired) a cold factory opens p:
   Op 9:  its Encrypt finds IK_p(t0+100) under an expired system key, creates SK(t0+100) and an intermediate key of the same second, whose
          insert is refused as a duplicate; the fallback adopts the stored IK_p(t0+100) - under the expired SK(t0) - and caches it.
   Op 10: the next Encrypt, at the same instant, finds that key in the cache (no time has passed since it was loaded, so even a zero
          interval has not elapsed), makes no metastore call at all and writes its record under it. *)
Definition pol_rci0 : policy :=
  {| p_expire := 100 * sec; p_rci := 0; p_precision := 1 * sec; p_cache_sk := true; p_cache_ik := true; p_shared_ik := false;
     p_sk_pol := simple_pol; p_ik_pol := simple_pol; p_cache_sessions := false; p_sess_cap := 1000; p_sess_dur := 7200 * sec; p_sess_kind := Generic.Slru |}.
Definition witness_dup_c : list hop :=
  [ HNewFactory pol_rci0 (s "svc") (s "prod") None;
    HGetSession 0 (s "q"); HEncrypt 0 1 [];
    HAdvance (100 * sec);
    HGetSession 0 (s "p"); HEncrypt 1 2 [];
    HAdvance (sec - 1);
    HNewFactory pol_rci0 (s "svc") (s "prod") None;
    HGetSession 1 (s "p");
    HEncrypt 2 3 [];
    HEncrypt 2 4 [] ].

Definition no_metastore_event (ev : list event) : bool :=
  forallb (fun e => match e with EvMLoad _ _ _ | EvMLoadLatest _ _ | EvMStore _ _ _ _ => false | _ => true end) ev.
Definition refused_ik_insert_at (c : Z) (ev : list event) : bool :=
  existsb (fun e => match e with EvMStore i c' _ StFalse => str_eqb i ik_p && (c' =? c) | _ => false end) ev.

Lemma C04_refuted_by_cached_duplicate_fallback :
  (* op 9 went through the duplicate fallback and op 10 wrote its record under IK_p(t0+100) ... *)
  option_map (fun x => refused_ik_insert_at (t0 / sec + 100) (snd x)) (nth_error (fst (hrun (hinit t0) witness_dup_c)) 9) = Some true /\
  nth_enc_parent 10 witness_dup_c = Some (t0 / sec + 100) /\
  (* ... out of the cache, without any metastore call ... *)
  option_map (fun x => no_metastore_event (snd x)) (nth_error (fst (hrun (hinit t0) witness_dup_c)) 10) = Some true /\
  (* ... although that key's parent is SK(t0) ... *)
  row_parent (w_store (h_world (snd (hrun (hinit t0) witness_dup_c)))) ik_p (t0 / sec + 100) = Some (t0 / sec) /\
  (* ... which is expired at that time, one (zero-length) interval included; and no operation of the history was faulted *)
  is_key_expired (t0 + 100 * sec + (sec - 1) - p_rci pol_rci0) (t0 / sec) (p_expire pol_rci0) = true.
Proof. repeat split; vm_compute; reflexivity. Qed.
