(* The world the envelope-encryption model runs in: a symbolic AEAD/KMS, the metastore table, the
   secret table (protected memory), key objects with reference counts, the virtual clock, the fault
   plan and the trace of boundary events.  Everything is executable. *)
From Asherah Require Export Base.Str Envelope.Partition Cache.Generic.
From Coq Require Export ZArith List Bool.
Export ListNotations.
Open Scope Z_scope.

(* ---- symbolic cryptography (Dolev-Yao): a ciphertext opens only under the key that sealed it ---- *)

Inductive ptxt :=
| PKey (m : nat)        (* key material: m = number of the secret that first held it *)
| PPayload (p : nat)    (* caller payload number p *)
| PJunk (n : nat).      (* any other bytes *)

Inductive ctxt :=
| CAead (k : nat) (nonce : nat) (p : ptxt)   (* AEAD seal of p under key material k with nonce *)
| CKms (p : ptxt)                            (* KMS wrap of p under the master key *)
| CMut (c : ctxt) (how : nat)                (* any modification of c (bit flip, truncation, extension) *)
| CJunk (n : nat).                           (* arbitrary bytes *)

Definition ptxt_eqb (a b : ptxt) : bool :=
  match a, b with
  | PKey x, PKey y => Nat.eqb x y
  | PPayload x, PPayload y => Nat.eqb x y
  | PJunk x, PJunk y => Nat.eqb x y
  | _, _ => false
  end.

Fixpoint ctxt_eqb (a b : ctxt) : bool :=
  match a, b with
  | CAead k n p, CAead k' n' p' => Nat.eqb k k' && Nat.eqb n n' && ptxt_eqb p p'
  | CKms p, CKms p' => ptxt_eqb p p'
  | CMut c h, CMut c' h' => ctxt_eqb c c' && Nat.eqb h h'
  | CJunk n, CJunk n' => Nat.eqb n n'
  | _, _ => false
  end.

Definition aead_open (key : ptxt) (c : ctxt) : option ptxt :=
  match key, c with
  | PKey k, CAead k' _ p => if Nat.eqb k k' then Some p else None
  | _, _ => None
  end.

Definition kms_open (c : ctxt) : option ptxt :=
  match c with CKms p => Some p | _ => None end.

(* ---- records --------------------------------------------------------------------------------- *)

Record keymeta := { km_id : str; km_created : Z }.

Record ekr := {                    (* EnvelopeKeyRecord *)
  e_revoked : bool;
  e_created : Z;
  e_key : ctxt;
  e_parent : option keymeta }.

Record drr := {                    (* DataRowRecord; Key may be nil *)
  d_key : option ekr;
  d_data : ctxt }.

Definition row : Type := str * Z * ekr.       (* metastore row: id, created, record *)

(* ---- process-local objects --------------------------------------------------------------------- *)

Record secret := { s_mat : ptxt; s_closed : bool }.

(* internal.CryptoKey together with the cachedCryptoKey wrapper's reference count *)
Record kobj := {
  ko_created : Z;
  ko_secret : nat;
  ko_revoked : bool;
  ko_once : bool;      (* CryptoKey.Close already ran *)
  ko_refs : Z }.

(* ---- errors, events ------------------------------------------------------------------------------ *)

Inductive err := ErrMeta | ErrKms | ErrAead | ErrSecret | ErrClosed | ErrInvalid | ErrPanic.

Inductive mres := MNone | MSome (created : Z) (revoked : bool) | MErr.
Inductive sres := StTrue | StFalse | StDup | StErr | StErrAfter (wrote : bool).

Inductive event :=
| EvMLoad (id : str) (created : Z) (r : mres)
| EvMLoadLatest (id : str) (r : mres)
| EvMStore (id : str) (created : Z) (parent : option keymeta) (r : sres)
| EvKEnc (ok : bool)
| EvKDec (ok : bool)
| EvAEnc (key : ptxt) (nonce : nat) (p : ptxt) (ok : bool)
| EvADec (key : ptxt) (ok : bool)
| EvSNew (sid : nat) (mat : ptxt) (ok : bool)
| EvSRand (sid : nat) (ok : bool)
| EvSClose (sid : nat)
| EvSUseClosed (sid : nat).

(* fault kinds for one boundary call *)
Inductive fault := FErr | FDup | FErrAfter.

(* ---- key caches, sessions, factories (process-local state) ------------------------------------- *)

Record centry := { ce_loaded : Z; ce_key : nat }.          (* cacheEntry: loadedAt, key object *)

Inductive backing :=
| BSimple (m : list (str * centry))                          (* simpleCache: never evicts *)
| BCache (c : Generic.cache str centry).                     (* pkg/cache with a policy *)

Record keycache := { kc_backing : backing; kc_latest : list (str * keymeta) }.

Record cachepol := { cp_kind : option polkind; cp_cap : Z }. (* None = "simple" *)

Record policy := {
  p_expire : Z; p_rci : Z; p_precision : Z;
  p_cache_sk : bool; p_cache_ik : bool; p_shared_ik : bool;
  p_sk_pol : cachepol; p_ik_pol : cachepol;
  p_cache_sessions : bool; p_sess_cap : Z; p_sess_dur : Z; p_sess_kind : polkind }.

Record session := {
  ss_factory : nat;
  ss_part : Partition.partition;
  ss_ik : option nat;        (* its intermediate-key cache (None = neverCache) *)
  ss_own_ik : bool;          (* false when the factory's shared IK cache is used *)
  ss_cached : bool;          (* wrapped by sharedEncryption (session cache) *)
  ss_usage : Z;              (* sharedEncryption.accessCounter *)
  ss_evicted : bool;         (* Remove() has been spawned for it *)
  ss_torn : bool }.          (* underlying envelopeEncryption.Close ran *)

Record factory := {
  fa_policy : policy; fa_svc : str; fa_prod : str; fa_suffix : option str;
  fa_sk : option nat;                          (* system key cache (None = neverCache) *)
  fa_ik : option nat;                          (* shared IK cache *)
  fa_scache : option (Generic.cache str nat) } (* session cache: partition id -> session *).

(* ---- the world ------------------------------------------------------------------------------------- *)

Record world := {
  w_now : Z;                          (* nanoseconds since the Unix epoch *)
  w_store : list row;                 (* metastore, insertion order *)
  w_secrets : list secret;            (* index = secret id *)
  w_kobjs : list kobj;                (* index = key object id *)
  w_nonce : nat;                      (* AEAD encrypt calls so far *)
  w_calls : nat;                      (* boundary calls made by the current operation *)
  w_faults : list (nat * fault);      (* fault plan of the current operation: call index -> kind *)
  w_trace : list event;               (* events of the current operation, newest first *)
  w_caches : list keycache;
  w_sessions : list session;
  w_factories : list factory;
}.

Definition M (A : Type) : Type := world -> (err + A) * world.

Definition ret {A} (a : A) : M A := fun w => (inr a, w).
Definition fail {A} (e : err) : M A := fun w => (inl e, w).
Definition bind {A B} (m : M A) (f : A -> M B) : M B :=
  fun w => match m w with
           | (inl e, w') => (inl e, w')
           | (inr a, w') => f a w'
           end.
(* run m, then always run the cleanup (a Go defer), keeping m's outcome *)
Definition finally {A} (m : M A) (cleanup : M unit) : M A :=
  fun w => match m w with
           | (r, w') => (r, snd (cleanup w'))
           end.
(* observe the outcome instead of propagating the error *)
Definition try_ {A} (m : M A) : M (err + A) := fun w => match m w with (r, w') => (inr r, w') end.

Notation "x <- m ;; f" := (bind m (fun x => f)) (at level 61, m at next level, right associativity).
Notation "m ;;; f" := (bind m (fun _ => f)) (at level 61, right associativity).

Definition upd (f : world -> world) : M unit := fun w => (inr tt, f w).
Definition gets {A} (f : world -> A) : M A := fun w => (inr (f w), w).

Definition with_now x w := {| w_now := x; w_store := w_store w; w_secrets := w_secrets w; w_kobjs := w_kobjs w; w_nonce := w_nonce w; w_calls := w_calls w; w_faults := w_faults w; w_trace := w_trace w; w_caches := w_caches w; w_sessions := w_sessions w; w_factories := w_factories w |}.
Definition with_store x w := {| w_now := w_now w; w_store := x; w_secrets := w_secrets w; w_kobjs := w_kobjs w; w_nonce := w_nonce w; w_calls := w_calls w; w_faults := w_faults w; w_trace := w_trace w; w_caches := w_caches w; w_sessions := w_sessions w; w_factories := w_factories w |}.
Definition with_secrets x w := {| w_now := w_now w; w_store := w_store w; w_secrets := x; w_kobjs := w_kobjs w; w_nonce := w_nonce w; w_calls := w_calls w; w_faults := w_faults w; w_trace := w_trace w; w_caches := w_caches w; w_sessions := w_sessions w; w_factories := w_factories w |}.
Definition with_kobjs x w := {| w_now := w_now w; w_store := w_store w; w_secrets := w_secrets w; w_kobjs := x; w_nonce := w_nonce w; w_calls := w_calls w; w_faults := w_faults w; w_trace := w_trace w; w_caches := w_caches w; w_sessions := w_sessions w; w_factories := w_factories w |}.
Definition with_nonce x w := {| w_now := w_now w; w_store := w_store w; w_secrets := w_secrets w; w_kobjs := w_kobjs w; w_nonce := x; w_calls := w_calls w; w_faults := w_faults w; w_trace := w_trace w; w_caches := w_caches w; w_sessions := w_sessions w; w_factories := w_factories w |}.
Definition with_calls x w := {| w_now := w_now w; w_store := w_store w; w_secrets := w_secrets w; w_kobjs := w_kobjs w; w_nonce := w_nonce w; w_calls := x; w_faults := w_faults w; w_trace := w_trace w; w_caches := w_caches w; w_sessions := w_sessions w; w_factories := w_factories w |}.
Definition with_faults x w := {| w_now := w_now w; w_store := w_store w; w_secrets := w_secrets w; w_kobjs := w_kobjs w; w_nonce := w_nonce w; w_calls := w_calls w; w_faults := x; w_trace := w_trace w; w_caches := w_caches w; w_sessions := w_sessions w; w_factories := w_factories w |}.
Definition with_trace x w := {| w_now := w_now w; w_store := w_store w; w_secrets := w_secrets w; w_kobjs := w_kobjs w; w_nonce := w_nonce w; w_calls := w_calls w; w_faults := w_faults w; w_trace := x; w_caches := w_caches w; w_sessions := w_sessions w; w_factories := w_factories w |}.
Definition with_caches x w := {| w_now := w_now w; w_store := w_store w; w_secrets := w_secrets w; w_kobjs := w_kobjs w; w_nonce := w_nonce w; w_calls := w_calls w; w_faults := w_faults w; w_trace := w_trace w; w_caches := x; w_sessions := w_sessions w; w_factories := w_factories w |}.
Definition with_sessions x w := {| w_now := w_now w; w_store := w_store w; w_secrets := w_secrets w; w_kobjs := w_kobjs w; w_nonce := w_nonce w; w_calls := w_calls w; w_faults := w_faults w; w_trace := w_trace w; w_caches := w_caches w; w_sessions := x; w_factories := w_factories w |}.
Definition with_factories x w := {| w_now := w_now w; w_store := w_store w; w_secrets := w_secrets w; w_kobjs := w_kobjs w; w_nonce := w_nonce w; w_calls := w_calls w; w_faults := w_faults w; w_trace := w_trace w; w_caches := w_caches w; w_sessions := w_sessions w; w_factories := x |}.

Definition emit (e : event) : M unit := upd (fun w => with_trace (e :: w_trace w) w).

Fixpoint fault_at (n : nat) (l : list (nat * fault)) : option fault :=
  match l with
  | [] => None
  | (i, f) :: r => if Nat.eqb i n then Some f else fault_at n r
  end.

(* every boundary call takes the next call index and may be told to fail *)
Definition next_call : M (option fault) :=
  fun w => (inr (fault_at (w_calls w) (w_faults w)), with_calls (S (w_calls w)) w).

Definition get_now : M Z := gets w_now.
Definition set_store (s : list row) : M unit := upd (with_store s).
Definition set_secrets (s : list secret) : M unit := upd (with_secrets s).
Definition set_kobjs (s : list kobj) : M unit := upd (with_kobjs s).
Definition bump_nonce : M nat := fun w => (inr (w_nonce w), with_nonce (S (w_nonce w)) w).
Definition get_store : M (list row) := gets w_store.
Definition get_secrets : M (list secret) := gets w_secrets.
Definition get_kobjs : M (list kobj) := gets w_kobjs.

Fixpoint set_nth {A} (n : nat) (x : A) (l : list A) : list A :=
  match l, n with
  | [], _ => []
  | _ :: r, O => x :: r
  | y :: r, S n' => y :: set_nth n' x r
  end.

(* ---- metastore (insert-only table; C13 is about the implementations behind this interface) ------- *)

Fixpoint store_find (id : str) (created : Z) (s : list row) : option ekr :=
  match s with
  | [] => None
  | (i, c, r) :: t => if str_eqb i id && (c =? created) then Some r else store_find id created t
  end.

Fixpoint store_latest (id : str) (s : list row) (best : option (Z * ekr)) : option (Z * ekr) :=
  match s with
  | [] => best
  | (i, c, r) :: t =>
      if str_eqb i id then
        store_latest id t (match best with
                           | Some (bc, _) => if bc <? c then Some (c, r) else best
                           | None => Some (c, r)
                           end)
      else store_latest id t best
  end.

Definition mres_of (r : option ekr) : mres :=
  match r with None => MNone | Some e => MSome (e_created e) (e_revoked e) end.

Definition m_load (id : str) (created : Z) : M (option ekr) :=
  f <- next_call ;;
  match f with
  | Some _ => emit (EvMLoad id created MErr) ;;; fail ErrMeta
  | None => s <- get_store ;;
            let r := store_find id created s in
            emit (EvMLoad id created (mres_of r)) ;;; ret r
  end.

Definition m_load_latest (id : str) : M (option ekr) :=
  f <- next_call ;;
  match f with
  | Some _ => emit (EvMLoadLatest id MErr) ;;; fail ErrMeta
  | None => s <- get_store ;;
            let r := option_map snd (store_latest id s None) in
            emit (EvMLoadLatest id (mres_of r)) ;;; ret r
  end.

(* atomic insert-if-absent on the table *)
Definition store_insert (id : str) (created : Z) (r : ekr) : M bool :=
  fun w => match store_find id created (w_store w) with
           | Some _ => (inr false, w)
           | None => (inr true, with_store (w_store w ++ [(id, created, r)]) w)
           end.

(* Store returns (success, err).  The caller (tryStore) ignores err. *)
Definition m_store (id : str) (created : Z) (r : ekr) : M bool :=
  f <- next_call ;;
  match f with
  | Some FErr => emit (EvMStore id created (e_parent r) StErr) ;;; ret false
  | Some FDup => emit (EvMStore id created (e_parent r) StDup) ;;; ret false
  | Some FErrAfter =>
      wrote <- store_insert id created r ;;
      emit (EvMStore id created (e_parent r) (StErrAfter wrote)) ;;; ret false
  | None =>
      wrote <- store_insert id created r ;;
      emit (EvMStore id created (e_parent r) (if wrote then StTrue else StFalse)) ;;; ret wrote
  end.

(* ---- KMS and AEAD ---------------------------------------------------------------------------------- *)

Definition kms_encrypt (p : ptxt) : M ctxt :=
  f <- next_call ;;
  match f with
  | Some _ => emit (EvKEnc false) ;;; fail ErrKms
  | None => emit (EvKEnc true) ;;; ret (CKms p)
  end.

Definition kms_decrypt (c : ctxt) : M ptxt :=
  f <- next_call ;;
  match f with
  | Some _ => emit (EvKDec false) ;;; fail ErrKms
  | None => match kms_open c with
            | Some p => emit (EvKDec true) ;;; ret p
            | None => emit (EvKDec false) ;;; fail ErrKms
            end
  end.

Definition aead_encrypt (p key : ptxt) : M ctxt :=
  f <- next_call ;;
  match f with
  | Some _ => emit (EvAEnc key 0 p false) ;;; fail ErrAead
  | None =>
      match key with
      | PKey k => n <- bump_nonce ;; emit (EvAEnc key n p true) ;;; ret (CAead k n p)
      | _ => emit (EvAEnc key 0 p false) ;;; fail ErrAead     (* not a 32-byte AES key *)
      end
  end.

Definition aead_decrypt (c : ctxt) (key : ptxt) : M ptxt :=
  f <- next_call ;;
  match f with
  | Some _ => emit (EvADec key false) ;;; fail ErrAead
  | None => match aead_open key c with
            | Some p => emit (EvADec key true) ;;; ret p
            | None => emit (EvADec key false) ;;; fail ErrAead
            end
  end.

(* ---- secrets (protected memory) -------------------------------------------------------------------- *)

(* atomic allocation in the secret table; returns the new secret's number *)
Definition secret_alloc (mat : ptxt) : M nat :=
  fun w => (inr (length (w_secrets w)), with_secrets (w_secrets w ++ [{| s_mat := mat; s_closed := false |}]) w).

Definition secret_count : M nat := gets (fun w => length (w_secrets w)).

Definition secret_new (mat : ptxt) : M nat :=
  f <- next_call ;;
  match f with
  | Some _ => n <- secret_count ;; emit (EvSNew n mat false) ;;; fail ErrSecret
  | None => sid <- secret_alloc mat ;; emit (EvSNew sid mat true) ;;; ret sid
  end.

Definition secret_random : M nat :=
  f <- next_call ;;
  match f with
  | Some _ => n <- secret_count ;; emit (EvSRand n false) ;;; fail ErrSecret
  | None => n <- secret_count ;; sid <- secret_alloc (PKey n) ;; emit (EvSRand sid true) ;;; ret sid
  end.

(* atomic: mark a secret closed; false if there is no such secret *)
Definition secret_mark_closed (sid : nat) : M bool :=
  fun w => match nth_error (w_secrets w) sid with
           | Some sc => (inr true, with_secrets (set_nth sid {| s_mat := s_mat sc; s_closed := true |} (w_secrets w)) w)
           | None => (inr false, w)
           end.

Definition secret_close (sid : nat) : M unit :=
  ok <- secret_mark_closed sid ;;
  if ok then emit (EvSClose sid) else ret tt.

(* WithBytesFunc: the key material, or "secret has already been destroyed" *)
Definition secret_bytes (sid : nat) : M ptxt :=
  ss <- get_secrets ;;
  match nth_error ss sid with
  | Some sc => if s_closed sc then emit (EvSUseClosed sid) ;;; fail ErrClosed else ret (s_mat sc)
  | None => fail ErrPanic
  end.

(* ---- key objects ------------------------------------------------------------------------------------ *)

Definition kobj_get (k : nat) : M kobj :=
  ks <- get_kobjs ;;
  match nth_error ks k with Some o => ret o | None => fail ErrPanic end.

(* atomic allocation of a key object *)
Definition kobj_alloc (o : kobj) : M nat :=
  fun w => (inr (length (w_kobjs w)), with_kobjs (w_kobjs w ++ [o]) w).

(* atomic read-modify-write of one key object; returns the value before the update *)
Definition kobj_modify (k : nat) (g : kobj -> kobj) : M kobj :=
  fun w => match nth_error (w_kobjs w) k with
           | Some o => (inr o, with_kobjs (set_nth k (g o) (w_kobjs w)) w)
           | None => (inl ErrPanic, w)
           end.

Definition ko_with_once (b : bool) (o : kobj) : kobj :=
  {| ko_created := ko_created o; ko_secret := ko_secret o; ko_revoked := ko_revoked o; ko_once := b; ko_refs := ko_refs o |}.
Definition ko_with_refs (f : Z -> Z) (o : kobj) : kobj :=
  {| ko_created := ko_created o; ko_secret := ko_secret o; ko_revoked := ko_revoked o; ko_once := ko_once o; ko_refs := f (ko_refs o) |}.
Definition ko_with_revoked (b : bool) (o : kobj) : kobj :=
  {| ko_created := ko_created o; ko_secret := ko_secret o; ko_revoked := b; ko_once := ko_once o; ko_refs := ko_refs o |}.

(* internal.CryptoKey.Close: once *)
Definition ck_close (k : nat) : M unit :=
  o <- kobj_modify k (ko_with_once true) ;;
  if ko_once o then ret tt else secret_close (ko_secret o).

(* cachedCryptoKey.Close: drop one reference, destroy at zero *)
Definition cck_close (k : nat) : M unit :=
  o <- kobj_modify k (ko_with_refs (fun r => r - 1)) ;;
  if ko_refs o - 1 >? 0 then ret tt else ck_close k.

Definition cck_increment (k : nat) : M unit :=
  kobj_modify k (ko_with_refs (fun r => r + 1)) ;;; ret tt.

Definition ck_set_revoked (k : nat) (b : bool) : M unit :=
  kobj_modify k (ko_with_revoked b) ;;; ret tt.

(* newCachedCryptoKey: the wrapper starts with the cache's own reference *)
Definition cck_wrap (k : nat) : M unit :=
  kobj_modify k (ko_with_refs (fun _ => 1)) ;;; ret tt.

Definition key_bytes (k : nat) : M ptxt := o <- kobj_get k ;; secret_bytes (ko_secret o).

(* internal.NewCryptoKey: the factory copies and wipes the buffer; on failure the buffer is wiped too *)
Definition new_crypto_key (created : Z) (revoked : bool) (mat : ptxt) : M nat :=
  sid <- secret_new mat ;;
  kobj_alloc {| ko_created := created; ko_secret := sid; ko_revoked := revoked; ko_once := false; ko_refs := 0 |}.

(* internal.GenerateKey *)
Definition generate_key (created : Z) : M nat :=
  sid <- secret_random ;;
  kobj_alloc {| ko_created := created; ko_secret := sid; ko_revoked := false; ko_once := false; ko_refs := 0 |}.

(* ---- time --------------------------------------------------------------------------------------------- *)

Definition sec : Z := 1000000000.
(* Go's Time.Truncate rounds down relative to the zero time (year 1), 62135596800 s before the Unix epoch *)
Definition go_zero_offset : Z := 62135596800 * sec.

Definition new_key_timestamp (now precision : Z) : Z :=
  if precision >? 0 then (now - ((now + go_zero_offset) mod precision)) / sec else now / sec.

(* internal.IsKeyExpired: now.After(created + expireAfter) *)
Definition is_key_expired (now created expire_after : Z) : bool := created * sec + expire_after <? now.
