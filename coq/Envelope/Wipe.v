(* C10: the wipe discipline of the key-unwrapping sites, as straight-line programs over a table of heap buffers.  Every step
   after a plaintext key exists may fail (booleans / oracles below are arbitrary); the theorems say that on EVERY path every
   buffer that held key plaintext is zeroed when the function returns, except the one buffer handed to the caller, which the
   caller passes to NewCryptoKey (wiped there on success AND on failure).
   Sites: envelope.go decryptRow, systemKeyFromEKR, intermediateKeyFromEKR, internal/key.go NewCryptoKey, and
   plugins/aws-v1/kms + aws-v2/kms EncryptKey / DecryptKey. *)
From Coq Require Import List Bool Arith.
Import ListNotations.

(* buffer table: true = still holds key plaintext *)
Definition bufs := list bool.
Definition alloc (t : bufs) : nat * bufs := (length t, t ++ [true]).
Fixpoint wipe (b : nat) (t : bufs) : bufs :=
  match t, b with
  | [], _ => []
  | _ :: r, O => false :: r
  | x :: r, S b' => x :: wipe b' r
  end.
Definition all_clean (t : bufs) : Prop := forallb negb t = true.
Definition clean_except (keep : nat) (t : bufs) : Prop := forall i, i <> keep -> nth i t false = false.

Lemma wipe_length b t : length (wipe b t) = length t.
Proof. revert b; induction t as [|x t IH]; intros [|b]; cbn; try reflexivity. f_equal. apply IH. Qed.

Lemma nth_wipe i b t : nth i (wipe b t) false = if Nat.eqb i b then false else nth i t false.
Proof.
  revert i b; induction t as [|x t IH]; intros i b.
  - destruct b, i; cbn; try reflexivity; destruct (Nat.eqb i b); reflexivity.
  - destruct b as [|b]; destruct i as [|i]; cbn [wipe nth Nat.eqb]; try reflexivity. apply IH.
Qed.

Lemma all_clean_nth t : all_clean t <-> forall i, nth i t false = false.
Proof.
  unfold all_clean. induction t as [|x t IH]; cbn.
  - split; [intros _ i; destruct i; reflexivity | reflexivity].
  - rewrite andb_true_iff, IH. split.
    + intros [H1 H2] [|i]; [destruct x; [discriminate | reflexivity] | apply H2].
    + intro H. split; [specialize (H O); cbn in H; rewrite H; reflexivity | intro i; apply (H (S i))].
Qed.

Lemma nth_snoc_true i t : nth i (t ++ [true]) false = if Nat.eqb i (length t) then true else nth i t false.
Proof.
  revert i; induction t as [|x t IH]; intro i.
  - destruct i as [|[|i]]; reflexivity.
  - destruct i as [|i]; cbn [app nth length Nat.eqb]; [reflexivity | apply IH].
Qed.

Lemma wipe_last t : all_clean t -> all_clean (wipe (length t) (t ++ [true])).
Proof.
  rewrite !all_clean_nth. intros H i. rewrite nth_wipe, nth_snoc_true. destruct (Nat.eqb i (length t)); [reflexivity | apply H].
Qed.

(* NewCryptoKey(buf): SecretFactory.New copies and wipes; if it fails before copying, NewCryptoKey wipes (internal/key.go) *)
Definition new_crypto_key (factory_fails : bool) (b : nat) (t : bufs) : bool * bufs := (negb factory_fails, wipe b t).

(* decryptRow: rawDrk := Decrypt(key) ; defer MemClr(rawDrk) ; Decrypt(data) *)
Definition decrypt_row (key_fails data_fails : bool) (t : bufs) : bool * bufs :=
  if key_fails then (false, t)
  else let '(b, t1) := alloc t in (negb data_fails, wipe b t1).

(* systemKeyFromEKR / intermediateKeyFromEKR: bytes := KMS.DecryptKey or AEAD.Decrypt ; NewCryptoKey(bytes) *)
Definition key_from_ekr (unwrap_fails factory_fails : bool) (t : bufs) : bool * bufs :=
  if unwrap_fails then (false, t)
  else let '(b, t1) := alloc t in new_crypto_key factory_fails b t1.

(* intermediateKeyFromEKR in full: WithKeyFunc(sk, Decrypt) can hand back the decrypted key TOGETHER WITH an error (the system key's
   secret failed to re-protect its memory after the callback); the buffer is wiped on that path too (fix M) *)
Definition ik_from_ekr (unwrap_fails release_fails factory_fails : bool) (t : bufs) : bool * bufs :=
  if unwrap_fails then (false, t)
  else let '(b, t1) := alloc t in
       if release_fails then (false, wipe b t1) else new_crypto_key factory_fails b t1.

(* the code before fix M: the error path returned without touching the buffer *)
Definition ik_from_ekr_before_fix (unwrap_fails release_fails factory_fails : bool) (t : bufs) : bool * bufs :=
  if unwrap_fails then (false, t)
  else let '(b, t1) := alloc t in
       if release_fails then (false, t1) else new_crypto_key factory_fails b t1.

(* AWS DecryptKey: for each configured region with an entry: KMS.Decrypt -> data key plaintext; AEAD decrypt of the system
   key with it; MemClr(data key) in every case; a successful AEAD decrypt returns the system key buffer to the caller *)
Fixpoint aws_decrypt_key (regions : list (bool * bool)) (t : bufs) : option nat * bufs :=
  match regions with
  | [] => (None, t)
  | (kms_ok, aead_ok) :: r =>
      if negb kms_ok then aws_decrypt_key r t
      else
        let '(dk, t1) := alloc t in
        if aead_ok then let '(sk, t2) := alloc t1 in (Some sk, wipe dk t2)
        else aws_decrypt_key r (wipe dk t1)
  end.

(* AWS EncryptKey: GenerateDataKey -> plaintext ; defer MemClr(plaintext) ; AEAD encrypt ; regional wraps ; marshal *)
Definition aws_encrypt_key (generate_fails aead_fails marshal_fails : bool) (t : bufs) : bool * bufs :=
  if generate_fails then (false, t)
  else let '(dk, t1) := alloc t in (negb (aead_fails || marshal_fails), wipe dk t1).

Theorem decrypt_row_wipes k d t : all_clean t -> all_clean (snd (decrypt_row k d t)).
Proof. intro H. unfold decrypt_row, alloc. destruct k; cbn [snd]; [exact H | apply wipe_last; exact H]. Qed.

Theorem key_from_ekr_wipes u f t : all_clean t -> all_clean (snd (key_from_ekr u f t)).
Proof. intro H. unfold key_from_ekr, alloc, new_crypto_key. destruct u; cbn [snd]; [exact H | apply wipe_last; exact H]. Qed.

Theorem ik_from_ekr_wipes u r f t : all_clean t -> all_clean (snd (ik_from_ekr u r f t)).
Proof.
  intro H. unfold ik_from_ekr, new_crypto_key, alloc. destruct u; [exact H|]. destruct r; cbn [snd]; apply wipe_last; exact H.
Qed.

Theorem ik_from_ekr_before_fix_refuted : exists u r f t, all_clean t /\ ~ all_clean (snd (ik_from_ekr_before_fix u r f t)).
Proof. exists false, true, false, []. split; [reflexivity | vm_compute; discriminate]. Qed.

Theorem aws_encrypt_key_wipes g a m t : all_clean t -> all_clean (snd (aws_encrypt_key g a m t)).
Proof. intro H. unfold aws_encrypt_key, alloc. destruct g; cbn [snd]; [exact H | apply wipe_last; exact H]. Qed.

(* every data-key buffer is wiped; the only buffer that may still hold plaintext is the returned system key *)
Theorem aws_decrypt_key_wipes regions : forall t, all_clean t ->
  match aws_decrypt_key regions t with
  | (None, t') => all_clean t'
  | (Some sk, t') => forall i, i <> sk -> nth i t' false = false
  end.
Proof.
  induction regions as [|[k a] r IH]; intros t H; cbn [aws_decrypt_key].
  - exact H.
  - destruct k; cbn [negb]; [|apply IH; exact H].
    unfold alloc. destruct a.
    + intros i Hi. rewrite nth_wipe, nth_snoc_true, nth_snoc_true. rewrite app_length in *. cbn [length] in *.
      destruct (Nat.eqb i (length t)) eqn:E1; [reflexivity|].
      destruct (Nat.eqb i (length t + 1)) eqn:E2; [apply Nat.eqb_eq in E2; contradiction|].
      apply all_clean_nth. exact H.
    + apply IH. apply wipe_last. exact H.
Qed.
