(* "A fresh process holding only the metastore contents and the KMS can decrypt the record" (C02), by symbolic
   execution of the model: the process has empty tables (no secrets, no key objects, no caches) and runs
   DecryptDataRowRecord with caching disabled; the metastore is ANY table in which the record is genuine
   (Coherent.genuine: its intermediate key row and that row's system key row are present and sealed as the SDK seals
   them).  With Coherent.records_durable this closes C02's chain: every record any Encrypt ever returned, in any
   history, is opened by such a process. *)
From Asherah Require Import Envelope.Session Envelope.Coherent Envelope.PartitionProofs.

Section F.
Variables svc prod : str.

Definition fresh_world (st : list row) (now : Z) : world :=
  {| w_now := now; w_store := st; w_secrets := []; w_kobjs := []; w_nonce := 0; w_calls := 0; w_faults := []; w_trace := [];
     w_caches := []; w_sessions := []; w_factories := [] |}.

(* envelopeEncryption of a session of partition pid with CachePolicy "never" for both key levels *)
Definition nocache_env (pid : str) (pol : policy) : env :=
  {| en_part := {| p_id := pid; p_svc := svc; p_prod := prod; p_suffix := None |}; en_pol := pol; en_sk := None; en_ik := None |}.

Ltac ev := cbv -[IKid SKid store_find Nat.eqb Z.eqb Z.add Z.sub Z.gtb]; rewrite ?Z.eqb_refl, ?Nat.eqb_refl;
           try change (1 - 1 >? 0) with false; try change (0 + 1) with 1.

Theorem fresh_process_decrypts st pid d p now pol :
  genuine svc prod st pid d p ->
  fst (decrypt_data_row_record (nocache_env pid pol) d (fresh_world st now)) = inr p.
Proof.
  intros [k [c [ikm [n [dkm [n' [Hk [Hp [[r [c' [skm [n0 [Fr [Cr [Pr [[rsk [Fs [Cs [Ps Ks]]]] Kr]]]]]]]] [Kk Kd]]]]]]]]]].
  destruct d as [dk dd]. cbn [d_key d_data] in *. subst dk dd.
  destruct k as [krev kcr kkey kpar]. cbn [e_parent e_key] in *. subst kpar kkey.
  destruct r as [rrev rcr rkey rpar]. cbn [e_parent e_key e_created] in *. subst rcr rpar rkey.
  destruct rsk as [srev scr skey spar]. cbn [e_parent e_key e_created] in *. subst scr spar skey.
  unfold decrypt_data_row_record, nocache_env. cbn [d_key e_parent en_part en_ik en_sk en_pol is_valid_ik_id p_suffix p_id p_svc p_prod km_id].
  fold (IKid svc prod pid). rewrite str_eqb_refl. cbn [negb].
  ev. rewrite Fr. ev. rewrite Fs. ev. ev. ev. ev. reflexivity.
Qed.

(* every record any Encrypt has returned, in any history, is opened by a fresh process from the metastore as it is then or
   at any later point of the history (ops is arbitrary), whatever was expired, rotated, revoked or evicted meanwhile *)
Theorem every_record_decrypts_in_a_fresh_process t0 ops now pol :
  Forall (benign svc prod) ops ->
  let h := snd (hrun (hinit t0) ops) in
  forall j d, nth_error (h_recs h) j = Some d ->
    exists pid p, fst (decrypt_data_row_record (nocache_env pid pol) d (fresh_world (w_store (h_world h)) now)) = inr p.
Proof.
  intros FB h j d H. destruct (records_durable svc prod t0 ops FB j d H) as [pid [p G]].
  exists pid, p. apply fresh_process_decrypts. exact G.
Qed.

(* ... and what it yields is exactly the payload that was encrypted *)
Theorem encrypted_payload_decrypts_in_a_fresh_process h s payload faults now pol :
  HInv svc prod h ->
  match hstep h (HEncrypt s payload faults) with
  | (OEnc _ _, _, h') =>
      exists d pid, h_recs h' = h_recs h ++ [d] /\
        fst (decrypt_data_row_record (nocache_env pid pol) d (fresh_world (w_store (h_world h')) now)) = inr (PPayload payload)
  | _ => True
  end.
Proof.
  intro HI. pose proof (encrypt_returns_genuine svc prod h s payload faults HI) as X.
  destruct (hstep h (HEncrypt s payload faults)) as [[res ev] h']. destruct res; try exact I.
  destruct X as [d [pid [E G]]]. exists d, pid. split; [exact E | apply fresh_process_decrypts; exact G].
Qed.

End F.
