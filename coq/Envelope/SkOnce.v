(* C20, second clause: "a system key is unwrapped by the KMS at most once per factory per interval however many sessions and partitions
   use it".  Decrypt side: whenever a session of the factory has to LOAD an intermediate key (a new session, a new partition, an
   uncached or stale key) while the factory's system-key cache (the default simple one) holds that key's parent system key loaded at
   most one interval ago, the load makes no KMS call at all - the system key comes out of the cache. *)
From Asherah Require Import Envelope.Session Envelope.Hoare Envelope.CacheCalls Envelope.Local Envelope.FrameInst Envelope.Coherent
  Envelope.PartitionProofs Envelope.Repeat.
From Coq Require Import Lia.
Open Scope Z_scope.

Definition is_kms (e : event) : bool := match e with EvKEnc _ | EvKDec _ => true | _ => false end.
Definition kms (t : list event) : list event := filter is_kms t.

(* caches, clock, key objects as in sameK, and no KMS event added *)
Definition sameM (w w' : world) : Prop := sameK w w' /\ kms (w_trace w') = kms (w_trace w) /\ w_store w' = w_store w.
Lemma sameM_refl w : sameM w w. Proof. split; [apply sameK_refl | split; reflexivity]. Qed.
Lemma sameM_trans a b c : sameM a b -> sameM b c -> sameM a c.
Proof. intros [A1 [A2 A3]] [B1 [B2 B3]]. split; [eapply sameK_trans; eassumption | split; congruence]. Qed.
Definition qM {A} (m : M A) : Prop := qu sameM m.
Lemma qM_ret {A} (a : A) : qM (ret a). Proof. apply (qu_ret sameM sameM_refl). Qed.
Lemma qM_fail {A} e : qM (@fail A e). Proof. apply (qu_fail sameM sameM_refl). Qed.
Lemma qM_gets {A} (f : world -> A) : qM (gets f). Proof. apply (qu_gets sameM sameM_refl). Qed.
Lemma qM_bind {A B} (m : M A) (f : A -> M B) : qM m -> (forall a, qM (f a)) -> qM (bind m f). Proof. apply (qu_bind sameM sameM_trans). Qed.
Lemma qM_finally {A} (m : M A) (c : M unit) : qM m -> qM c -> qM (finally m c). Proof. apply (qu_finally sameM sameM_trans). Qed.
Lemma qM_try {A} (m : M A) : qM m -> qM (try_ m). Proof. apply (qu_try sameM). Qed.
Lemma qM_same (w w' : world) :
  w_caches w' = w_caches w -> w_now w' = w_now w -> w_kobjs w' = w_kobjs w -> w_trace w' = w_trace w -> w_store w' = w_store w -> sameM w w'.
Proof. intros E1 E2 E3 E4 E5. split; [apply qK_same; assumption | rewrite E4; split; [reflexivity | exact E5]]. Qed.
Lemma qM_emit e : is_kms e = false -> qM (emit e).
Proof. intros He w. split; [apply qK_emit|]. split; [|reflexivity]. cbn. unfold kms. cbn [filter]. rewrite He. reflexivity. Qed.
Lemma qM_next_call : qM next_call. Proof. intro w. apply qM_same; reflexivity. Qed.
Lemma qM_bump_nonce : qM bump_nonce. Proof. intro w. apply qM_same; reflexivity. Qed.
Lemma qM_secret_alloc m : qM (secret_alloc m). Proof. intro w. apply qM_same; reflexivity. Qed.
Lemma qM_secret_mark_closed sid : qM (secret_mark_closed sid).
Proof. intro w. unfold secret_mark_closed. destruct (nth_error (w_secrets w) sid); apply qM_same; reflexivity. Qed.
Lemma qM_kobj_alloc o : qM (kobj_alloc o). Proof. intro w. split; [apply qK_kobj_alloc | split; reflexivity]. Qed.
Lemma qM_kobj_modify k g : (forall o, ko_revoked (g o) = ko_revoked o /\ ko_created (g o) = ko_created o) -> qM (kobj_modify k g).
Proof.
  intros Hg w. split; [apply qK_kobj_modify; exact Hg|]. unfold kobj_modify. destruct (nth_error (w_kobjs w) k); split; reflexivity.
Qed.
Global Hint Resolve qM_next_call qM_bump_nonce qM_secret_alloc qM_secret_mark_closed qM_kobj_alloc : qM.
Ltac qM_step :=
  first
    [ solve [auto with qM]
    | apply qM_ret | apply qM_fail | apply qM_gets
    | apply qM_emit; reflexivity
    | apply qM_kobj_modify; intros []; split; reflexivity
    | apply qM_bind; [|intro]
    | apply qM_finally
    | apply qM_try
    | match goal with
      | |- qM (match ?x with _ => _ end) => destruct x
      | |- qM (let '(_, _) := ?x in _) => destruct x
      | |- qM (if ?x then _ else _) => destruct x
      end ].
Ltac qM_go := repeat qM_step.
Lemma qM_get_now : qM get_now. Proof. apply qM_gets. Qed.
Lemma qM_get_store : qM get_store. Proof. apply qM_gets. Qed.
Lemma qM_get_secrets : qM get_secrets. Proof. apply qM_gets. Qed.
Lemma qM_get_kobjs : qM get_kobjs. Proof. apply qM_gets. Qed.
Lemma qM_secret_count : qM secret_count. Proof. apply qM_gets. Qed.
Global Hint Resolve qM_get_now qM_get_store qM_get_secrets qM_get_kobjs qM_secret_count : qM.
Lemma qM_m_load id c : qM (m_load id c). Proof. unfold m_load. qM_go. Qed.
Lemma qM_aead_decrypt c k : qM (aead_decrypt c k). Proof. unfold aead_decrypt. qM_go. Qed.
Lemma qM_secret_new m : qM (secret_new m). Proof. unfold secret_new. qM_go. Qed.
Lemma qM_secret_close sid : qM (secret_close sid). Proof. unfold secret_close. qM_go. Qed.
Lemma qM_secret_bytes sid : qM (secret_bytes sid). Proof. unfold secret_bytes. qM_go. Qed.
Lemma qM_kobj_get k : qM (kobj_get k). Proof. unfold kobj_get. qM_go. Qed.
Global Hint Resolve qM_m_load qM_aead_decrypt qM_secret_new qM_secret_close qM_secret_bytes qM_kobj_get : qM.
Lemma qM_ck_close k : qM (ck_close k). Proof. unfold ck_close. qM_go. Qed.
Global Hint Resolve qM_ck_close : qM.
Lemma qM_cck_close k : qM (cck_close k). Proof. unfold cck_close. qM_go. Qed.
Lemma qM_cck_increment k : qM (cck_increment k). Proof. unfold cck_increment. qM_go. Qed.
Lemma qM_key_bytes k : qM (key_bytes k). Proof. unfold key_bytes. qM_go. Qed.
Lemma qM_new_crypto_key c r m : qM (new_crypto_key c r m). Proof. unfold new_crypto_key. qM_go. Qed.
Global Hint Resolve qM_cck_close qM_cck_increment qM_key_bytes qM_new_crypto_key : qM.

Lemma set_nth_same_id {A} (l : list A) n x : nth_error l n = Some x -> set_nth n x l = l.
Proof. revert n; induction l as [|a l IH]; intros [|n] H; cbn in *; try discriminate; [injection H as ->; reflexivity | rewrite IH by exact H; reflexivity]. Qed.

Lemma with_caches_id w : with_caches (w_caches w) w = w.
Proof. destruct w; reflexivity. Qed.

Section SkOnce.
Variables (sc : nat) (rci : Z) (pm : keymeta) (k : nat).
Hypothesis Hnz : km_created pm <> 0.
Let id := cache_key (km_id pm) (km_created pm).

(* the factory's simple system-key cache holds pm's key fresh: flagged revoked, or loaded at most one interval ago *)
Definition J (w : world) : Prop :=
  exists kc m e o, nth_error (w_caches w) sc = Some kc /\ kc_backing kc = BSimple m /\ assoc_get id m = Some e /\ ce_key e = k /\
                   nth_error (w_kobjs w) k = Some o /\ (ko_revoked o = true \/ w_now w <= ce_loaded e + rci).

Lemma J_sameK w w' : sameK w w' -> J w -> J w'.
Proof.
  intros [E1 [E2 E3]] [kc [m [e [o [A [B [C [D [E F]]]]]]]]]. destruct (E3 k o E) as [o' [E' [R _]]].
  exists kc, m, e, o'. rewrite E1, E2, R. repeat split; assumption.
Qed.

(* under J the cache answers "fresh" without changing anything at all *)
Lemma J_get_fresh w : J w -> kc_get_fresh sc rci pm w = (inr (Some (k, true)), w).
Proof.
  intros [kc [m [e [o [A [B [C [D [E F]]]]]]]]].
  unfold kc_get_fresh. unfold bind at 1. rewrite kc_read_eq, A, (not_latest pm Hnz). cbn zeta. rewrite B. cbn [backing_get fst snd]. fold id. rewrite C.
  assert (set_nth sc {| kc_backing := BSimple m; kc_latest := kc_latest kc |} (w_caches w) = w_caches w) as ->.
  { apply set_nth_same_id. rewrite A. f_equal. destruct kc as [b l]. cbn in B. subst b. reflexivity. }
  rewrite with_caches_id. unfold bind. rewrite reload_required_eq, D, E. cbn [ret]. f_equal. f_equal. f_equal. f_equal.
  destruct F as [F|F]; [rewrite F; reflexivity|].
  destruct (ko_revoked o); [reflexivity|]. destruct (ce_loaded e + rci <? w_now w) eqn:L; [apply Z.ltb_lt in L; lia | reflexivity].
Qed.

(* J is what a successful GetOrLoad on that cache leaves behind (Repeat.v), given that the cache is a simple one *)
Lemma J_of_Fr w kc m : nth_error (w_caches w) sc = Some kc -> kc_backing kc = BSimple m -> Fr sc rci pm k w -> J w.
Proof. intros Hc Hb F. destruct (F kc m Hc Hb) as [e [o [A [B [C D]]]]]. exists kc, m, e, o. repeat split; assumption. Qed.

(* conditional on J: caches, clock, key objects stay and no KMS event is added *)
Definition sameJ (w w' : world) : Prop := J w -> sameM w w'.
Lemma sameJ_refl w : sameJ w w. Proof. intros _. apply sameM_refl. Qed.
Lemma sameJ_trans a b c : sameJ a b -> sameJ b c -> sameJ a c.
Proof. intros H1 H2 Ja. pose proof (H1 Ja) as M1. eapply sameM_trans; [exact M1|]. apply H2. eapply J_sameK; [exact (proj1 M1) | exact Ja]. Qed.
Definition qJ {A} (m : M A) : Prop := qu sameJ m.
Lemma qJ_of_qM {A} (m : M A) : qM m -> qJ m. Proof. intros H w _. apply H. Qed.
Lemma qJ_bind {A B} (m : M A) (f : A -> M B) : qJ m -> (forall a, qJ (f a)) -> qJ (bind m f). Proof. apply (qu_bind sameJ sameJ_trans). Qed.
Lemma qJ_finally {A} (m : M A) (c : M unit) : qJ m -> qJ c -> qJ (finally m c). Proof. apply (qu_finally sameJ sameJ_trans). Qed.

(* GetOrLoad on the system-key cache for pm: under J the loader is never consulted *)
Lemma qJ_get_or_load_sk loader : qJ (get_or_load (Some sc) rci pm loader).
Proof.
  intros w Jw. unfold get_or_load. rewrite (bind_eq _ _ _ _ _ (J_get_fresh w Jw)).
  assert (qM (cck_increment k ;;; ret k)) as Q by qM_go. apply Q.
Qed.

Variable e : env.
Hypothesis Hsk : en_sk e = Some sc.
Hypothesis Hrci : p_rci (en_pol e) = rci.

Lemma qJ_get_or_load_system_key : qJ (get_or_load_system_key e pm).
Proof. unfold get_or_load_system_key. rewrite Hsk, Hrci. apply qJ_get_or_load_sk. Qed.

Lemma qJ_intermediate_key_from_ekr sk r : e_parent r = Some pm -> qJ (intermediate_key_from_ekr e sk r).
Proof.
  intro Hp. unfold intermediate_key_from_ekr. rewrite Hp.
  apply qJ_bind; [apply qJ_of_qM; qM_go|]. intro sko.
  apply qJ_bind.
  - destruct (ko_created sko =? km_created pm); [apply qJ_of_qM; qM_go | apply qJ_get_or_load_system_key].
  - intro sk'. apply qJ_of_qM. qM_go.
Qed.

Lemma m_load_inv i c w ro w2 : m_load i c w = (inr ro, w2) -> ro = store_find i c (w_store w).
Proof.
  unfold m_load. intro H. apply bind_ok in H as [f [w1 [G H]]]. unfold next_call in G. injection G as <- <-.
  destruct (fault_at (w_calls w) (w_faults w)).
  - apply bind_ok in H as [u [w3 [_ H]]]. discriminate H.
  - apply bind_ok in H as [st [w3 [G H]]]. unfold get_store, gets in G. injection G as <- <-.
    apply bind_ok in H as [u [w4 [_ H]]]. unfold ret in H. injection H as <- _. reflexivity.
Qed.

(* loadIntermediateKey for a key whose row names pm as its parent: no KMS call while the system key is fresh in the factory's cache *)
Theorem load_intermediate_key_needs_no_kms meta w :
  J w -> (forall r, store_find (km_id meta) (km_created meta) (w_store w) = Some r -> e_parent r = Some pm) ->
  kms (w_trace (snd (load_intermediate_key e meta w))) = kms (w_trace w).
Proof.
  intros Jw Hrow. unfold load_intermediate_key. unfold bind at 1.
  destruct (m_load (km_id meta) (km_created meta) w) as [[er|ro] w2] eqn:G.
  - pose proof (qu_at sameM _ _ _ _ (qM_m_load _ _) G) as [_ [T _]]. exact T.
  - pose proof (qu_at sameM _ _ _ _ (qM_m_load _ _) G) as [K2 [T2 S2]]. apply m_load_inv in G. subst ro.
    destruct (store_find (km_id meta) (km_created meta) (w_store w)) as [r|] eqn:F; [|exact T2].
    rewrite (Hrow r eq_refl).
    assert (qJ (sk <- get_or_load_system_key e pm ;; finally (intermediate_key_from_ekr e sk r) (cck_close sk))) as Q.
    { apply qJ_bind; [apply qJ_get_or_load_system_key|]. intro sk. apply qJ_finally; [apply qJ_intermediate_key_from_ekr; exact (Hrow r eq_refl) | apply qJ_of_qM; qM_go]. }
    destruct (Q w2 (J_sameK _ _ K2 Jw)) as [_ [T3 _]]. congruence.
Qed.
End SkOnce.

(* Once ANY session of a factory got the system key through the factory's (simple) system-key cache - unwrapping it with the KMS or
   not - every later load of an intermediate key under that system key, by any session env of that factory (another partition, a new
   session), in any world that kept the caches, the clock and the key objects' flags, makes no KMS call. *)
Theorem system_key_unwrapped_at_most_once e pm sc k w w1 :
  en_sk e = Some sc -> km_created pm <> 0 -> 0 <= p_rci (en_pol e) ->
  get_or_load_system_key e pm w = (inr k, w1) ->
  forall w2 kc m, sameK w1 w2 -> nth_error (w_caches w2) sc = Some kc -> kc_backing kc = BSimple m ->
  forall e2 meta, en_sk e2 = Some sc -> p_rci (en_pol e2) = p_rci (en_pol e) ->
    (forall r, store_find (km_id meta) (km_created meta) (w_store w2) = Some r -> e_parent r = Some pm) ->
    kms (w_trace (snd (load_intermediate_key e2 meta w2))) = kms (w_trace w2).
Proof.
  intros Hsk Hnz Hrci G w2 kc m K Hc Hb e2 meta Hsk2 Hr2 Hrow.
  unfold get_or_load_system_key in G. rewrite Hsk in G.
  pose proof (get_or_load_post sc (p_rci (en_pol e)) pm Hnz Hrci load_system_key w k w1 G) as F.
  pose proof (Fr_sameK sc (p_rci (en_pol e)) pm k w1 w2 K F) as F2.
  apply (load_intermediate_key_needs_no_kms sc (p_rci (en_pol e)) pm k Hnz e2 Hsk2 Hr2 meta w2); [|exact Hrow].
  eapply J_of_Fr; eassumption.
Qed.

(* in a reachable history: a writer factory encrypts for partitions p and q (one system key); a cold reader factory decrypts p's record
   (the system key is unwrapped: one KMS decrypt), then - in a new session, for the other partition - q's record: no KMS call *)
From Asherah Require Envelope.Rotation.
Definition sk_once_ops : list hop :=
  [HNewFactory Rotation.pol100 (s "svc") (s "prod") None; HGetSession 0 (s "p"); HEncrypt 0 5 []; HGetSession 0 (s "q"); HEncrypt 1 6 [];
   HNewFactory Rotation.pol100 (s "svc") (s "prod") None; HGetSession 1 (s "p"); HGetSession 1 (s "q")].
Definition sk_once_check : bool :=
  let h := snd (hrun (hinit Rotation.t0) sk_once_ops) in
  let st1 := hstep h (HDecrypt 2 0 [] []) in
  let st2 := hstep (snd st1) (HDecrypt 3 1 [] []) in
  match fst (fst st1), fst (fst st2) with
  | ODec (Some 5%nat), ODec (Some 6%nat) =>
      Nat.eqb (length (kms (snd (fst st1)))) 1 && Nat.eqb (length (kms (snd (fst st2)))) 0 &&
      negb (Nat.eqb (length (filter is_ext (snd (fst st2)))) 0)      (* q's intermediate key row IS read from the metastore *)
  | _, _ => false
  end.
Example system_key_unwrapped_once_met : sk_once_check = true.
Proof. vm_compute. reflexivity. Qed.

(* ================================================================================================================================
   Encrypt side: a session that has to find or CREATE an intermediate key (a new partition, an expired key) while the factory's simple
   system-key cache holds the latest system key fresh and valid makes no KMS call either. *)
Lemma qM_aead_encrypt p k : qM (aead_encrypt p k). Proof. unfold aead_encrypt. qM_go. Qed.
Lemma qM_secret_random : qM secret_random. Proof. unfold secret_random. qM_go. Qed.
Global Hint Resolve qM_aead_encrypt qM_secret_random : qM.
Lemma qM_generate_key c : qM (generate_key c). Proof. unfold generate_key. qM_go. Qed.
Global Hint Resolve qM_generate_key : qM.
Lemma qM_generate_key_now e : qM (generate_key_now e). Proof. unfold generate_key_now. qM_go. Qed.
Lemma qM_m_load_latest id : qM (m_load_latest id). Proof. unfold m_load_latest. qM_go. Qed.
Lemma qM_is_key_invalid k ex : qM (is_key_invalid k ex). Proof. unfold is_key_invalid. qM_go. Qed.
Lemma qM_is_envelope_invalid e r : qM (is_envelope_invalid e r). Proof. unfold is_envelope_invalid. qM_go. Qed.
Global Hint Resolve qM_generate_key_now qM_m_load_latest qM_is_key_invalid qM_is_envelope_invalid : qM.

Lemma m_load_latest_inv i w ro w2 : m_load_latest i w = (inr ro, w2) -> ro = option_map snd (store_latest i (w_store w) None).
Proof.
  unfold m_load_latest. intro H. apply bind_ok in H as [f [w1 [G H]]]. unfold next_call in G. injection G as <- <-.
  destruct (fault_at (w_calls w) (w_faults w)).
  - apply bind_ok in H as [u [w3 [_ H]]]. discriminate H.
  - apply bind_ok in H as [st [w3 [G H]]]. unfold get_store, gets in G. injection G as <- <-.
    apply bind_ok in H as [u [w4 [_ H]]]. unfold ret in H. injection H as <- _. reflexivity.
Qed.

Section SkOnceEnc.
Variables (sc : nat) (k : nat) (e : env) (l : keymeta).
Hypothesis Hsk : en_sk e = Some sc.
Hypothesis Hlnz : km_created l <> 0.
Hypothesis Hlid : km_id l = sk_id e.
Let rci := p_rci (en_pol e).
Let ex := p_expire (en_pol e).
Let akey := cache_key (sk_id e) 0.
Let idl := cache_key (km_id l) (km_created l).

(* the factory's simple system-key cache: its `latest` alias points at l, whose key object k is cached, not revoked, not expired, and was
   loaded at most one interval ago *)
Definition JL (w : world) : Prop :=
  exists kc m e0 o, nth_error (w_caches w) sc = Some kc /\ kc_backing kc = BSimple m /\
    assoc_get akey (kc_latest kc) = Some l /\ assoc_get idl m = Some e0 /\ ce_key e0 = k /\
    nth_error (w_kobjs w) k = Some o /\ ko_created o = km_created l /\
    ko_revoked o = false /\ w_now w <= ce_loaded e0 + rci /\ is_key_expired (w_now w) (ko_created o) ex = false.
(* every stored intermediate key of this partition names l as its parent *)
Definition HR (w : world) : Prop := forall c r, store_find (ik_id e) c (w_store w) = Some r -> e_parent r = Some l.

Lemma JL_sameK w w' : sameK w w' -> JL w -> JL w'.
Proof.
  intros [E1 [E2 E3]] [kc [m [e0 [o [A [B [C [D [E [F [G [H [I K]]]]]]]]]]]]]. destruct (E3 k o F) as [o' [F' [R Cr]]].
  exists kc, m, e0, o'. rewrite E1, E2, R, Cr. repeat split; assumption.
Qed.
Lemma JL_J w : JL w -> J sc rci l k w.
Proof.
  intros [kc [m [e0 [o [A [B [C [D [E [F [G [H [I K]]]]]]]]]]]]]. exists kc, m, e0, o. repeat split; try assumption. right. exact I.
Qed.

Lemma JL_get_fresh_latest w : JL w -> kc_get_fresh sc rci {| km_id := sk_id e; km_created := 0 |} w = (inr (Some (k, true)), w).
Proof.
  intros [kc [m [e0 [o [A [B [C [D [E [F [G [H [I K]]]]]]]]]]]]].
  unfold kc_get_fresh. unfold bind at 1. rewrite kc_read_eq, A. change (is_latest {| km_id := sk_id e; km_created := 0 |}) with true. cbn [km_created km_id]. cbn zeta.
  cbn iota. fold akey. rewrite C. fold idl. rewrite B. cbn [backing_get fst snd]. rewrite D.
  assert (set_nth sc {| kc_backing := BSimple m; kc_latest := kc_latest kc |} (w_caches w) = w_caches w) as ->.
  { apply set_nth_same_id. rewrite A. f_equal. destruct kc as [b la]. cbn in B. subst b. reflexivity. }
  rewrite with_caches_id. unfold bind. rewrite reload_required_eq, E, F, H. cbn [ret]. f_equal. f_equal. f_equal. f_equal.
  destruct (ce_loaded e0 + rci <? w_now w) eqn:L; [apply Z.ltb_lt in L; lia | reflexivity].
Qed.

Lemma JL_is_key_valid w : JL w -> is_key_invalid k ex w = (inr false, w).
Proof.
  intros [kc [m [e0 [o [A [B [C [D [E [F [G [H [I K]]]]]]]]]]]]].
  unfold is_key_invalid, kobj_get, get_kobjs, get_now, bind, gets, ret. rewrite F. rewrite H, K. reflexivity.
Qed.

Lemma JL_get_or_load_latest loader w : JL w -> get_or_load_latest (Some sc) rci ex (sk_id e) loader w = (cck_increment k ;;; ret k) w.
Proof.
  intro Jw. unfold get_or_load_latest. rewrite (bind_eq _ _ _ _ _ (JL_get_fresh_latest w Jw)).
  rewrite (bind_eq (ret k) _ w k w eq_refl). rewrite (bind_eq _ _ _ _ _ (JL_is_key_valid w Jw)). reflexivity.
Qed.

(* conditional on JL and HR: caches, clock, key objects stay, no KMS event, HR stays *)
Definition sameE (w w' : world) : Prop := JL w /\ HR w -> sameK w w' /\ kms (w_trace w') = kms (w_trace w) /\ HR w'.
Lemma sameE_refl w : sameE w w. Proof. intros [_ H]. split; [apply sameK_refl | split; [reflexivity | exact H]]. Qed.
Lemma sameE_trans a b c : sameE a b -> sameE b c -> sameE a c.
Proof.
  intros H1 H2 [Ja Ha]. destruct (H1 (conj Ja Ha)) as [K1 [T1 R1]]. destruct (H2 (conj (JL_sameK _ _ K1 Ja) R1)) as [K2 [T2 R2]].
  split; [eapply sameK_trans; eassumption | split; [congruence | exact R2]].
Qed.
Definition qE {A} (m : M A) : Prop := qu sameE m.
Lemma qE_ret {A} (a : A) : qE (ret a). Proof. apply (qu_ret sameE sameE_refl). Qed.
Lemma qE_fail {A} er : qE (@fail A er). Proof. apply (qu_fail sameE sameE_refl). Qed.
Lemma qE_bind {A B} (m : M A) (f : A -> M B) : qE m -> (forall a, qE (f a)) -> qE (bind m f). Proof. apply (qu_bind sameE sameE_trans). Qed.
Lemma qE_finally {A} (m : M A) (c : M unit) : qE m -> qE c -> qE (finally m c). Proof. apply (qu_finally sameE sameE_trans). Qed.
Lemma qE_try {A} (m : M A) : qE m -> qE (try_ m). Proof. apply (qu_try sameE). Qed.
Lemma qE_of_qM {A} (m : M A) : qM m -> qE m.
Proof. intros Q w [_ Hw]. destruct (Q w) as [K [T S]]. split; [exact K | split; [exact T|]]. unfold HR. rewrite S. exact Hw. Qed.
Lemma qE_of_qJ {A} (m : M A) : qJ sc rci l k m -> qE m.
Proof. intros Q w [Jw Hw]. destruct (Q w (JL_J w Jw)) as [K [T S]]. split; [exact K | split; [exact T|]]. unfold HR. rewrite S. exact Hw. Qed.

(* bind where the first result is known to satisfy P whenever JL and HR held before *)
Lemma qE_bind_inv {A B} (m : M A) (f : A -> M B) (P : A -> Prop) :
  qE m -> (forall w a w1, JL w -> HR w -> m w = (inr a, w1) -> P a) -> (forall a, P a -> qE (f a)) -> qE (bind m f).
Proof.
  intros Qm HP Qf w [Jw Hw]. unfold bind. destruct (m w) as [[er|a] w1] eqn:G; cbn [snd].
  - pose proof (Qm w (conj Jw Hw)) as X. rewrite G in X. exact X.
  - pose proof (Qm w (conj Jw Hw)) as X. rewrite G in X. cbn [snd] in X. destruct X as [K1 [T1 R1]].
    destruct (Qf a (HP w a w1 Jw Hw G) w1 (conj (JL_sameK _ _ K1 Jw) R1)) as [K2 [T2 R2]].
    split; [eapply sameK_trans; eassumption | split; [congruence | exact R2]].
Qed.

(* storing an intermediate key of this partition whose parent is l *)
Lemma m_store_world i c r w :
  let w' := snd (m_store i c r w) in
  w_caches w' = w_caches w /\ w_now w' = w_now w /\ w_kobjs w' = w_kobjs w /\ kms (w_trace w') = kms (w_trace w) /\
  (w_store w' = w_store w \/ w_store w' = w_store w ++ [(i, c, r)]).
Proof.
  cbn zeta. unfold m_store, bind, next_call. cbn [fst snd].
  destruct (fault_at (w_calls w) (w_faults w)) as [[ | | ]|]; unfold emit, upd, ret, store_insert; cbn [fst snd];
    change (w_store (with_calls (S (w_calls w)) w)) with (w_store w);
    try (destruct (store_find i c (w_store w))); cbn; repeat split; auto.
Qed.

Lemma qE_m_store_ik c r : e_parent r = Some l -> qE (m_store (ik_id e) c r).
Proof.
  intros Hp w [_ Hw]. destruct (m_store_world (ik_id e) c r w) as [E1 [E2 [E3 [E4 E5]]]].
  split; [apply qK_same; assumption | split; [exact E4|]]. unfold HR. destruct E5 as [-> | ->]; [exact Hw|].
  intros c0 r0. rewrite store_find_app. destruct (store_find (ik_id e) c0 (w_store w)) eqn:F; [intro X; injection X as <-; exact (Hw c0 _ F)|].
  destruct (str_eqb (ik_id e) (ik_id e) && (c =? c0)); [intro X; injection X as <-; exact Hp | discriminate].
Qed.

Lemma qE_try_store ik : qE (try_store_intermediate_key e ik k).
Proof.
  unfold try_store_intermediate_key.
  apply qE_bind; [apply qE_of_qM; qM_go|]. intro ikb. apply qE_bind; [apply qE_of_qM; qM_go|]. intro skb.
  apply qE_bind; [apply qE_of_qM; qM_go|]. intro enc. apply qE_bind; [apply qE_of_qM; qM_go|]. intro iko.
  apply (qE_bind_inv _ _ (fun sko => ko_created sko = km_created l)); [apply qE_of_qM; qM_go | |].
  - intros w sko w1 [kc [m [e0 [o [A [B [C [D [E [F [G _]]]]]]]]]]] _ X. apply kobj_get_inv in X as [_ X]. rewrite F in X. injection X as <-. exact G.
  - intros sko Hc. apply qE_m_store_ik. cbn [e_parent]. rewrite Hc, <- Hlid. destruct l; reflexivity.
Qed.

Lemma qE_intermediate_key_from_ekr sk r : e_parent r = Some l -> qE (intermediate_key_from_ekr e sk r).
Proof. intro Hp. apply qE_of_qJ. apply qJ_intermediate_key_from_ekr; [exact Hlnz | exact Hsk | reflexivity | exact Hp]. Qed.

Lemma latest_row_parent w ro w1 : HR w -> m_load_latest (ik_id e) w = (inr ro, w1) -> forall r, ro = Some r -> e_parent r = Some l.
Proof.
  intros Hw G r ->. apply m_load_latest_inv in G. symmetry in G. apply store_latest_find in G as [c Hf]. exact (Hw c r Hf).
Qed.

Lemma qE_create_ik_with_sk : qE (create_ik_with_sk e k).
Proof.
  unfold create_ik_with_sk. apply qE_bind; [apply qE_of_qM; qM_go|]. intro ik.
  apply qE_bind; [apply qE_try; apply qE_try_store|]. intros [er|[|]].
  - apply qE_bind; [apply qE_of_qM; qM_go | intro; apply qE_fail].
  - apply qE_ret.
  - apply qE_bind; [apply qE_of_qM; qM_go|]. intros _. unfold must_load_latest.
    apply (qE_bind_inv _ _ (fun r2 => e_parent r2 = Some l)).
    + apply qE_bind; [apply qE_of_qM; qM_go|]. intros [r|]; [apply qE_ret | apply qE_fail].
    + intros w r2 w1 _ Hw X. apply bind_ok in X as [ro [w2 [G X]]]. destruct ro as [r|]; [|discriminate X].
      unfold ret in X. injection X as <- _. exact (latest_row_parent w (Some r) w2 Hw G r eq_refl).
    + intros r2 Hp. apply qE_intermediate_key_from_ekr. exact Hp.
Qed.

Lemma qE_create_intermediate_key : qE (create_intermediate_key e).
Proof.
  unfold create_intermediate_key. rewrite Hsk. fold rci ex.
  apply (qE_bind_inv _ _ (fun sk => sk = k)).
  - intros w [Jw Hw]. rewrite (JL_get_or_load_latest _ w Jw). assert (qM (cck_increment k ;;; ret k)) as Q by qM_go. exact (qE_of_qM _ Q w (conj Jw Hw)).
  - intros w a w1 Jw _ X. rewrite (JL_get_or_load_latest _ w Jw) in X. apply bind_ok in X as [u [w2 [_ X]]]. unfold ret in X. injection X as <- _. reflexivity.
  - intros a ->. apply qE_finally; [apply qE_create_ik_with_sk | apply qE_of_qM; qM_go].
Qed.

(* the encrypt path's loader, whole: loadLatestOrCreateIntermediateKey *)
Theorem qE_load_latest_or_create_intermediate_key : qE (load_latest_or_create_intermediate_key e (ik_id e)).
Proof.
  unfold load_latest_or_create_intermediate_key.
  apply (qE_bind_inv _ _ (fun ro => forall r, ro = Some r -> e_parent r = Some l)); [apply qE_of_qM; qM_go | |].
  - intros w ro w1 _ Hw G. exact (latest_row_parent w ro w1 Hw G).
  - intros ro Hro. apply qE_bind.
    + destruct ro as [r|]; [destruct (e_parent r); apply qE_of_qM; qM_go | apply qE_ret].
    + intro usable. destruct ro as [r|]; [|apply qE_create_intermediate_key]. destruct usable; [|apply qE_create_intermediate_key].
      pose proof (Hro r eq_refl) as Hp. rewrite Hp.
      apply qE_bind; [apply qE_try; apply qE_of_qJ; apply qJ_get_or_load_system_key; [exact Hlnz | exact Hsk | reflexivity]|].
      intros [er|sk]; [apply qE_create_intermediate_key|].
      apply qE_finally; [|apply qE_of_qM; qM_go].
      apply qE_bind.
      * unfold get_valid_intermediate_key. apply qE_bind; [apply qE_of_qM; qM_go|]. intros [|]; [apply qE_ret|].
        apply qE_bind; [apply qE_try; apply qE_intermediate_key_from_ekr; exact Hp|]. intros [er|ik]; apply qE_ret.
      * intros [ik|]; [apply qE_ret | apply qE_create_intermediate_key].
Qed.

Theorem find_or_create_intermediate_key_needs_no_kms w :
  JL w -> HR w -> kms (w_trace (snd (load_latest_or_create_intermediate_key e (ik_id e) w))) = kms (w_trace w).
Proof. intros Jw Hw. destruct (qE_load_latest_or_create_intermediate_key w (conj Jw Hw)) as [_ [T _]]. exact T. Qed.
End SkOnceEnc.

(* in a reachable history: partition p's first encrypt creates (and wraps, one KMS encrypt) the system key; then, in a new session of the
   same factory for the new partition q, the first encrypt creates q's intermediate key - rows are read and written, the KMS is not called *)
Definition enc_once_ops : list hop :=
  [HNewFactory Rotation.pol100 (s "svc") (s "prod") None; HGetSession 0 (s "p"); HEncrypt 0 5 []; HGetSession 0 (s "q")].
Definition enc_once_check : bool :=
  let h := snd (hrun (hinit Rotation.t0) enc_once_ops) in
  let h0 := snd (hrun (hinit Rotation.t0) (firstn 2 enc_once_ops)) in
  let st0 := hstep h0 (HEncrypt 0 5 []) in
  let st := hstep h (HEncrypt 1 6 []) in
  match fst (fst st0), fst (fst st) with
  | OEnc _ _, OEnc _ _ =>
      Nat.eqb (length (kms (snd (fst st0)))) 1 && Nat.eqb (length (kms (snd (fst st)))) 0 && negb (Nat.eqb (length (filter is_ext (snd (fst st)))) 0)
  | _, _ => false
  end.
Example find_or_create_needs_no_kms_met : enc_once_check = true.
Proof. vm_compute. reflexivity. Qed.

(* ... and the premises JL and HR are met in that world, for q's session env: decided by computation *)
Definition km_eqb (a b : keymeta) : bool := str_eqb (km_id a) (km_id b) && (km_created a =? km_created b).
Lemma km_eqb_eq a b : km_eqb a b = true -> a = b.
Proof.
  unfold km_eqb. intro H. apply andb_prop in H as [H1 H2]. apply str_eqb_eq in H1. apply Z.eqb_eq in H2.
  destruct a, b; cbn in *; subst; reflexivity.
Qed.

Definition JLb (sc k : nat) (e : env) (l : keymeta) (w : world) : bool :=
  match nth_error (w_caches w) sc, nth_error (w_kobjs w) k with
  | Some kc, Some o =>
      match kc_backing kc with
      | BSimple m =>
          match assoc_get (cache_key (sk_id e) 0) (kc_latest kc), assoc_get (cache_key (km_id l) (km_created l)) m with
          | Some l', Some e0 =>
              km_eqb l' l && Nat.eqb (ce_key e0) k && (ko_created o =? km_created l) && negb (ko_revoked o) &&
              (w_now w <=? ce_loaded e0 + p_rci (en_pol e)) && negb (is_key_expired (w_now w) (ko_created o) (p_expire (en_pol e)))
          | _, _ => false
          end
      | BCache _ => false
      end
  | _, _ => false
  end.
Lemma JLb_ok sc k e l w : JLb sc k e l w = true -> JL sc k e l w.
Proof.
  unfold JLb, JL. destruct (nth_error (w_caches w) sc) as [kc|]; [|discriminate]. destruct (nth_error (w_kobjs w) k) as [o|]; [|discriminate].
  destruct (kc_backing kc) as [m|c] eqn:B; [|discriminate].
  destruct (assoc_get (cache_key (sk_id e) 0) (kc_latest kc)) as [l'|] eqn:A1; [|discriminate].
  destruct (assoc_get (cache_key (km_id l) (km_created l)) m) as [e0|] eqn:A2; [|discriminate].
  intro H. do 5 (apply andb_prop in H as [H ?]).
  apply km_eqb_eq in H. subst l'. exists kc, m, e0, o.
  repeat match goal with
         | X : Nat.eqb _ _ = true |- _ => apply Nat.eqb_eq in X
         | X : (_ =? _) = true |- _ => apply Z.eqb_eq in X
         | X : (_ <=? _) = true |- _ => apply Z.leb_le in X
         | X : negb _ = true |- _ => apply negb_true_iff in X
         end.
  repeat split; assumption.
Qed.

Definition HRb (e : env) (l : keymeta) (w : world) : bool :=
  forallb (fun x : row => let '(i, c, r) := x in
             if str_eqb i (ik_id e) then match e_parent r with Some p => km_eqb p l | None => false end else true) (w_store w).
Lemma HRb_ok e l w : HRb e l w = true -> HR e l w.
Proof.
  unfold HRb, HR. intros H c r. induction (w_store w) as [|[[i k0] r0] st IH]; cbn [store_find]; [discriminate|].
  cbn [forallb] in H. apply andb_prop in H as [H1 H2].
  destruct (str_eqb i (ik_id e) && (k0 =? c)) eqn:E; [|exact (IH H2)].
  apply andb_prop in E as [E1 _]. rewrite E1 in H1. intro X. injection X as <-.
  destruct (e_parent r0) as [p|]; [|discriminate]. apply km_eqb_eq in H1. subst p. reflexivity.
Qed.

Definition enc_once_premises : bool :=
  let w := begin_op [] (h_world (snd (hrun (hinit Rotation.t0) enc_once_ops))) in
  match session_env 1 w with
  | (inr e, _) =>
      match en_sk e with
      | Some sc =>
          match nth_error (w_caches w) sc with
          | Some kc =>
              match assoc_get (cache_key (sk_id e) 0) (kc_latest kc), kc_backing kc with
              | Some l, BSimple m =>
                  match assoc_get (cache_key (km_id l) (km_created l)) m with
                  | Some e0 => negb (km_created l =? 0) && str_eqb (km_id l) (sk_id e) && JLb sc (ce_key e0) e l w && HRb e l w
                  | None => false
                  end
              | _, _ => false
              end
          | None => false
          end
      | None => false
      end
  | _ => false
  end.
Example find_or_create_premises_met : enc_once_premises = true.
Proof. vm_compute. reflexivity. Qed.
