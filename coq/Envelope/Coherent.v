(* Cache coherence of the envelope model, for one service/product with default (unsuffixed) partitions:
   every key object a key cache hands out is BOUND to a metastore row - its creation stamp and key
   material are those of the row it was cached under - and every row the SDK writes is well formed
   (a system key wrapped by the KMS; an intermediate key sealed under a stored system key that its
   ParentKeyMeta names).  From this: every record a successful Encrypt returns is durable and
   decryptable from the metastore and the KMS alone (C02), over all histories. *)
From Asherah Require Import Envelope.Session Envelope.Frame Envelope.FrameInst Envelope.Hoare Base.StrLemmas Cache.ListLemmas Cache.CacheProofs Envelope.PartitionProofs.
From Coq Require Import Lia.

Section Coh.
Variables svc prod : str.

Definition SKid : str := sk_id_default svc prod.
Definition IKid (p : str) : str := ik_id_default p svc prod.

Inductive kind := KSk | KIk.
Definition okid (kd : kind) (i : str) : Prop := match kd with KSk => i = SKid | KIk => exists p, i = IKid p end.

Lemma SK_not_IK p : SKid <> IKid p.
Proof. unfold SKid, IKid, sk_id_default, ik_id_default. cbn. intro H. inversion H. Qed.

(* ---- well-formed rows ------------------------------------------------------------------------------- *)

Definition sk_row (st : list row) (c : Z) (m : nat) : Prop :=
  exists r, store_find SKid c st = Some r /\ e_created r = c /\ e_parent r = None /\ e_key r = CKms (PKey m).

Definition ik_row (st : list row) (i : str) (c : Z) (m : nat) : Prop :=
  exists r c' skm n, store_find i c st = Some r /\ e_created r = c /\
    e_parent r = Some {| km_id := SKid; km_created := c' |} /\ sk_row st c' skm /\ e_key r = CAead skm n (PKey m).

Definition row_ok (kd : kind) (st : list row) (i : str) (c : Z) (m : nat) : Prop :=
  match kd with KSk => sk_row st c m | KIk => ik_row st i c m end.

Definition store_ok (st : list row) : Prop :=
  forall i c r, store_find i c st = Some r ->
    (i = SKid /\ exists m, sk_row st c m) \/ (exists p, i = IKid p /\ exists m, ik_row st i c m).

Definition rows_kept (st st' : list row) : Prop := forall i c r, store_find i c st = Some r -> store_find i c st' = Some r.

Lemma sk_row_kept st st' c m : rows_kept st st' -> sk_row st c m -> sk_row st' c m.
Proof. intros K [r [H1 H2]]. exists r. split; [apply K; exact H1 | exact H2]. Qed.

Lemma ik_row_kept st st' i c m : rows_kept st st' -> ik_row st i c m -> ik_row st' i c m.
Proof.
  intros K [r [c' [skm [n [H1 [H2 [H3 [H4 H5]]]]]]]]. exists r, c', skm, n.
  repeat split; try assumption; [apply K; exact H1 | eapply sk_row_kept; eassumption].
Qed.

Lemma row_ok_kept kd st st' i c m : rows_kept st st' -> row_ok kd st i c m -> row_ok kd st' i c m.
Proof. destruct kd; cbn; [apply sk_row_kept | apply ik_row_kept]. Qed.

Lemma sk_row_fun st c m m' : sk_row st c m -> sk_row st c m' -> m = m'.
Proof. intros [r [H1 [_ [_ H4]]]] [r' [H1' [_ [_ H4']]]]. rewrite H1 in H1'. inversion H1'; subst. congruence. Qed.

(* ---- key objects bound to rows -------------------------------------------------------------------- *)

Definition bound (kd : kind) (w : world) (k : nat) (i : str) : Prop :=
  okid kd i /\ exists c m, created_of w k c /\ mat_of w k (PKey m) /\ row_ok kd (w_store w) i c m.

Lemma Rq_rows_kept w w' : Rq w w' -> rows_kept (w_store w) (w_store w').
Proof. intros [K _]. exact K. Qed.

Lemma stable_bound kd k i : stable (fun w => bound kd w k i).
Proof.
  intros w w' R [O [c [m [H1 [H2 H3]]]]]. split; [exact O|]. exists c, m.
  split; [eapply (stable_created_of k c); eassumption|].
  split; [eapply (stable_mat_of k (PKey m)); eassumption|].
  eapply row_ok_kept; [apply Rq_rows_kept; exact R | exact H3].
Qed.

Lemma created_of_fun w k c c' : created_of w k c -> created_of w k c' -> c = c'.
Proof. intros [o [H1 H2]] [o' [H1' H2']]. congruence. Qed.

Lemma mat_of_fun w k p p' : mat_of w k p -> mat_of w k p' -> p = p'.
Proof. intros [o [sc [H1 [H2 H3]]]] [o' [sc' [H1' [H2' H3']]]]. rewrite H1 in H1'. inversion H1'; subst. congruence. Qed.

(* ---- cache keys ----------------------------------------------------------------------------------- *)

Lemma cache_key_inj kd i i' c c' : okid kd i -> okid kd i' -> cache_key i c = cache_key i' c' -> i = i' /\ c = c'.
Proof.
  unfold cache_key. destruct kd; cbn [okid].
  - intros -> -> H. apply app_inv_head in H. split; [reflexivity | apply itoa_inj; exact H].
  - intros [p ->] [p' ->] H. unfold IKid, ik_id_default in H. rewrite <- !app_assoc in H.
    apply app_inv_head in H.
    assert (H' : p ++ (us ++ svc ++ us ++ prod) ++ itoa c = p' ++ (us ++ svc ++ us ++ prod) ++ itoa c')
      by (rewrite <- !app_assoc; exact H).
    destruct (sep_key_inj (us ++ svc ++ us ++ prod) p p' c c' "_"%char (svc ++ us ++ prod) eq_refl underscore_not_ichar H') as [E1 E2].
    subst. split; reflexivity.
Qed.

Lemma cache_key_zero_inj i i' : cache_key i 0 = cache_key i' 0 -> i = i'.
Proof. unfold cache_key. apply app_inv_tail. Qed.

(* ---- the backing caches --------------------------------------------------------------------------- *)

Definition b_abs (b : backing) (ks : str) : option centry :=
  match b with BSimple m => assoc_get ks m | BCache c => CacheProofs.abs str centry str_eqb c ks end.

Definition b_good (b : backing) : Prop :=
  match b with
  | BSimple m => NoDup (map fst m)
  | BCache c => Inv str centry c /\ Closed_ok str centry c /\ 1 <= c_cap (cc c) /\ c_expiry (cc c) = 0
  end.

Lemma assoc_get_set {A} (x k : str) (v : A) l :
  assoc_get x (assoc_set k v l) = if str_eqb x k then Some v else assoc_get x l.
Proof.
  induction l as [|[k' y] l IH]; cbn [assoc_set assoc_get].
  - destruct (str_eqb x k); reflexivity.
  - destruct (str_eqb k k') eqn:E; cbn [assoc_get].
    + apply str_eqb_eq in E. subst k'. destruct (str_eqb x k); reflexivity.
    + destruct (str_eqb x k') eqn:E2.
      * apply str_eqb_eq in E2. subst k'. destruct (str_eqb x k) eqn:E3; [|reflexivity].
        apply str_eqb_eq in E3. subst. rewrite str_eqb_refl in E. discriminate.
      * exact IH.
Qed.

Lemma assoc_set_keys {A} (k : str) (v : A) l :
  map fst (assoc_set k v l) = if existsb (str_eqb k) (map fst l) then map fst l else map fst l ++ [k].
Proof.
  induction l as [|[k' y] l IH]; cbn [assoc_set map fst existsb app]; [reflexivity|].
  destruct (str_eqb k k') eqn:E; cbn [orb map fst]; [reflexivity|]. rewrite IH.
  destruct (existsb (str_eqb k) (map fst l)); reflexivity.
Qed.

Lemma assoc_set_nodup {A} (k : str) (v : A) l : NoDup (map fst l) -> NoDup (map fst (assoc_set k v l)).
Proof.
  intro N. rewrite assoc_set_keys. destruct (existsb (str_eqb k) (map fst l)) eqn:E; [exact N|].
  apply NoDup_app_single; [exact N|]. intro HI.
  assert (existsb (str_eqb k) (map fst l) = true); [|congruence].
  apply existsb_exists. exists k. split; [exact HI | apply str_eqb_refl].
Qed.

Lemma assoc_get_in {A} (x : str) (y : A) l : NoDup (map fst l) -> In (x, y) l -> assoc_get x l = Some y.
Proof.
  induction l as [|[k' v] l IH]; cbn [In assoc_get map fst]; [tauto|].
  intros N [H|H].
  - inversion H; subst. rewrite str_eqb_refl. reflexivity.
  - inversion N as [|? ? Hn N']; subst. destruct (str_eqb x k') eqn:E.
    + apply str_eqb_eq in E. subst k'. exfalso. apply Hn. apply in_map_iff. exists (x, y). split; [reflexivity | exact H].
    + apply IH; assumption.
Qed.

Lemma backing_get_spec b now k :
  b_good b ->
  match backing_get b now k with
  | (b', r) => b_good b' /\ r = b_abs b k /\ forall x, b_abs b' x = b_abs b x
  end.
Proof.
  destruct b as [m|c]; cbn [backing_get b_good b_abs].
  - intros N. repeat split. exact N.
  - intros [I [CO [Hc He]]].
    pose proof (step_spec str centry str_eqb str_eqb_eq c now [] (OGet k) I CO Hc) as S.
    cbn [Generic.step] in *. destruct (closing c) eqn:CL.
    + destruct S as [I' [CO' _]]. cbn [b_good b_abs]. split; [tauto|]. split; [|reflexivity].
      unfold CacheProofs.abs. rewrite (CO CL). reflexivity.
    + destruct (lookup str centry str_eqb k (items c)) as [[v ex]|] eqn:L.
      * rewrite He in *. cbn [Z.gtb Z.compare andb] in *.
        destruct S as [I' [CO' [CC' _]]]. cbn [b_good b_abs]. split; [|split].
        -- split; [exact I'|]. split; [exact CO'|]. rewrite CC'. tauto.
        -- unfold CacheProofs.abs. rewrite L. reflexivity.
        -- intro x. reflexivity.
      * cbn [b_good b_abs]. split; [tauto|]. split; [|reflexivity]. unfold CacheProofs.abs. rewrite L. reflexivity.
Qed.

Lemma backing_set_spec b now k e :
  b_good b ->
  match backing_set b now k e with
  | (b', ev) => b_good b' /\
                (forall x y, b_abs b' x = Some y -> (x = k /\ y = e) \/ b_abs b x = Some y) /\
                (forall x y, In (x, y) ev -> b_abs b x = Some y)
  end.
Proof.
  destruct b as [m|c]; cbn [backing_set b_good b_abs].
  - intros N. split; [apply assoc_set_nodup; exact N|]. split; [|intros ? ? []].
    intros x y H. rewrite assoc_get_set in H. destruct (str_eqb x k) eqn:E; [|right; exact H].
    left. apply str_eqb_eq in E. split; [exact E | congruence].
  - intros [I [CO [Hc He]]].
    pose proof (step_spec str centry str_eqb str_eqb_eq c now [] (OSet k e) I CO Hc) as S.
    destruct (Generic.step str_eqb c now [] (OSet k e)) as [[c' r] ev].
    destruct S as [I' [CO' [CC' [_ [_ [SP [EV _]]]]]]]. cbn [b_good b_abs].
    split; [split; [exact I'|]; split; [exact CO'|]; rewrite CC'; tauto|]. split; [|exact EV].
    intros x y H. rewrite SP in H. unfold spec_after in H.
    destruct (reported str centry str_eqb ev x); [discriminate|].
    destruct (closing c); [right; exact H|].
    destruct (str_eqb x k) eqn:E; [|right; exact H]. left. apply str_eqb_eq in E. split; [exact E | congruence].
Qed.

Lemma backing_close_spec b now :
  b_good b ->
  match backing_close b now with
  | (b', ev) => b_good b' /\ (forall x y, b_abs b' x = Some y -> b_abs b x = Some y) /\
                (forall x y, In (x, y) ev -> b_abs b x = Some y)
  end.
Proof.
  destruct b as [m|c]; cbn [backing_close b_good b_abs].
  - intros N. split; [exact N|]. split; [tauto|].
    intros x y H. apply assoc_get_in; assumption.
  - intros [I [CO [Hc He]]].
    pose proof (step_spec str centry str_eqb str_eqb_eq c now [] OClose I CO Hc) as S.
    destruct (Generic.step str_eqb c now [] OClose) as [[c' r] ev].
    destruct S as [I' [CO' [CC' [_ [_ [SP [EV _]]]]]]]. cbn [b_good b_abs].
    split; [split; [exact I'|]; split; [exact CO'|]; rewrite CC'; tauto|]. split; [|exact EV].
    intros x y H. rewrite SP in H. unfold spec_after in H.
    destruct (reported str centry str_eqb ev x); [discriminate|].
    destruct (closing c); [exact H | discriminate].
Qed.

(* ---- the invariant ------------------------------------------------------------------------------------- *)

Definition cache_ok (kd : kind) (w : world) (kc : keycache) : Prop :=
  b_good (kc_backing kc) /\
  (forall ks e, b_abs (kc_backing kc) ks = Some e ->
     exists i c, ks = cache_key i c /\ created_of w (ce_key e) c /\ bound kd w (ce_key e) i) /\
  (forall i l, assoc_get (cache_key i 0) (kc_latest kc) = Some l -> km_id l = i).

Definition kd_of (b : bool) : kind := if b then KSk else KIk.

Definition cap_ok (pol : cachepol) : Prop := match cp_kind pol with None => True | Some _ => 1 <= cp_cap pol end.
Definition pol_ok (p : policy) : Prop := cap_ok (p_sk_pol p) /\ cap_ok (p_ik_pol p).

Definition fact_ok (kinds : list bool) (fa : factory) : Prop :=
  fa_svc fa = svc /\ fa_prod fa = prod /\ fa_suffix fa = None /\
  (forall cid, fa_sk fa = Some cid -> nth_error kinds cid = Some true) /\
  (forall cid, fa_ik fa = Some cid -> nth_error kinds cid = Some false) /\
  pol_ok (fa_policy fa).

Definition sess_ok (kinds : list bool) (w : world) (x : session) : Prop :=
  (exists fa, nth_error (w_factories w) (ss_factory x) = Some fa) /\
  p_svc (ss_part x) = svc /\ p_prod (ss_part x) = prod /\ p_suffix (ss_part x) = None /\
  (forall cid, ss_ik x = Some cid -> nth_error kinds cid = Some false).

(* kinds: which key caches are system-key caches (true) / intermediate-key caches (false); ghost state *)
Record CI (kinds : list bool) (w : world) : Prop := {
  ci_len : length kinds = length (w_caches w);
  ci_caches : forall cid kc b, nth_error (w_caches w) cid = Some kc -> nth_error kinds cid = Some b -> cache_ok (kd_of b) w kc;
  ci_fact : forall f fa, nth_error (w_factories w) f = Some fa -> fact_ok kinds fa;
  ci_sess : forall s x, nth_error (w_sessions w) s = Some x -> sess_ok kinds w x }.

Definition Iv (kinds : list bool) (w : world) : Prop := store_ok (w_store w) /\ CI kinds w.

(* facts about key objects, secrets and rows depend on those three tables only *)
Definition same_keys (w w' : world) : Prop :=
  w_store w' = w_store w /\ w_kobjs w' = w_kobjs w /\ w_secrets w' = w_secrets w.

Lemma bound_ext kd w w' k i : same_keys w w' -> bound kd w k i -> bound kd w' k i.
Proof.
  intros [E1 [E2 E3]] [O [c [m [H1 [H2 H3]]]]]. split; [exact O|]. exists c, m.
  unfold created_of, mat_of in *. rewrite E1, E2, E3. tauto.
Qed.

Lemma created_of_ext w w' k c : same_keys w w' -> created_of w k c -> created_of w' k c.
Proof. intros [_ [E2 _]] H. unfold created_of in *. rewrite E2. exact H. Qed.

Lemma cache_ok_ext kd w w' kc : same_keys w w' -> cache_ok kd w kc -> cache_ok kd w' kc.
Proof.
  intros S [G [EN AL]]. split; [exact G|]. split; [|exact AL].
  intros ks e H. destruct (EN ks e H) as [i [c [H1 [H2 H3]]]]. exists i, c.
  split; [exact H1|]. split; [eapply created_of_ext; eassumption | eapply bound_ext; eassumption].
Qed.

Lemma stable_cache_ok kd kc : stable (fun w => cache_ok kd w kc).
Proof.
  intros w w' R [G [EN AL]]. split; [exact G|]. split; [|exact AL].
  intros ks e H. destruct (EN ks e H) as [i [c [H1 [H2 H3]]]]. exists i, c.
  split; [exact H1|]. split; [eapply (stable_created_of _ c); eassumption | eapply (stable_bound kd); eassumption].
Qed.

Lemma stable0_Iv kinds : stable0 (Iv kinds).
Proof.
  intros w w' [R ES] [SO [L C F S]]. pose proof R as [_ [_ [EC [ESs [EF _]]]]]. split; [rewrite ES; exact SO|].
  constructor.
  - rewrite EC. exact L.
  - intros cid kc b H1 H2. rewrite EC in H1. eapply (stable_cache_ok (kd_of b) kc); [exact R|]. eapply C; eassumption.
  - intros f fa H. rewrite EF in H. eapply F; exact H.
  - intros s0 x H. rewrite ESs in H. destruct (S s0 x H) as [[fa Hf] Rest]. split; [exists fa; rewrite EF; exact Hf | exact Rest].
Qed.

(* ---- Rs: what every program of the SDK respects (frame theorem) ------------------------------------- *)

Definition Rs (w w' : world) : Prop := keeps_rows w w' /\ secrets_mono w w' /\ w_now w' = w_now w.

Lemma store_find_app id c st i' c' r' :
  store_find id c (st ++ [(i', c', r')]) =
  match store_find id c st with Some x => Some x | None => if str_eqb i' id && (c' =? c) then Some r' else None end.
Proof.
  induction st as [|[[i k] r] st IH]; cbn [store_find app]; [reflexivity|].
  destruct (str_eqb i id && (k =? c)); [reflexivity | exact IH].
Qed.

Lemma Rs_frame : frame_ok Rs.
Proof.
  assert (Same : forall w w', w_store w' = w_store w -> w_secrets w' = w_secrets w -> w_kobjs w' = w_kobjs w -> w_now w' = w_now w -> Rs w w').
  { intros w w' E1 E2 E3 E4. split; [intros i c r H; rewrite E1; exact H|]. split; [apply secrets_mono_same; assumption | exact E4]. }
  pose proof secrets_mono_frame as SF.
  constructor; try (intros; apply Same; reflexivity).
  - intros a b c [K1 [S1 N1]] [K2 [S2 N2]]. split; [intros i cr r H; apply K2, K1, H|]. split; [eapply secrets_mono_trans; eassumption | congruence].
  - intros w id c r Fnd. split; [|split; [apply secrets_mono_same; reflexivity | reflexivity]].
    intros i cr r0 H. cbn [w_store with_store]. rewrite store_find_app, H. reflexivity.
  - intros w sc Hc. split; [intros i c r H; exact H|]. split; [apply (f_secret_app _ SF); exact Hc | reflexivity].
  - intros w sid sc H. split; [intros i c r H0; exact H0|]. split; [apply (f_secret_close _ SF); exact H | reflexivity].
  - intros w o. split; [intros i c r H; exact H|]. split; [apply (f_kobj_app _ SF) | reflexivity].
  - intros w k o o' H C S. split; [intros i c r H0; exact H0|]. split; [eapply (f_kobj_set _ SF); eassumption | reflexivity].
Qed.

Definition stableS (F : world -> Prop) : Prop := forall w w', Rs w w' -> F w -> F w'.

Lemma Rq_Rs w w' : Rq w w' -> Rs w w'.
Proof. intros [K [S [_ [_ [_ N]]]]]. split; [exact K | split; assumption]. Qed.

Lemma stableS_stable F : stableS F -> stable F.
Proof. intros H w w' R. apply H, Rq_Rs, R. Qed.

Lemma stableS_and F G : stableS F -> stableS G -> stableS (fun w => F w /\ G w).
Proof. intros HF HG w w' R [A B]. split; [eapply HF | eapply HG]; eassumption. Qed.
Lemma stableS_pure (phi : Prop) : stableS (fun _ => phi).
Proof. intros w w' _ H. exact H. Qed.
Lemma stableS_ex {X} (F : X -> world -> Prop) : (forall x, stableS (F x)) -> stableS (fun w => exists x, F x w).
Proof. intros H w w' R [x Hx]. exists x. eapply H; eassumption. Qed.

Lemma stableS_mat_of k p : stableS (fun w => mat_of w k p).
Proof.
  intros w w' [_ [[S K] _]] [o [sc [H1 [H2 H3]]]].
  destruct (K _ _ H1) as [o' [A [B C]]]. destruct (S _ _ H2) as [sc' [D [E _]]].
  exists o', sc'. rewrite C. repeat split; congruence.
Qed.
Lemma stableS_created_of k c : stableS (fun w => created_of w k c).
Proof.
  intros w w' [_ [[S K] _]] [o [H1 H2]]. destruct (K _ _ H1) as [o' [A [B C]]]. exists o'. split; congruence.
Qed.
Lemma stableS_bound kd k i : stableS (fun w => bound kd w k i).
Proof.
  intros w w' R [O [c [m [H1 [H2 H3]]]]]. split; [exact O|]. exists c, m.
  split; [eapply (stableS_created_of k c); eassumption|].
  split; [eapply (stableS_mat_of k (PKey m)); eassumption|].
  eapply row_ok_kept; [destruct R as [K _]; exact K | exact H3].
Qed.
Lemma stableS_find i c r : stableS (fun w => store_find i c (w_store w) = Some r).
Proof. intros w w' [K _] H. apply K. exact H. Qed.

(* the frame rule: a fact that every SDK program respects can be carried around any triple *)
Lemma hoare_frame {A} (m : M A) (F : world -> Prop) (P : world -> Prop) (Q : A -> world -> Prop) (E : world -> Prop) :
  pres Rs m -> stableS F -> hoare P m Q E ->
  hoare (fun w => P w /\ F w) m (fun a w => Q a w /\ F w) (fun w => E w /\ F w).
Proof.
  intros Pm SF H w [HP HF]. specialize (H w HP). specialize (Pm w).
  destruct (m w) as [[e|a] w1]; cbn [snd] in Pm; (split; [exact H | eapply SF; eassumption]).
Qed.

(* ---- key cache operations keep the invariant and hand out bound keys -------------------------------- *)

Lemma set_nth_length {A} n (x : A) l : length (set_nth n x l) = length l.
Proof. revert n; induction l as [|a l IH]; intros [|n]; cbn; try reflexivity. rewrite IH. reflexivity. Qed.

Lemma nth_error_set_nth {A} n m (x : A) l :
  nth_error (set_nth n x l) m =
  if Nat.eqb n m then match nth_error l n with Some _ => Some x | None => None end else nth_error l m.
Proof.
  destruct (Nat.eqb n m) eqn:E.
  - apply Nat.eqb_eq in E. subst m. destruct (nth_error l n) eqn:H.
    + eapply nth_error_set_nth_same; exact H.
    + revert n H. induction l as [|a l IH]; intros [|n] H; cbn in *; try reflexivity; try discriminate. apply IH; exact H.
  - apply Nat.eqb_neq in E. apply nth_error_set_nth_other. exact E.
Qed.

Lemma same_keys_caches w c : same_keys w (with_caches c w).
Proof. repeat split. Qed.

Lemma put_cache_spec kinds cid b kc :
  nth_error kinds cid = Some b ->
  hoare (fun w => Iv kinds w /\ cache_ok (kd_of b) w kc) (put_cache cid kc) (fun _ w => Iv kinds w) (Iv kinds).
Proof.
  intros Hk w [[SO [L C F S]] CO]. unfold put_cache, upd. cbn [fst snd].
  split; [exact SO|]. constructor; wsimpl.
  - rewrite set_nth_length. exact L.
  - intros cid' kc' b' H1 H2. rewrite nth_error_set_nth in H1. destruct (Nat.eqb cid cid') eqn:E.
    + apply Nat.eqb_eq in E. subst cid'. destruct (nth_error (w_caches w) cid); [|discriminate].
      inversion H1; subst. rewrite Hk in H2. inversion H2; subst.
      eapply cache_ok_ext; [apply same_keys_caches | exact CO].
    + eapply cache_ok_ext; [apply same_keys_caches | eapply C; eassumption].
  - exact F.
  - intros s0 x H. destruct (S s0 x H) as [Hf Rest]. split; [exact Hf | exact Rest].
Qed.

Definition handed (kd : kind) (meta : keymeta) (w : world) (k : nat) : Prop :=
  bound kd w k (km_id meta) /\ (is_latest meta = false -> created_of w k (km_created meta)).

Lemma stableS_handed kd meta k : stableS (fun w => handed kd meta w k).
Proof.
  apply stableS_and; [apply stableS_bound|]. intros w w' R H L. eapply (stableS_created_of k); [exact R | apply H; exact L].
Qed.

Lemma stable0_cache_at cid kc : stable0 (fun w => nth_error (w_caches w) cid = Some kc).
Proof. intros w w' [[_ [_ [EC _]]] _] H. rewrite EC. exact H. Qed.

Lemma kc_read_spec kinds cid b meta :
  nth_error kinds cid = Some b -> okid (kd_of b) (km_id meta) ->
  hoare (Iv kinds) (kc_read cid meta)
        (fun r w => Iv kinds w /\ forall e, r = Some e -> handed (kd_of b) meta w (ce_key e))
        (Iv kinds).
Proof.
  intros Hk Ok. unfold kc_read.
  eapply (hoare_bind _ _ (fun kc w => Iv kinds w /\ nth_error (w_caches w) cid = Some kc)).
  { exact (hoare_q0_res' (get_cache cid) (Iv kinds) _ (q0_get_cache cid) (stable0_Iv kinds) (get_cache_res cid)). }
  intro kc.
  eapply (hoare_bind _ _ (fun now w => (Iv kinds w /\ nth_error (w_caches w) cid = Some kc) /\ now = w_now w)).
  { exact (hoare_q0_res' get_now (fun w => Iv kinds w /\ nth_error (w_caches w) cid = Some kc) _ q0_get_now
             (stable0_and _ _ (stable0_Iv kinds) (stable0_cache_at cid kc)) get_now_res). }
  intro now.
  set (id := if is_latest meta then match assoc_get (cache_key (km_id meta) 0) (kc_latest kc) with
                                    | Some l => cache_key (km_id l) (km_created l)
                                    | None => cache_key (km_id meta) (km_created meta) end
             else cache_key (km_id meta) (km_created meta)).
  intros w [[HI Ec] _]. pose proof HI as [SO [L C F S]].
  pose proof (C cid kc b Ec Hk) as [G [EN AL]].
  pose proof (backing_get_spec (kc_backing kc) now id G) as BG.
  destruct (backing_get (kc_backing kc) now id) as [b' r]. destruct BG as [G' [Er Eabs]].
  assert (CO' : cache_ok (kd_of b) w {| kc_backing := b'; kc_latest := kc_latest kc |}).
  { split; [exact G'|]. split; [|exact AL]. cbn [kc_backing]. intros ks e H. rewrite Eabs in H. exact (EN ks e H). }
  pose proof (put_cache_spec kinds cid b _ Hk w (conj HI CO')) as PC.
  unfold bind. destruct (put_cache cid {| kc_backing := b'; kc_latest := kc_latest kc |} w) as [[er|u] w1] eqn:EP; [exact PC|].
  unfold ret. split; [exact PC|].
  intros e Hr. subst r.
  assert (SK : same_keys w w1).
  { unfold put_cache, upd in EP. inversion EP; subst. apply same_keys_caches. }
  destruct (EN id e Hr) as [i [c [Eid [Hc Hb]]]].
  assert (Oi : okid (kd_of b) i) by (destruct Hb as [O _]; exact O).
  assert (Goal1 : i = km_id meta /\ (is_latest meta = false -> c = km_created meta)).
  { unfold id in Eid. destruct (is_latest meta) eqn:Lt.
    - destruct (assoc_get (cache_key (km_id meta) 0) (kc_latest kc)) as [l|] eqn:Al.
      + pose proof (AL _ _ Al) as El. rewrite El in Eid.
        destruct (cache_key_inj _ _ _ _ _ Ok Oi Eid) as [E1 E2]. split; [symmetry; exact E1 | discriminate].
      + destruct (cache_key_inj _ _ _ _ _ Ok Oi Eid) as [E1 E2]. split; [symmetry; exact E1 | discriminate].
    - destruct (cache_key_inj _ _ _ _ _ Ok Oi Eid) as [E1 E2]. split; [symmetry; exact E1 | intros _; symmetry; exact E2]. }
  destruct Goal1 as [Ei Ec2]. subst i. split.
  - eapply bound_ext; eassumption.
  - intro Lt. rewrite <- (Ec2 Lt). eapply created_of_ext; eassumption.
Qed.

Lemma hoare_pull {A} (P : world -> Prop) (phi : Prop) (m : M A) (Q : A -> world -> Prop) (E : world -> Prop) :
  (forall w, P w -> phi) -> (phi -> hoare P m Q E) -> hoare P m Q E.
Proof. intros H1 H2 w Hw. apply (H2 (H1 w Hw) w Hw). Qed.

Lemma stable0_of_S F : stableS F -> stable0 F.
Proof. intro H. apply stable_stable0, stableS_stable, H. Qed.

Lemma is_latest_created meta : is_latest meta = true -> km_created meta = 0.
Proof. unfold is_latest. apply Z.eqb_eq. Qed.

Lemma kc_write_spec kinds cid b meta e :
  nth_error kinds cid = Some b -> okid (kd_of b) (km_id meta) ->
  hoare (fun w => Iv kinds w /\ handed (kd_of b) meta w (ce_key e)) (kc_write cid meta e) (fun _ w => Iv kinds w) (Iv kinds).
Proof.
  intros Hk Ok. unfold kc_write. set (kd := kd_of b). set (k := ce_key e).
  pose (A0 := fun w => Iv kinds w /\ handed kd meta w k).
  assert (SA0 : stable0 A0) by (apply stable0_and; [apply stable0_Iv | apply stable0_of_S, stableS_handed]).
  assert (E0 : forall w, A0 w -> Iv kinds w) by (intros w H; exact (proj1 H)).
  eapply (hoare_bind _ _ (fun o w => A0 w /\ created_of w k (ko_created o))).
  { eapply hoare_post; [exact (hoare_q0r (kobj_get k) A0 _ _ (q0_kobj_get k) SA0 (kobj_get_res k) E0)|].
    intros o w [H1 H2]. split; [exact H1|]. exists o. split; [exact H2 | reflexivity]. }
  intro o.
  pose (A1 := fun w => A0 w /\ created_of w k (ko_created o)).
  assert (SA1 : stable0 A1) by (apply stable0_and; [exact SA0 | apply stable0_of_S, stableS_created_of]).
  assert (E1 : forall w, A1 w -> Iv kinds w) by (intros w H; exact (E0 w (proj1 H))).
  eapply (hoare_bind _ _ (fun kc w => A1 w /\ nth_error (w_caches w) cid = Some kc)).
  { exact (hoare_q0r (get_cache cid) A1 _ _ (q0_get_cache cid) SA1 (get_cache_res cid) E1). }
  intro kc.
  set (akey := cache_key (km_id meta) 0).
  set (ml := if is_latest meta
             then let m := {| km_id := km_id meta; km_created := ko_created o |} in (m, assoc_set akey m (kc_latest kc))
             else match assoc_get akey (kc_latest kc) with
                  | Some l => if km_created l <? ko_created o then (meta, assoc_set akey meta (kc_latest kc)) else (meta, kc_latest kc)
                  | None => (meta, assoc_set akey meta (kc_latest kc))
                  end).
  destruct ml as [meta' latest'] eqn:Eml.
  set (id := cache_key (km_id meta') (km_created meta')).
  (* what the cache holds, as a stable assertion *)
  pose (A2 := fun w => A1 w /\ cache_ok kd w kc).
  assert (SA2 : stable0 A2) by (apply stable0_and; [exact SA1 | apply stable_stable0, stable_cache_ok]).
  assert (E2 : forall w, A2 w -> Iv kinds w) by (intros w H; exact (E1 w (proj1 H))).
  eapply (hoare_bind _ _ (fun (_ : Z) w => A2 w)).
  { eapply hoare_pre; [exact (hoare_q0 get_now A2 _ q0_get_now SA2 E2)|].
    intros w [H1 Hc]. split; [exact H1|]. pose proof (E1 w H1) as [_ [L C F S]]. exact (C cid kc b Hc Hk). }
  intro now.
  apply (hoare_pull _ (b_good (kc_backing kc))); [intros w [_ [G _]]; exact G|]. intro G.
  pose proof (backing_get_spec (kc_backing kc) now id G) as BG.
  destruct (backing_get (kc_backing kc) now id) as [b1 existing]. destruct BG as [G1 [_ Eabs1]].
  eapply (hoare_bind _ _ (fun (_ : unit) w => A2 w)).
  { assert (Qx : quiet0 (match existing with
                         | Some ex => if Nat.eqb (ce_key ex) (ce_key e) then ret tt else cck_close (ce_key ex)
                         | None => ret tt end)).
    { destruct existing as [ex|]; [destruct (Nat.eqb (ce_key ex) (ce_key e))|]; auto using @q0_ret with q0. }
    exact (hoare_q0 _ A2 _ Qx SA2 E2). }
  intros _.
  pose proof (backing_set_spec b1 now id e G1) as BS.
  destruct (backing_set b1 now id e) as [b2 evicted]. destruct BS as [G2 [En2 _]].
  eapply (hoare_bind _ _ (fun (_ : unit) w => Iv kinds w)).
  { eapply hoare_pre; [exact (put_cache_spec kinds cid b {| kc_backing := b2; kc_latest := latest' |} Hk)|].
    intros w [[[HI Hh] Hc] [_ [EN AL]]]. split; [exact HI|].
    (* meta' names the object's own creation stamp *)
    assert (Em : km_id meta' = km_id meta /\ km_created meta' = ko_created o).
    { unfold ml in Eml. destruct (is_latest meta) eqn:Lt.
      - inversion Eml; subst. split; reflexivity.
      - destruct Hh as [_ Hcr]. pose proof (created_of_fun _ _ _ _ (Hcr Lt) Hc) as Ecr.
        destruct (assoc_get akey (kc_latest kc)) as [l|]; [destruct (km_created l <? ko_created o)|]; inversion Eml; subst; split; congruence. }
    destruct Em as [Em1 Em2].
    split; [exact G2|]. cbn [kc_backing kc_latest]. split.
    - intros ks y H. destruct (En2 ks y H) as [[Ea Eb]|H'].
      + subst ks y. exists (km_id meta), (ko_created o). unfold id. rewrite Em1, Em2. split; [reflexivity|].
        split; [exact Hc | exact (proj1 Hh)].
      + rewrite Eabs1 in H'. exact (EN ks y H').
    - intros i l H. unfold ml in Eml.
      assert (Hset : forall m0, km_id m0 = km_id meta -> assoc_get (cache_key i 0) (assoc_set akey m0 (kc_latest kc)) = Some l -> km_id l = i).
      { intros m0 Hm0 H0. rewrite assoc_get_set in H0. destruct (str_eqb (cache_key i 0) akey) eqn:Eq.
        - apply str_eqb_eq in Eq. apply cache_key_zero_inj in Eq. inversion H0; subst. exact Hm0.
        - exact (AL i l H0). }
      destruct (is_latest meta).
      + inversion Eml; subst. eapply Hset; [|exact H]. reflexivity.
      + destruct (assoc_get akey (kc_latest kc)) as [l0|]; [destruct (km_created l0 <? ko_created o)|]; inversion Eml; subst;
          first [ eapply Hset; [|exact H]; reflexivity | exact (AL i l H) ]. }
  intros _. exact (hoare_q0 (closes evicted) (Iv kinds) _ (q0_closes evicted) (stable0_Iv kinds) (fun w H => H)).
Qed.

Definition loader_ok (kinds : list bool) (kd : kind) (loader : keymeta -> M nat) (meta : keymeta) : Prop :=
  pres Rs (loader meta) /\
  hoare (Iv kinds) (loader meta) (fun k w => Iv kinds w /\ handed kd meta w k) (Iv kinds).

(* carry a stableS fact around a triple whose error postcondition is the invariant *)
Lemma hoare_carry {A} (m : M A) (F P : world -> Prop) (Q : A -> world -> Prop) (E : world -> Prop) :
  pres Rs m -> stableS F -> hoare P m Q E ->
  hoare (fun w => P w /\ F w) m (fun a w => Q a w /\ F w) E.
Proof.
  intros Pm SF H. eapply hoare_weaken; [exact (hoare_frame m F P Q E Pm SF H) | | |]; cbv beta; tauto.
Qed.

Lemma kc_load_spec kinds cid b meta loader :
  nth_error kinds cid = Some b -> okid (kd_of b) (km_id meta) -> loader_ok kinds (kd_of b) loader meta ->
  hoare (Iv kinds) (kc_load cid meta loader) (fun k w => Iv kinds w /\ handed (kd_of b) meta w k) (Iv kinds).
Proof.
  intros Hk Ok [LP LS]. unfold kc_load. set (kd := kd_of b).
  eapply (hoare_bind _ _ (fun k w => Iv kinds w /\ handed kd meta w k)); [exact LS|].
  intro k.
  pose (A0 := fun w => Iv kinds w /\ handed kd meta w k).
  assert (SA0 : stable0 A0) by (apply stable0_and; [apply stable0_Iv | apply stable0_of_S, stableS_handed]).
  assert (E0 : forall w, A0 w -> Iv kinds w) by (intros w H; exact (proj1 H)).
  eapply (hoare_bind _ _ (fun (_ : kobj) w => A0 w)).
  { exact (hoare_q0 (kobj_get k) A0 _ (q0_kobj_get k) SA0 E0). }
  intro ko.
  eapply (hoare_bind _ _ (fun r w => (Iv kinds w /\ forall e, r = Some e -> handed kd meta w (ce_key e)) /\ handed kd meta w k)).
  { exact (hoare_carry (kc_read cid meta) (fun w => handed kd meta w k) _ _ _ (pres_kc_read Rs Rs_frame cid meta)
             (stableS_handed kd meta k) (kc_read_spec kinds cid b meta Hk Ok)). }
  intro r.
  pose (A1 := fun w => (Iv kinds w /\ forall e, r = Some e -> handed kd meta w (ce_key e)) /\ handed kd meta w k).
  assert (SA1 : stable0 A1).
  { apply stable0_and; [apply stable0_and; [apply stable0_Iv|] | apply stable0_of_S, stableS_handed].
    intros w w' R H e0 He. eapply (stable0_of_S _ (stableS_handed kd meta (ce_key e0))); [exact R | exact (H e0 He)]. }
  assert (E1 : forall w, A1 w -> Iv kinds w) by (intros w H; exact (proj1 (proj1 H))).
  eapply (hoare_bind _ _ (fun (_ : Z) w => A1 w)); [exact (hoare_q0 get_now A1 _ q0_get_now SA1 E1)|].
  intro now.
  eapply (hoare_bind _ _ (fun (_ : bool) w => A1 w)).
  { assert (Qx : quiet0 (match r with
                         | Some e => eo <- kobj_get (ce_key e) ;; ret (ko_created eo =? ko_created ko)
                         | None => ret false end)).
    { destruct r; q0_go. }
    exact (hoare_q0 _ A1 _ Qx SA1 E1). }
  intro same.
  assert (Fresh : hoare A1 (cck_wrap k;;; kc_write cid meta {| ce_loaded := now; ce_key := k |};;; ret k)
                        (fun k0 w => Iv kinds w /\ handed kd meta w k0) (Iv kinds)).
  { eapply (hoare_bind _ _ (fun (_ : unit) w => A1 w)); [exact (hoare_q0 (cck_wrap k) A1 _ (q0_cck_wrap k) SA1 E1)|].
    intros _.
    eapply (hoare_bind _ _ (fun (_ : unit) w => Iv kinds w /\ handed kd meta w k)).
    { eapply hoare_pre.
      - exact (hoare_carry (kc_write cid meta {| ce_loaded := now; ce_key := k |}) (fun w => handed kd meta w k) _ _ _
                 (pres_kc_write Rs Rs_frame cid meta _) (stableS_handed kd meta k)
                 (kc_write_spec kinds cid b meta {| ce_loaded := now; ce_key := k |} Hk Ok)).
      - intros w [[HI _] Hh]. cbn [ce_key]. tauto. }
    intros _. apply hoare_ret. tauto. }
  destruct r as [e|]; [destruct same|]; [|exact Fresh|exact Fresh].
  (* the cached object has the same creation stamp: keep it, drop the reloaded one *)
  eapply (hoare_bind _ _ (fun (_ : unit) w => A1 w)); [exact (hoare_q0 _ A1 _ (q0_ck_set_revoked _ _) SA1 E1)|].
  intros _.
  eapply (hoare_bind _ _ (fun (_ : unit) w => A1 w)); [exact (hoare_q0 _ A1 _ (q0_ck_close k) SA1 E1)|].
  intros _.
  eapply (hoare_bind _ _ (fun (_ : unit) w => Iv kinds w /\ handed kd meta w (ce_key e))).
  { eapply hoare_pre.
    - exact (hoare_carry (kc_write cid meta {| ce_loaded := now; ce_key := ce_key e |}) (fun w => handed kd meta w (ce_key e)) _ _ _
               (pres_kc_write Rs Rs_frame cid meta _) (stableS_handed kd meta (ce_key e))
               (kc_write_spec kinds cid b meta {| ce_loaded := now; ce_key := ce_key e |} Hk Ok)).
    - intros w [[HI He] _]. cbn [ce_key]. pose proof (He e eq_refl). tauto. }
  intros _. apply hoare_ret. tauto.
Qed.

Lemma kc_get_fresh_spec kinds cid b rci meta :
  nth_error kinds cid = Some b -> okid (kd_of b) (km_id meta) ->
  hoare (Iv kinds) (kc_get_fresh cid rci meta)
        (fun f w => Iv kinds w /\ forall k fr, f = Some (k, fr) -> handed (kd_of b) meta w k) (Iv kinds).
Proof.
  intros Hk Ok. unfold kc_get_fresh. set (kd := kd_of b).
  eapply (hoare_bind _ _ _); [exact (kc_read_spec kinds cid b meta Hk Ok)|].
  intros [e|].
  - pose (A := fun w => Iv kinds w /\ handed kd meta w (ce_key e)).
    assert (SA : stable0 A) by (apply stable0_and; [apply stable0_Iv | apply stable0_of_S, stableS_handed]).
    eapply (hoare_bind _ _ (fun (_ : bool) w => A w)).
    + eapply hoare_pre; [exact (hoare_q0 _ A _ (q0_reload_required e rci) SA (fun w H => proj1 H))|].
      intros w [HI He]. split; [exact HI | exact (He e eq_refl)].
    + intro stale. apply hoare_ret. intros w [HI Hh]. split; [exact HI|]. intros k fr Hf. inversion Hf; subst. exact Hh.
  - apply hoare_ret. intros w [HI _]. split; [exact HI|]. intros k fr Hf. discriminate.
Qed.

Lemma incr_ret_spec kinds kd meta k :
  hoare (fun w => Iv kinds w /\ handed kd meta w k) (cck_increment k;;; ret k)
        (fun k0 w => Iv kinds w /\ handed kd meta w k0) (Iv kinds).
Proof.
  pose (A := fun w => Iv kinds w /\ handed kd meta w k).
  assert (SA : stable0 A) by (apply stable0_and; [apply stable0_Iv | apply stable0_of_S, stableS_handed]).
  eapply (hoare_bind _ _ (fun (_ : unit) w => A w)); [exact (hoare_q0 _ A _ (q0_cck_increment k) SA (fun w H => proj1 H))|].
  intros _. apply hoare_ret. intros w H; exact H.
Qed.

Lemma wrap_ret_spec kinds kd meta k :
  hoare (fun w => Iv kinds w /\ handed kd meta w k) (cck_wrap k;;; ret k)
        (fun k0 w => Iv kinds w /\ handed kd meta w k0) (Iv kinds).
Proof.
  pose (A := fun w => Iv kinds w /\ handed kd meta w k).
  assert (SA : stable0 A) by (apply stable0_and; [apply stable0_Iv | apply stable0_of_S, stableS_handed]).
  eapply (hoare_bind _ _ (fun (_ : unit) w => A w)); [exact (hoare_q0 _ A _ (q0_cck_wrap k) SA (fun w H => proj1 H))|].
  intros _. apply hoare_ret. intros w H; exact H.
Qed.

Definition cache_kind (kinds : list bool) (c : option nat) (b : bool) : Prop :=
  forall cid, c = Some cid -> nth_error kinds cid = Some b.

Lemma get_or_load_spec kinds c b rci meta loader :
  cache_kind kinds c b -> okid (kd_of b) (km_id meta) -> loader_ok kinds (kd_of b) loader meta ->
  hoare (Iv kinds) (get_or_load c rci meta loader) (fun k w => Iv kinds w /\ handed (kd_of b) meta w k) (Iv kinds).
Proof.
  intros Hc Ok LO. unfold get_or_load. destruct c as [cid|].
  - pose proof (Hc cid eq_refl) as Hk.
    assert (Tail : hoare (Iv kinds) (k <- kc_load cid meta loader;; cck_increment k;;; ret k)
                         (fun k w => Iv kinds w /\ handed (kd_of b) meta w k) (Iv kinds)).
    { eapply (hoare_bind _ _ _); [exact (kc_load_spec kinds cid b meta loader Hk Ok LO)|]. intro k. apply incr_ret_spec. }
    eapply (hoare_bind _ _ _); [exact (kc_get_fresh_spec kinds cid b rci meta Hk Ok)|].
    intros [[k [|]]|].
    + eapply hoare_pre; [apply (incr_ret_spec kinds (kd_of b) meta k)|]. intros w [HI H]. split; [exact HI | exact (H k true eq_refl)].
    + eapply hoare_pre with (P' := Iv kinds); [|intros w [HI _]; exact HI].
      eapply (hoare_bind _ _ _); [exact (kc_get_fresh_spec kinds cid b rci meta Hk Ok)|].
      intros [[k2 [|]]|].
      * eapply hoare_pre; [apply (incr_ret_spec kinds (kd_of b) meta k2)|]. intros w [HI H]. split; [exact HI | exact (H k2 true eq_refl)].
      * eapply hoare_pre; [exact Tail | intros w [HI _]; exact HI].
      * eapply hoare_pre; [exact Tail | intros w [HI _]; exact HI].
    + eapply hoare_pre with (P' := Iv kinds); [|intros w [HI _]; exact HI].
      eapply (hoare_bind _ _ _); [exact (kc_get_fresh_spec kinds cid b rci meta Hk Ok)|].
      intros [[k2 [|]]|].
      * eapply hoare_pre; [apply (incr_ret_spec kinds (kd_of b) meta k2)|]. intros w [HI H]. split; [exact HI | exact (H k2 true eq_refl)].
      * eapply hoare_pre; [exact Tail | intros w [HI _]; exact HI].
      * eapply hoare_pre; [exact Tail | intros w [HI _]; exact HI].
  - destruct LO as [_ LS]. eapply (hoare_bind _ _ _); [exact LS|]. intro k. apply wrap_ret_spec.
Qed.

Lemma get_or_load_latest_spec kinds c b rci expire id loader :
  cache_kind kinds c b -> okid (kd_of b) id -> loader_ok kinds (kd_of b) loader {| km_id := id; km_created := 0 |} ->
  hoare (Iv kinds) (get_or_load_latest c rci expire id loader) (fun k w => Iv kinds w /\ bound (kd_of b) w k id) (Iv kinds).
Proof.
  intros Hc Ok LO. unfold get_or_load_latest. set (meta := {| km_id := id; km_created := 0 |}). set (kd := kd_of b).
  assert (Okm : okid kd (km_id meta)) by exact Ok.
  destruct c as [cid|].
  - pose proof (Hc cid eq_refl) as Hk.
    eapply (hoare_bind _ _ (fun (f : option (nat * bool)) w => Iv kinds w /\ forall k fr, f = Some (k, fr) -> handed kd meta w k));
      [exact (kc_get_fresh_spec kinds cid b rci meta Hk Okm)|].
    intro f.
    eapply (hoare_bind _ _ (fun key w => Iv kinds w /\ handed kd meta w key)).
    { assert (Ld : hoare (fun w => Iv kinds w /\ forall k fr, f = Some (k, fr) -> handed kd meta w k) (kc_load cid meta loader)
                         (fun key w => Iv kinds w /\ handed kd meta w key) (Iv kinds)).
      { eapply hoare_pre; [exact (kc_load_spec kinds cid b meta loader Hk Okm LO) | intros w [HI _]; exact HI]. }
      destruct f as [[k [|]]|]; [|exact Ld|exact Ld].
      apply hoare_ret. intros w [HI H]. split; [exact HI | exact (H k true eq_refl)]. }
    intro key.
    pose (A := fun w => Iv kinds w /\ handed kd meta w key).
    assert (SA : stable0 A) by (apply stable0_and; [apply stable0_Iv | apply stable0_of_S, stableS_handed]).
    eapply (hoare_bind _ _ (fun (_ : bool) w => A w)); [exact (hoare_q0 _ A _ (q0_is_key_invalid key expire) SA (fun w H => proj1 H))|].
    intros [|].
    + (* invalid: reload, cache under the reloaded key's own stamp *)
      destruct LO as [LP LS].
      eapply (hoare_bind _ _ (fun reloaded w => Iv kinds w /\ handed kd meta w reloaded)).
      { eapply hoare_pre; [exact LS | intros w H; exact (proj1 H)]. }
      intro reloaded.
      pose (B := fun w => Iv kinds w /\ handed kd meta w reloaded).
      assert (SB : stable0 B) by (apply stable0_and; [apply stable0_Iv | apply stable0_of_S, stableS_handed]).
      assert (EB : forall w, B w -> Iv kinds w) by (intros w H; exact (proj1 H)).
      eapply (hoare_bind _ _ (fun ro w => B w /\ created_of w reloaded (ko_created ro))).
      { eapply hoare_post; [exact (hoare_q0r (kobj_get reloaded) B _ _ (q0_kobj_get reloaded) SB (kobj_get_res reloaded) EB)|].
        intros o w [H1 H2]. split; [exact H1|]. exists o. split; [exact H2 | reflexivity]. }
      intro ro.
      pose (B1 := fun w => B w /\ created_of w reloaded (ko_created ro)).
      assert (SB1 : stable0 B1) by (apply stable0_and; [exact SB | apply stable0_of_S, stableS_created_of]).
      assert (EB1 : forall w, B1 w -> Iv kinds w) by (intros w H; exact (EB w (proj1 H))).
      eapply (hoare_bind _ _ (fun (_ : Z) w => B1 w)); [exact (hoare_q0 get_now B1 _ q0_get_now SB1 EB1)|].
      intro now.
      eapply (hoare_bind _ _ (fun (_ : unit) w => B1 w)); [exact (hoare_q0 _ B1 _ (q0_cck_wrap reloaded) SB1 EB1)|].
      intros _.
      set (meta2 := {| km_id := id; km_created := ko_created ro |}).
      eapply (hoare_bind _ _ (fun (_ : unit) w => Iv kinds w /\ bound kd w reloaded id)).
      { eapply hoare_pre.
        - exact (hoare_carry (kc_write cid meta2 {| ce_loaded := now; ce_key := reloaded |}) (fun w => bound kd w reloaded id) _ _ _
                   (pres_kc_write Rs Rs_frame cid meta2 _) (stableS_bound kd reloaded id)
                   (kc_write_spec kinds cid b meta2 {| ce_loaded := now; ce_key := reloaded |} Hk Ok)).
        - intros w [[HI [Hb _]] Hcr]. cbn [ce_key]. split; [|exact Hb]. split; [exact HI|]. split; [exact Hb|]. intros _. exact Hcr. }
      intros _.
      pose (D := fun w => Iv kinds w /\ bound kd w reloaded id).
      assert (SD : stable0 D) by (apply stable0_and; [apply stable0_Iv | apply stable0_of_S, stableS_bound]).
      eapply (hoare_bind _ _ (fun (_ : unit) w => D w)); [exact (hoare_q0 _ D _ (q0_cck_increment reloaded) SD (fun w H => proj1 H))|].
      intros _. apply hoare_ret. intros w H; exact H.
    + eapply (hoare_bind _ _ (fun (_ : unit) w => A w)); [exact (hoare_q0 _ A _ (q0_cck_increment key) SA (fun w H => proj1 H))|].
      intros _. apply hoare_ret. intros w [HI [Hb _]]. split; assumption.
  - destruct LO as [_ LS]. eapply (hoare_bind _ _ _); [exact LS|]. intro k.
    eapply hoare_post; [apply (wrap_ret_spec kinds kd meta k)|]. intros k0 w [HI [Hb _]]. split; assumption.
Qed.

Lemma kc_close_spec kinds c :
  (forall cid, c = Some cid -> exists b, nth_error kinds cid = Some b) ->
  hoare (Iv kinds) (kc_close c) (fun _ w => Iv kinds w) (Iv kinds).
Proof.
  intro Hc. unfold kc_close. destruct c as [cid|]; [|apply hoare_ret; tauto].
  destruct (Hc cid eq_refl) as [b Hk].
  eapply (hoare_bind _ _ (fun kc w => Iv kinds w /\ nth_error (w_caches w) cid = Some kc)).
  { exact (hoare_q0r (get_cache cid) (Iv kinds) _ _ (q0_get_cache cid) (stable0_Iv kinds) (get_cache_res cid) (fun w H => H)). }
  intro kc.
  pose (A := fun w => Iv kinds w /\ cache_ok (kd_of b) w kc).
  assert (SA : stable0 A) by (apply stable0_and; [apply stable0_Iv | apply stable_stable0, stable_cache_ok]).
  eapply (hoare_bind _ _ (fun (_ : Z) w => A w)).
  { eapply hoare_pre; [exact (hoare_q0 get_now A _ q0_get_now SA (fun w H => proj1 H))|].
    intros w [HI Hcc]. split; [exact HI|]. destruct HI as [_ [L C F S]]. exact (C cid kc b Hcc Hk). }
  intro now.
  apply (hoare_pull _ (b_good (kc_backing kc))); [intros w [_ [G _]]; exact G|]. intro G.
  pose proof (backing_close_spec (kc_backing kc) now G) as BC.
  destruct (backing_close (kc_backing kc) now) as [b' ev]. destruct BC as [G' [Sub _]].
  eapply (hoare_bind _ _ (fun (_ : unit) w => Iv kinds w)).
  { eapply hoare_pre; [exact (put_cache_spec kinds cid b {| kc_backing := b'; kc_latest := kc_latest kc |} Hk)|].
    intros w [HI [_ [EN AL]]]. split; [exact HI|]. split; [exact G'|]. cbn [kc_backing kc_latest]. split; [|exact AL].
    intros ks e H. exact (EN ks e (Sub ks e H)). }
  intros _. exact (hoare_q0 (closes ev) (Iv kinds) _ (q0_closes ev) (stable0_Iv kinds) (fun w H => H)).
Qed.

(* ---- the metastore ---------------------------------------------------------------------------------- *)

Lemma store_latest_spec id st : forall best c r,
  store_latest id st best = Some (c, r) ->
  best = Some (c, r) \/ (store_find id c st = Some r /\ forall bc br, best = Some (bc, br) -> bc < c).
Proof.
  induction st as [|[[i k] r0] t IH]; intros best c r H; cbn [store_latest store_find] in *.
  - left. exact H.
  - destruct (str_eqb i id) eqn:Ei; cbn [andb].
    + set (best' := match best with
                    | Some (bc, _) => if bc <? k then Some (k, r0) else best
                    | None => Some (k, r0) end) in *.
      destruct (IH best' c r H) as [Hb|[Hf Hlt]].
      * (* the result is best' *)
        unfold best' in Hb. destruct best as [[bc br]|].
        -- destruct (bc <? k) eqn:Eb.
           ++ inversion Hb; subst. right. rewrite Z.eqb_refl. split; [reflexivity|].
              intros bc0 br0 E. inversion E; subst. apply Z.ltb_lt. exact Eb.
           ++ left. exact Hb.
        -- inversion Hb; subst. right. rewrite Z.eqb_refl. split; [reflexivity | intros ? ? E; discriminate E].
      * (* found further down, strictly later than best' *)
        right. assert (Hk : k < c).
        { unfold best' in Hlt. destruct best as [[bc br]|].
          - destruct (bc <? k) eqn:Eb; [eapply Hlt; reflexivity|]. apply Z.ltb_ge in Eb. pose proof (Hlt bc br eq_refl). lia.
          - eapply Hlt; reflexivity. }
        assert (Ekc : (k =? c) = false) by (apply Z.eqb_neq; lia). rewrite Ekc. split; [exact Hf|].
        intros bc br E. subst best. unfold best' in Hlt. destruct (bc <? k) eqn:Eb.
        -- apply Z.ltb_lt in Eb. lia.
        -- eapply Hlt; reflexivity.
    + exact (IH best c r H).
Qed.

Lemma store_latest_find id st r :
  option_map snd (store_latest id st None) = Some r -> exists c, store_find id c st = Some r.
Proof.
  destruct (store_latest id st None) as [[c r']|] eqn:E; cbn; [|discriminate]. intro H. inversion H; subst.
  destruct (store_latest_spec id st None c r E) as [Hb|[Hf _]]; [discriminate|]. exists c. exact Hf.
Qed.

Definition new_row_ok (st : list row) (id : str) (c : Z) (r : ekr) : Prop :=
  e_created r = c /\
  ((id = SKid /\ e_parent r = None /\ exists m, e_key r = CKms (PKey m)) \/
   (exists p, id = IKid p /\ exists c' skm n m, e_parent r = Some {| km_id := SKid; km_created := c' |} /\ sk_row st c' skm /\
                                               e_key r = CAead skm n (PKey m))).

Lemma rows_kept_app st id c r : store_find id c st = None -> rows_kept st (st ++ [(id, c, r)]).
Proof. intros Fd i k r0 H. rewrite store_find_app, H. reflexivity. Qed.

Lemma store_ok_app st id c r :
  store_ok st -> store_find id c st = None -> new_row_ok st id c r -> store_ok (st ++ [(id, c, r)]).
Proof.
  intros SO Fd [Ec NR] i k r0 H. pose proof (rows_kept_app st id c r Fd) as K.
  rewrite store_find_app in H. destruct (store_find i k st) as [x|] eqn:Fx.
  - inversion H; subst. destruct (SO i k r0 Fx) as [[Ei [m Hm]]|[p [Ei [m Hm]]]].
    + left. split; [exact Ei|]. exists m. eapply sk_row_kept; eassumption.
    + right. exists p. split; [exact Ei|]. exists m. eapply ik_row_kept; eassumption.
  - destruct (str_eqb id i && (c =? k)) eqn:Em; [|discriminate]. injection H as Hr. subst r0.
    apply andb_true_iff in Em as [E1 E2]. apply str_eqb_eq in E1. apply Z.eqb_eq in E2. subst i k.
    assert (Fn : store_find id c (st ++ [(id, c, r)]) = Some r).
    { rewrite store_find_app, Fx, str_eqb_refl, Z.eqb_refl. reflexivity. }
    destruct NR as [[Ei [Ep [m Ek]]]|[p [Ei [c' [skm [n [m [Ep [Hs Ek]]]]]]]]].
    + left. split; [exact Ei|]. exists m. subst id. exists r. repeat split; assumption.
    + right. exists p. split; [exact Ei|]. exists m, r, c', skm, n. repeat split; try assumption.
      eapply sk_row_kept; eassumption.
Qed.

Lemma stable_CI kinds : stable (CI kinds).
Proof.
  intros w w' R [L C F S]. pose proof R as [_ [_ [EC [ESs [EF _]]]]]. constructor.
  - rewrite EC. exact L.
  - intros cid kc b H1 H2. rewrite EC in H1. eapply (stable_cache_ok (kd_of b) kc); [exact R|]. eapply C; eassumption.
  - intros f fa H. rewrite EF in H. eapply F; exact H.
  - intros s0 x H. rewrite ESs in H. destruct (S s0 x H) as [[fa Hf] Rest]. split; [exists fa; rewrite EF; exact Hf | exact Rest].
Qed.

Lemma Rq_bookkeeping w w' :
  w_store w' = w_store w -> w_secrets w' = w_secrets w -> w_kobjs w' = w_kobjs w -> w_caches w' = w_caches w ->
  w_sessions w' = w_sessions w -> w_factories w' = w_factories w -> w_now w' = w_now w -> Rq w w'.
Proof. intros. apply Rq0_Rq, Rq0_same; assumption. Qed.

Lemma Rq_store_app w w' id c r :
  store_find id c (w_store w) = None -> w_store w' = w_store w ++ [(id, c, r)] ->
  w_secrets w' = w_secrets w -> w_kobjs w' = w_kobjs w -> w_caches w' = w_caches w ->
  w_sessions w' = w_sessions w -> w_factories w' = w_factories w -> w_now w' = w_now w -> Rq w w'.
Proof.
  intros Fd Es E2 E3 E4 E5 E6 E7. repeat split; try assumption.
  - intros i k r0 H. rewrite Es. apply rows_kept_app; assumption.
  - destruct (secrets_mono_same w w' E2 E3) as [X _]. exact X.
  - destruct (secrets_mono_same w w' E2 E3) as [_ X]. exact X.
Qed.

(* Store: whatever the metastore answers (true, false, a lying "duplicate", an error after writing), the table
   stays well formed; "true" means the row is there *)
Lemma m_store_spec kinds (F : world -> Prop) id c r :
  stable F ->
  hoare (fun w => F w /\ Iv kinds w /\ new_row_ok (w_store w) id c r) (m_store id c r)
        (fun b w => F w /\ Iv kinds w /\ (b = true -> store_find id c (w_store w) = Some r))
        (fun w => F w /\ Iv kinds w).
Proof.
  intros SF w [HF [[SO HCI] NR]].
  assert (Same : forall w', w_store w' = w_store w -> w_secrets w' = w_secrets w -> w_kobjs w' = w_kobjs w -> w_caches w' = w_caches w ->
                            w_sessions w' = w_sessions w -> w_factories w' = w_factories w -> w_now w' = w_now w -> F w' /\ Iv kinds w').
  { intros w' E1 E2 E3 E4 E5 E6 E7. pose proof (Rq_bookkeeping w w' E1 E2 E3 E4 E5 E6 E7) as R.
    split; [eapply SF; eassumption|]. split; [rewrite E1; exact SO | eapply stable_CI; eassumption]. }
  assert (App : forall w', store_find id c (w_store w) = None -> w_store w' = w_store w ++ [(id, c, r)] ->
                           w_secrets w' = w_secrets w -> w_kobjs w' = w_kobjs w -> w_caches w' = w_caches w ->
                           w_sessions w' = w_sessions w -> w_factories w' = w_factories w -> w_now w' = w_now w ->
                           F w' /\ Iv kinds w' /\ store_find id c (w_store w') = Some r).
  { intros w' Fd Es E2 E3 E4 E5 E6 E7. pose proof (Rq_store_app w w' id c r Fd Es E2 E3 E4 E5 E6 E7) as R.
    split; [eapply SF; eassumption|]. split.
    - split; [rewrite Es; apply store_ok_app; assumption | eapply stable_CI; eassumption].
    - rewrite Es, store_find_app, Fd, str_eqb_refl, Z.eqb_refl. reflexivity. }
  unfold m_store, bind, next_call, emit, upd, ret, store_insert. cbn [fst snd].
  destruct (fault_at (w_calls w) (w_faults w)) as [[| |]|]; cbn [fst snd].
  - destruct (Same (with_trace (EvMStore id c (e_parent r) StErr :: w_trace (with_calls (S (w_calls w)) w)) (with_calls (S (w_calls w)) w))) as [A B]; try reflexivity.
    split; [exact A|]. split; [exact B | discriminate].
  - destruct (Same (with_trace (EvMStore id c (e_parent r) StDup :: w_trace (with_calls (S (w_calls w)) w)) (with_calls (S (w_calls w)) w))) as [A B]; try reflexivity.
    split; [exact A|]. split; [exact B | discriminate].
  - wsimpl. destruct (store_find id c (w_store w)) eqn:Fd; cbn [fst snd].
    + match goal with |- context [with_trace ?t ?x] => destruct (Same (with_trace t x)) as [A B]; try reflexivity end.
      split; [exact A|]. split; [exact B | discriminate].
    + match goal with |- context [with_trace ?t ?x] => destruct (App (with_trace t x)) as [A [B C]]; try reflexivity; try exact Fd end.
      split; [exact A|]. split; [exact B | discriminate].
  - wsimpl. destruct (store_find id c (w_store w)) eqn:Fd; cbn [fst snd].
    + match goal with |- context [with_trace ?t ?x] => destruct (Same (with_trace t x)) as [A B]; try reflexivity end.
      split; [exact A|]. split; [exact B | discriminate].
    + match goal with |- context [with_trace ?t ?x] => destruct (App (with_trace t x)) as [A [B C]]; try reflexivity; try exact Fd end.
      split; [exact A|]. split; [exact B | intros _; exact C].
Qed.

(* ---- envelope.go -------------------------------------------------------------------------------------- *)

Definition env_ok (kinds : list bool) (e : env) : Prop :=
  p_svc (en_part e) = svc /\ p_prod (en_part e) = prod /\ p_suffix (en_part e) = None /\
  cache_kind kinds (en_sk e) true /\ cache_kind kinds (en_ik e) false.

Lemma sk_id_env kinds e : env_ok kinds e -> sk_id e = SKid.
Proof. intros [A [B [C _]]]. unfold sk_id, system_key_id. rewrite C, A, B. reflexivity. Qed.

Lemma ik_id_env kinds e : env_ok kinds e -> ik_id e = IKid (p_id (en_part e)).
Proof. intros [A [B [C _]]]. unfold ik_id, intermediate_key_id. rewrite C, A, B. reflexivity. Qed.

Lemma stable0_store (P : list row -> Prop) : stable0 (fun w => P (w_store w)).
Proof. intros w w' [_ E] H. rewrite E. exact H. Qed.

Definition sk_rec (st : list row) (r : ekr) (m : nat) : Prop :=
  store_find SKid (e_created r) st = Some r /\ e_parent r = None /\ e_key r = CKms (PKey m).

Definition ik_rec (st : list row) (i : str) (r : ekr) (m : nat) : Prop :=
  store_find i (e_created r) st = Some r /\
  exists c' skm n, e_parent r = Some {| km_id := SKid; km_created := c' |} /\ sk_row st c' skm /\ e_key r = CAead skm n (PKey m).

Lemma sk_rec_row st r m : sk_rec st r m -> sk_row st (e_created r) m.
Proof. intros [H1 [H2 H3]]. exists r. repeat split; assumption. Qed.

Lemma ik_rec_row st i r m : ik_rec st i r m -> ik_row st i (e_created r) m.
Proof. intros [H1 [c' [skm [n [H2 [H3 H4]]]]]]. exists r, c', skm, n. repeat split; assumption. Qed.

Lemma store_ok_sk st c r : store_ok st -> store_find SKid c st = Some r -> e_created r = c /\ exists m, sk_rec st r m.
Proof.
  intros SO H. destruct (SO _ _ _ H) as [[_ [m [r' [H1 [H2 [H3 H4]]]]]]|[p [E _]]]; [|exfalso; exact (SK_not_IK p E)].
  rewrite H in H1. inversion H1; subst r'. split; [exact H2|]. exists m. unfold sk_rec. rewrite H2. repeat split; assumption.
Qed.

Lemma store_ok_ik st p c r : store_ok st -> store_find (IKid p) c st = Some r -> e_created r = c /\ exists m, ik_rec st (IKid p) r m.
Proof.
  intros SO H. destruct (SO _ _ _ H) as [[E _]|[p' [_ [m [r' [c' [skm [n [H1 [H2 [H3 [H4 H5]]]]]]]]]]]]; [exfalso; exact (SK_not_IK p (eq_sym E))|].
  rewrite H in H1. inversion H1; subst r'. split; [exact H2|]. exists m. unfold ik_rec. rewrite H2. split; [exact H|].
  exists c', skm, n. repeat split; assumption.
Qed.

Lemma stableS_sk_row c m : stableS (fun w => sk_row (w_store w) c m).
Proof. intros w w' [K _] H. eapply sk_row_kept; [exact K | exact H]. Qed.

Lemma stableS_ik_rec i r m : stableS (fun w => ik_rec (w_store w) i r m).
Proof.
  intros w w' [K _] [H1 [c' [skm [n [H2 [H3 H4]]]]]]. split; [apply K; exact H1|]. exists c', skm, n.
  repeat split; try assumption. eapply sk_row_kept; [exact K | exact H3].
Qed.

Lemma system_key_from_ekr_spec kinds r m :
  hoare (fun w => Iv kinds w /\ sk_rec (w_store w) r m) (system_key_from_ekr r)
        (fun k w => Iv kinds w /\ bound KSk w k SKid /\ created_of w k (e_created r)) (Iv kinds).
Proof.
  unfold system_key_from_ekr.
  pose (A := fun w => Iv kinds w /\ sk_rec (w_store w) r m).
  assert (SA : stable0 A) by (apply stable0_and; [apply stable0_Iv | apply (stable0_store (fun st => sk_rec st r m))]).
  assert (EA : forall w, A w -> Iv kinds w) by (intros w H; exact (proj1 H)).
  eapply (hoare_bind _ _ (fun p w => A w /\ kms_open (e_key r) = Some p)).
  { exact (hoare_q0r (kms_decrypt (e_key r)) A _ _ (q0_kms_decrypt _) SA (kms_decrypt_res _) EA). }
  intro p.
  eapply hoare_weaken.
  - exact (hoare_q0r (new_crypto_key (e_created r) (e_revoked r) p) (fun w => A w /\ kms_open (e_key r) = Some p) (Iv kinds) _
             (q0_new_crypto_key _ _ _) (stable0_and _ _ SA (stable0_pure _)) (new_crypto_key_res _ _ _) (fun w H => EA w (proj1 H))).
  - intros w H; exact H.
  - intros k w [[[HI [H1 [H2 H3]]] Ho] [Hc [Hm _]]]. rewrite H3 in Ho. cbn in Ho. inversion Ho; subst p.
    split; [exact HI|]. split; [|exact Hc]. split; [reflexivity|]. exists (e_created r), m.
    split; [exact Hc|]. split; [exact Hm|]. cbn [row_ok]. apply sk_rec_row. repeat split; assumption.
  - intros w H; exact H.
Qed.

Lemma load_system_key_ok kinds meta : km_id meta = SKid -> loader_ok kinds KSk load_system_key meta.
Proof.
  intro Eid. split; [exact (pres_load_system_key Rs Rs_frame meta)|]. unfold load_system_key. rewrite Eid.
  eapply (hoare_bind _ _ (fun r w => Iv kinds w /\ r = store_find SKid (km_created meta) (w_store w))).
  { exact (m_load_spec (Iv kinds) (Iv kinds) SKid (km_created meta) (stable0_Iv kinds) (fun w H => H)). }
  intros [r|]; [|apply hoare_fail; tauto].
  eapply hoare_weaken with (P' := fun w => exists m, (Iv kinds w /\ sk_rec (w_store w) r m) /\ e_created r = km_created meta)
                           (Q' := fun k w => Iv kinds w /\ handed KSk meta w k) (E' := Iv kinds).
  - apply hoare_ex. intro m. apply hoare_pre with (P' := fun w => e_created r = km_created meta /\ (Iv kinds w /\ sk_rec (w_store w) r m)); [|tauto].
    apply hoare_pure. intro Ec.
    eapply hoare_post with (Q' := fun k w => Iv kinds w /\ bound KSk w k SKid /\ created_of w k (e_created r)); [exact (system_key_from_ekr_spec kinds r m)|].
    intros k w [HI [Hb Hc]]. split; [exact HI|]. split; [rewrite Eid; exact Hb|]. intros _. rewrite <- Ec. exact Hc.
  - intros w [HI Hr]. symmetry in Hr. destruct HI as [SO HCI].
    destruct (store_ok_sk _ _ _ SO Hr) as [Ec [m Hm]]. exists m. split; [split; [split; assumption | exact Hm] | exact Ec].
  - intros k w H. exact H.
  - tauto.
Qed.

Lemma get_or_load_system_key_spec kinds e pm :
  env_ok kinds e -> km_id pm = SKid ->
  hoare (Iv kinds) (get_or_load_system_key e pm) (fun k w => Iv kinds w /\ bound KSk w k SKid) (Iv kinds).
Proof.
  intros [_ [_ [_ [Hsk _]]]] Eid. unfold get_or_load_system_key.
  eapply hoare_post; [exact (get_or_load_spec kinds (en_sk e) true (p_rci (en_pol e)) pm load_system_key Hsk Eid (load_system_key_ok kinds pm Eid))|].
  intros k w [HI [Hb _]]. rewrite Eid in Hb. split; assumption.
Qed.

Lemma pres_carry {A} (m : M A) (F P : world -> Prop) (Q : A -> world -> Prop) :
  pres Rs m -> stableS F -> hoare P m Q P -> hoare (fun w => P w /\ F w) m (fun a w => Q a w /\ F w) (fun w => P w /\ F w).
Proof. intros. apply hoare_frame; assumption. Qed.

(* intermediateKeyFromEKR: whatever system key object is used, the AEAD only opens the row under the material that sealed it *)
Lemma intermediate_key_from_ekr_spec kinds e sk r i m :
  env_ok kinds e -> okid KIk i ->
  hoare (fun w => Iv kinds w /\ ik_rec (w_store w) i r m) (intermediate_key_from_ekr e sk r)
        (fun k w => Iv kinds w /\ bound KIk w k i /\ created_of w k (e_created r)) (Iv kinds).
Proof.
  intros EO Oi. unfold intermediate_key_from_ekr.
  pose (A := fun w => Iv kinds w /\ ik_rec (w_store w) i r m).
  assert (SA : stable0 A) by (apply stable0_and; [apply stable0_Iv | apply stable0_of_S, stableS_ik_rec]).
  assert (EA : forall w, A w -> Iv kinds w) by (intros w H; exact (proj1 H)).
  eapply (hoare_bind _ _ (fun (_ : kobj) w => A w)); [exact (hoare_q0 _ A _ (q0_kobj_get sk) SA EA)|].
  intro sko.
  eapply (hoare_bind _ _ (fun (_ : nat) w => A w)).
  { apply (hoare_pull _ (exists c' skm n, e_parent r = Some {| km_id := SKid; km_created := c' |} /\ e_key r = CAead skm n (PKey m))).
    { intros w [_ [_ [c' [skm [n [H2 [_ H4]]]]]]]. exists c', skm, n. split; assumption. }
    intros [c' [skm [n [Ep Ek]]]]. rewrite Ep. cbn [km_created].
    destruct (ko_created sko =? c'); [apply hoare_ret; intros w H; exact H|].
    eapply hoare_weaken.
    - exact (hoare_frame _ (fun w => ik_rec (w_store w) i r m) _ _ _ (pres_get_or_load_system_key Rs Rs_frame e _)
               (stableS_ik_rec i r m) (get_or_load_system_key_spec kinds e {| km_id := SKid; km_created := c' |} EO eq_refl)).
    - intros w H; exact H.
    - intros k w [[HI _] Hr]. split; assumption.
    - intros w [HI _]. exact HI. }
  intro sk'.
  eapply (hoare_bind _ _ (fun (_ : ptxt) w => A w)); [exact (hoare_q0 _ A _ (q0_key_bytes sk') SA EA)|].
  intro skb.
  eapply (hoare_bind _ _ (fun ikb w => A w /\ aead_open skb (e_key r) = Some ikb)).
  { exact (hoare_q0r (aead_decrypt (e_key r) skb) A _ _ (q0_aead_decrypt _ _) SA (aead_decrypt_res _ _) EA). }
  intro ikb.
  eapply hoare_weaken.
  - exact (hoare_q0r (new_crypto_key (e_created r) (e_revoked r) ikb) (fun w => A w /\ aead_open skb (e_key r) = Some ikb) (Iv kinds) _
             (q0_new_crypto_key _ _ _) (stable0_and _ _ SA (stable0_pure _)) (new_crypto_key_res _ _ _) (fun w H => EA w (proj1 H))).
  - intros w H; exact H.
  - intros k w [[[HI Hr] Ho] [Hc [Hm _]]]. pose proof Hr as [H1 [c' [skm [n [H2 [H3 H4]]]]]].
    rewrite H4 in Ho. unfold aead_open in Ho. destruct skb as [kk| |]; try discriminate.
    destruct (Nat.eqb kk skm); [|discriminate]. inversion Ho; subst ikb.
    split; [exact HI|]. split; [|exact Hc]. split; [exact Oi|]. exists (e_created r), m.
    split; [exact Hc|]. split; [exact Hm|]. cbn [row_ok]. apply ik_rec_row. exact Hr.
  - intros w H; exact H.
Qed.

Lemma try_store_system_key_spec kinds e sk m :
  env_ok kinds e ->
  hoare (fun w => Iv kinds w /\ mat_of w sk (PKey m)) (try_store_system_key e sk)
        (fun b w => Iv kinds w /\ (b = true -> bound KSk w sk SKid)) (Iv kinds).
Proof.
  intro EO. unfold try_store_system_key. rewrite (sk_id_env kinds e EO).
  pose (A := fun w => Iv kinds w /\ mat_of w sk (PKey m)).
  assert (SA : stable0 A) by (apply stable0_and; [apply stable0_Iv | apply stable0_of_S, stableS_mat_of]).
  assert (EA : forall w, A w -> Iv kinds w) by (intros w H; exact (proj1 H)).
  eapply (hoare_bind _ _ (fun skb w => A w /\ mat_of w sk skb)).
  { exact (hoare_q0r (key_bytes sk) A _ _ (q0_key_bytes sk) SA (key_bytes_res sk) EA). }
  intro skb.
  apply (hoare_pull _ (skb = PKey m)); [intros w [[_ H1] H2]; exact (mat_of_fun _ _ _ _ H2 H1)|]. intros ->.
  eapply (hoare_bind _ _ (fun enc w => A w /\ enc = CKms (PKey m))).
  { eapply hoare_pre; [exact (hoare_q0r (kms_encrypt (PKey m)) A _ _ (q0_kms_encrypt _) SA (kms_encrypt_res _) EA) | intros w H; exact (proj1 H)]. }
  intro enc.
  apply hoare_pre with (P' := fun w => enc = CKms (PKey m) /\ A w); [|intros w H; tauto]. apply hoare_pure. intros ->.
  eapply (hoare_bind _ _ (fun o w => A w /\ created_of w sk (ko_created o))).
  { eapply hoare_post; [exact (hoare_q0r (kobj_get sk) A _ _ (q0_kobj_get sk) SA (kobj_get_res sk) EA)|].
    intros o w [H1 H2]. split; [exact H1|]. exists o. split; [exact H2 | reflexivity]. }
  intro o.
  set (row := {| e_revoked := false; e_created := ko_created o; e_key := CKms (PKey m); e_parent := None |}).
  eapply hoare_weaken.
  - exact (m_store_spec kinds (fun w => mat_of w sk (PKey m) /\ created_of w sk (ko_created o)) SKid (ko_created o) row
             (stable_and _ _ (stable_mat_of sk (PKey m)) (stable_created_of sk (ko_created o)))).
  - intros w [[HI Hm] Hc]. split; [split; assumption|]. split; [exact HI|]. split; [reflexivity|]. left.
    split; [reflexivity|]. split; [reflexivity|]. exists m. reflexivity.
  - intros b w [[Hm Hc] [HI Hb]]. split; [exact HI|]. intro Eb. split; [reflexivity|]. exists (ko_created o), m.
    split; [exact Hc|]. split; [exact Hm|]. cbn [row_ok]. exists row. split; [exact (Hb Eb)|]. repeat split.
  - intros w [_ HI]. exact HI.
Qed.

Lemma stable0_eq_store_latest id (r : option ekr) : stable0 (fun w => r = option_map snd (store_latest id (w_store w) None)).
Proof. exact (stable0_store (fun st => r = option_map snd (store_latest id st None))). Qed.

(* mustLoadLatest + systemKeyFromEKR *)
Lemma load_latest_sk_spec kinds :
  hoare (Iv kinds) (r2 <- must_load_latest SKid ;; system_key_from_ekr r2) (fun k w => Iv kinds w /\ bound KSk w k SKid) (Iv kinds).
Proof.
  unfold must_load_latest.
  eapply (hoare_bind _ _ (fun r2 w => Iv kinds w /\ exists c, store_find SKid c (w_store w) = Some r2)).
  { eapply (hoare_bind _ _ (fun r w => Iv kinds w /\ r = option_map snd (store_latest SKid (w_store w) None))).
    { exact (m_load_latest_spec (Iv kinds) (Iv kinds) SKid (stable0_Iv kinds) (fun w H => H)). }
    intros [r|]; [|apply hoare_fail; tauto]. apply hoare_ret. intros w [HI Hr]. split; [exact HI|].
    apply store_latest_find. symmetry. exact Hr. }
  intro r2.
  eapply hoare_weaken with (P' := fun w => exists m, Iv kinds w /\ sk_rec (w_store w) r2 m)
                           (Q' := fun k w => Iv kinds w /\ bound KSk w k SKid /\ created_of w k (e_created r2)) (E' := Iv kinds).
  - apply hoare_ex. intro m. exact (system_key_from_ekr_spec kinds r2 m).
  - intros w [HI [c Hf]]. pose proof HI as [SO _]. destruct (store_ok_sk _ _ _ SO Hf) as [_ [m Hm]]. exists m. split; assumption.
  - intros k w [HI [Hb _]]. split; assumption.
  - tauto.
Qed.

Lemma generate_key_now_spec e (F E : world -> Prop) :
  stable0 F -> (forall w, F w -> E w) ->
  hoare F (generate_key_now e) (fun k w => F w /\ exists m, mat_of w k (PKey m)) E.
Proof.
  intros SF HE. unfold generate_key_now.
  eapply (hoare_bind _ _ (fun (_ : Z) w => F w)); [exact (hoare_q0 get_now F _ q0_get_now SF HE)|].
  intro now. eapply hoare_post; [exact (hoare_q0r (generate_key _) F _ _ (q0_generate_key _) SF (generate_key_res _) HE)|].
  intros k w [HF [_ Hm]]. split; assumption.
Qed.

Lemma is_latest_zero id : is_latest {| km_id := id; km_created := 0 |} = true.
Proof. reflexivity. Qed.

Lemma load_latest_or_create_system_key_ok kinds e :
  env_ok kinds e ->
  loader_ok kinds KSk (fun m => load_latest_or_create_system_key e (km_id m)) {| km_id := SKid; km_created := 0 |}.
Proof.
  intro EO. split; [exact (pres_load_latest_or_create_system_key Rs Rs_frame e _)|]. cbn [km_id].
  assert (Post : forall k w, Iv kinds w /\ bound KSk w k SKid -> Iv kinds w /\ handed KSk {| km_id := SKid; km_created := 0 |} w k).
  { intros k w [HI Hb]. split; [exact HI|]. split; [exact Hb | intro H; discriminate H]. }
  unfold load_latest_or_create_system_key.
  eapply (hoare_bind _ _ (fun r w => Iv kinds w /\ r = option_map snd (store_latest SKid (w_store w) None))).
  { exact (m_load_latest_spec (Iv kinds) (Iv kinds) SKid (stable0_Iv kinds) (fun w H => H)). }
  intro r.
  pose (A := fun w => Iv kinds w /\ r = option_map snd (store_latest SKid (w_store w) None)).
  assert (SA : stable0 A) by (apply stable0_and; [apply stable0_Iv | apply stable0_eq_store_latest]).
  assert (EA : forall w, A w -> Iv kinds w) by (intros w H; exact (proj1 H)).
  eapply (hoare_bind _ _ (fun (_ : bool) w => A w)).
  { assert (Qx : quiet0 (match r with
                         | Some r0 => inv <- is_envelope_invalid e r0 ;; ret (negb inv)
                         | None => ret false end)) by (destruct r; q0_go).
    exact (hoare_q0 _ A _ Qx SA EA). }
  intro valid.
  (* creating a new system key *)
  assert (Create : hoare A (sk <- generate_key_now e ;;
                            st <- try_ (try_store_system_key e sk) ;;
                            match st with
                            | inr true => ret sk
                            | inr false => ck_close sk ;;; r2 <- must_load_latest SKid ;; system_key_from_ekr r2
                            | inl er => ck_close sk ;;; fail er
                            end) (fun k w => Iv kinds w /\ handed KSk {| km_id := SKid; km_created := 0 |} w k) (Iv kinds)).
  { eapply (hoare_bind _ _ (fun sk w => Iv kinds w /\ exists m, mat_of w sk (PKey m))).
    { eapply hoare_pre; [exact (generate_key_now_spec e (Iv kinds) (Iv kinds) (stable0_Iv kinds) (fun w H => H)) | exact EA]. }
    intro sk.
    eapply (hoare_bind _ _ (fun (st : err + bool) w => Iv kinds w /\ (st = inr true -> bound KSk w sk SKid))).
    { eapply hoare_try with (Q1 := fun b w => Iv kinds w /\ (b = true -> bound KSk w sk SKid)) (E1 := Iv kinds).
      - apply hoare_pre with (P' := fun w => exists m, Iv kinds w /\ mat_of w sk (PKey m)); [|intros w [HI [m Hm]]; exists m; tauto].
        apply hoare_ex. intro m. exact (try_store_system_key_spec kinds e sk m EO).
      - intros b w [HI Hb]. split; [exact HI|]. intro Eq. inversion Eq; subst. exact (Hb eq_refl).
      - intros er w HI. split; [exact HI|]. intro Eq. discriminate Eq. }
    intros [er|[|]].
    - eapply (hoare_bind _ _ (fun (_ : unit) w => Iv kinds w)).
      + eapply hoare_pre; [exact (hoare_q0 _ (Iv kinds) _ (q0_ck_close sk) (stable0_Iv kinds) (fun w H => H)) | intros w H; exact (proj1 H)].
      + intros _. apply hoare_fail. tauto.
    - apply hoare_ret. intros w [HI Hb]. apply Post. split; [exact HI | exact (Hb eq_refl)].
    - eapply (hoare_bind _ _ (fun (_ : unit) w => Iv kinds w)).
      + eapply hoare_pre; [exact (hoare_q0 _ (Iv kinds) _ (q0_ck_close sk) (stable0_Iv kinds) (fun w H => H)) | intros w H; exact (proj1 H)].
      + intros _. eapply hoare_post; [exact (load_latest_sk_spec kinds) | exact Post]. }
  destruct r as [r0|]; [destruct valid|]; [|exact Create|exact Create].
  eapply hoare_weaken with (P' := fun w => exists m, Iv kinds w /\ sk_rec (w_store w) r0 m)
                           (Q' := fun k w => Iv kinds w /\ bound KSk w k SKid /\ created_of w k (e_created r0)) (E' := Iv kinds).
  - apply hoare_ex. intro m. exact (system_key_from_ekr_spec kinds r0 m).
  - intros w [HI Hr]. pose proof HI as [SO _]. symmetry in Hr. apply store_latest_find in Hr as [c Hf].
    destruct (store_ok_sk _ _ _ SO Hf) as [_ [m Hm]]. exists m. split; assumption.
  - intros k w [HI [Hb _]]. apply Post. split; assumption.
  - tauto.
Qed.

Lemma try_store_intermediate_key_spec kinds e ik sk m :
  env_ok kinds e ->
  hoare (fun w => Iv kinds w /\ mat_of w ik (PKey m) /\ bound KSk w sk SKid) (try_store_intermediate_key e ik sk)
        (fun b w => Iv kinds w /\ (b = true -> bound KIk w ik (ik_id e))) (Iv kinds).
Proof.
  intro EO. unfold try_store_intermediate_key. rewrite (sk_id_env kinds e EO), (ik_id_env kinds e EO).
  set (pid := p_id (en_part e)).
  pose (A := fun w => Iv kinds w /\ mat_of w ik (PKey m) /\ bound KSk w sk SKid).
  assert (SA : stable0 A).
  { apply stable0_and; [apply stable0_Iv|]. apply stable0_and; apply stable0_of_S; [apply stableS_mat_of | apply stableS_bound]. }
  assert (EA : forall w, A w -> Iv kinds w) by (intros w H; exact (proj1 H)).
  eapply (hoare_bind _ _ (fun ikb w => A w /\ mat_of w ik ikb)).
  { exact (hoare_q0r (key_bytes ik) A _ _ (q0_key_bytes ik) SA (key_bytes_res ik) EA). }
  intro ikb.
  apply (hoare_pull _ (ikb = PKey m)); [intros w [[_ [H1 _]] H2]; exact (mat_of_fun _ _ _ _ H2 H1)|]. intros ->.
  apply hoare_pre with (P' := A); [|intros w H; exact (proj1 H)].
  eapply (hoare_bind _ _ (fun skb w => A w /\ mat_of w sk skb)).
  { exact (hoare_q0r (key_bytes sk) A _ _ (q0_key_bytes sk) SA (key_bytes_res sk) EA). }
  intro skb.
  pose (A1 := fun w => A w /\ mat_of w sk skb).
  assert (SA1 : stable0 A1) by (apply stable0_and; [exact SA | apply stable0_of_S, stableS_mat_of]).
  assert (EA1 : forall w, A1 w -> Iv kinds w) by (intros w H; exact (EA w (proj1 H))).
  eapply (hoare_bind _ _ (fun enc w => A1 w /\ exists k n, skb = PKey k /\ enc = CAead k n (PKey m))).
  { exact (hoare_q0r (aead_encrypt (PKey m) skb) A1 _ _ (q0_aead_encrypt _ _) SA1 (aead_encrypt_res _ _) EA1). }
  intro enc.
  apply hoare_pre with (P' := fun w => (exists k n, skb = PKey k /\ enc = CAead k n (PKey m)) /\ A1 w); [|intros w H; tauto].
  apply hoare_pure. intros [skm [n [-> ->]]].
  eapply (hoare_bind _ _ (fun iko w => A1 w /\ created_of w ik (ko_created iko))).
  { eapply hoare_post; [exact (hoare_q0r (kobj_get ik) A1 _ _ (q0_kobj_get ik) SA1 (kobj_get_res ik) EA1)|].
    intros o w [H1 H2]. split; [exact H1|]. exists o. split; [exact H2 | reflexivity]. }
  intro iko.
  pose (A2 := fun w => A1 w /\ created_of w ik (ko_created iko)).
  assert (SA2 : stable0 A2) by (apply stable0_and; [exact SA1 | apply stable0_of_S, stableS_created_of]).
  assert (EA2 : forall w, A2 w -> Iv kinds w) by (intros w H; exact (EA1 w (proj1 H))).
  eapply (hoare_bind _ _ (fun sko w => A2 w /\ created_of w sk (ko_created sko))).
  { eapply hoare_post; [exact (hoare_q0r (kobj_get sk) A2 _ _ (q0_kobj_get sk) SA2 (kobj_get_res sk) EA2)|].
    intros o w [H1 H2]. split; [exact H1|]. exists o. split; [exact H2 | reflexivity]. }
  intro sko.
  set (row := {| e_revoked := false; e_created := ko_created iko; e_key := CAead skm n (PKey m);
                 e_parent := Some {| km_id := SKid; km_created := ko_created sko |} |}).
  eapply hoare_weaken.
  - exact (m_store_spec kinds (fun w => (mat_of w ik (PKey m) /\ created_of w ik (ko_created iko)) /\ sk_row (w_store w) (ko_created sko) skm)
             (IKid pid) (ko_created iko) row
             (stable_and _ _ (stable_and _ _ (stable_mat_of ik (PKey m)) (stable_created_of ik (ko_created iko)))
                         (stableS_stable _ (stableS_sk_row (ko_created sko) skm)))).
  - intros w [[[[HI [Hm Hb]] Hsk] Hci] Hcs].
    assert (Hrow : sk_row (w_store w) (ko_created sko) skm).
    { destruct Hb as [_ [c [m' [H1 [H2 H3]]]]]. cbn [row_ok] in H3.
      pose proof (created_of_fun _ _ _ _ H1 Hcs) as Ec. pose proof (mat_of_fun _ _ _ _ H2 Hsk) as Em. inversion Em; subst. exact H3. }
    split; [split; [split; assumption | exact Hrow]|]. split; [exact HI|]. split; [reflexivity|]. right. exists pid. split; [reflexivity|].
    exists (ko_created sko), skm, n, m. repeat split. exact Hrow.
  - intros b w [[[Hm Hc] Hrow] [HI Hb]]. split; [exact HI|]. intro Eb. split; [exists pid; reflexivity|]. exists (ko_created iko), m.
    split; [exact Hc|]. split; [exact Hm|]. cbn [row_ok]. exists row, (ko_created sko), skm, n. split; [exact (Hb Eb)|]. repeat split. exact Hrow.
  - intros w [_ HI]. exact HI.
Qed.

Lemma load_latest_ik_spec kinds e sk :
  env_ok kinds e ->
  hoare (Iv kinds) (r2 <- must_load_latest (ik_id e) ;; intermediate_key_from_ekr e sk r2)
        (fun k w => Iv kinds w /\ bound KIk w k (ik_id e)) (Iv kinds).
Proof.
  intro EO. unfold must_load_latest. rewrite (ik_id_env kinds e EO). set (pid := p_id (en_part e)).
  eapply (hoare_bind _ _ (fun r2 w => Iv kinds w /\ exists c, store_find (IKid pid) c (w_store w) = Some r2)).
  { eapply (hoare_bind _ _ (fun r w => Iv kinds w /\ r = option_map snd (store_latest (IKid pid) (w_store w) None))).
    { exact (m_load_latest_spec (Iv kinds) (Iv kinds) (IKid pid) (stable0_Iv kinds) (fun w H => H)). }
    intros [r|]; [|apply hoare_fail; tauto]. apply hoare_ret. intros w [HI Hr]. split; [exact HI|].
    apply store_latest_find. symmetry. exact Hr. }
  intro r2.
  eapply hoare_weaken with (P' := fun w => exists m, Iv kinds w /\ ik_rec (w_store w) (IKid pid) r2 m)
                           (Q' := fun k w => Iv kinds w /\ bound KIk w k (IKid pid) /\ created_of w k (e_created r2)) (E' := Iv kinds).
  - apply hoare_ex. intro m. exact (intermediate_key_from_ekr_spec kinds e sk r2 (IKid pid) m EO (ex_intro _ pid eq_refl)).
  - intros w [HI [c Hf]]. pose proof HI as [SO _]. destruct (store_ok_ik _ _ _ _ SO Hf) as [_ [m Hm]]. exists m. split; assumption.
  - intros k w [HI [Hb _]]. split; assumption.
  - tauto.
Qed.

Lemma create_ik_with_sk_spec kinds e sk :
  env_ok kinds e ->
  hoare (fun w => Iv kinds w /\ bound KSk w sk SKid) (create_ik_with_sk e sk)
        (fun k w => Iv kinds w /\ bound KIk w k (ik_id e)) (Iv kinds).
Proof.
  intro EO. unfold create_ik_with_sk.
  pose (A := fun w => Iv kinds w /\ bound KSk w sk SKid).
  assert (SA : stable0 A) by (apply stable0_and; [apply stable0_Iv | apply stable0_of_S, stableS_bound]).
  assert (EA : forall w, A w -> Iv kinds w) by (intros w H; exact (proj1 H)).
  eapply (hoare_bind _ _ (fun ik w => A w /\ exists m, mat_of w ik (PKey m))).
  { exact (generate_key_now_spec e A (Iv kinds) SA EA). }
  intro ik.
  eapply (hoare_bind _ _ (fun (st : err + bool) w => Iv kinds w /\ (st = inr true -> bound KIk w ik (ik_id e)))).
  { eapply hoare_try with (Q1 := fun b w => Iv kinds w /\ (b = true -> bound KIk w ik (ik_id e))) (E1 := Iv kinds).
    - apply hoare_pre with (P' := fun w => exists m, Iv kinds w /\ mat_of w ik (PKey m) /\ bound KSk w sk SKid).
      + apply hoare_ex. intro m. exact (try_store_intermediate_key_spec kinds e ik sk m EO).
      + intros w [[HI Hb] [m Hm]]. exists m. tauto.
    - intros b w [HI Hb]. split; [exact HI|]. intro Eq. inversion Eq; subst. exact (Hb eq_refl).
    - intros er w HI. split; [exact HI|]. intro Eq. discriminate Eq. }
  intros [er|[|]].
  - eapply (hoare_bind _ _ (fun (_ : unit) w => Iv kinds w)).
    + eapply hoare_pre; [exact (hoare_q0 _ (Iv kinds) _ (q0_ck_close ik) (stable0_Iv kinds) (fun w H => H)) | intros w H; exact (proj1 H)].
    + intros _. apply hoare_fail. tauto.
  - apply hoare_ret. intros w [HI Hb]. split; [exact HI | exact (Hb eq_refl)].
  - eapply (hoare_bind _ _ (fun (_ : unit) w => Iv kinds w)).
    + eapply hoare_pre; [exact (hoare_q0 _ (Iv kinds) _ (q0_ck_close ik) (stable0_Iv kinds) (fun w H => H)) | intros w H; exact (proj1 H)].
    + intros _. exact (load_latest_ik_spec kinds e sk EO).
Qed.

Lemma create_intermediate_key_spec kinds e :
  env_ok kinds e ->
  hoare (Iv kinds) (create_intermediate_key e) (fun k w => Iv kinds w /\ bound KIk w k (ik_id e)) (Iv kinds).
Proof.
  intro EO. unfold create_intermediate_key. pose proof EO as [_ [_ [_ [Hsk _]]]].
  eapply (hoare_bind _ _ (fun sk w => Iv kinds w /\ bound KSk w sk SKid)).
  { rewrite (sk_id_env kinds e EO).
    exact (get_or_load_latest_spec kinds (en_sk e) true _ _ SKid _ Hsk eq_refl (load_latest_or_create_system_key_ok kinds e EO)). }
  intro sk.
  eapply hoare_finally with (Q1 := fun k w => Iv kinds w /\ bound KIk w k (ik_id e)) (E1 := Iv kinds).
  - exact (create_ik_with_sk_spec kinds e sk EO).
  - intro k. exact (hoare_q0 (cck_close sk) (fun w => Iv kinds w /\ bound KIk w k (ik_id e)) _ (q0_cck_close sk)
                      (stable0_and _ _ (stable0_Iv kinds) (stable0_of_S _ (stableS_bound KIk k (ik_id e)))) (fun w H => H)).
  - exact (hoare_q0 (cck_close sk) (Iv kinds) _ (q0_cck_close sk) (stable0_Iv kinds) (fun w H => H)).
Qed.

Lemma get_valid_intermediate_key_spec kinds e sk r i m :
  env_ok kinds e -> okid KIk i ->
  hoare (fun w => Iv kinds w /\ ik_rec (w_store w) i r m) (get_valid_intermediate_key e sk r)
        (fun v w => Iv kinds w /\ forall ik, v = Some ik -> bound KIk w ik i) (Iv kinds).
Proof.
  intros EO Oi. unfold get_valid_intermediate_key.
  pose (A := fun w => Iv kinds w /\ ik_rec (w_store w) i r m).
  assert (SA : stable0 A) by (apply stable0_and; [apply stable0_Iv | apply stable0_of_S, stableS_ik_rec]).
  eapply (hoare_bind _ _ (fun (_ : bool) w => A w)); [exact (hoare_q0 _ A _ (q0_is_key_invalid _ _) SA (fun w H => proj1 H))|].
  intros [|].
  - apply hoare_ret. intros w [HI _]. split; [exact HI|]. intros ik H. discriminate H.
  - eapply (hoare_bind _ _ (fun (x : err + nat) w => Iv kinds w /\ forall ik, x = inr ik -> bound KIk w ik i)).
    + eapply hoare_try with (Q1 := fun k w => Iv kinds w /\ bound KIk w k i /\ created_of w k (e_created r)) (E1 := Iv kinds).
      * exact (intermediate_key_from_ekr_spec kinds e sk r i m EO Oi).
      * intros k w [HI [Hb _]]. split; [exact HI|]. intros ik H. inversion H; subst. exact Hb.
      * intros er w HI. split; [exact HI|]. intros ik H. discriminate H.
    + intros [er|ik]; apply hoare_ret; intros w [HI H]; (split; [exact HI|]); intros ik0 E0; [discriminate E0|].
      inversion E0; subst. exact (H ik0 eq_refl).
Qed.

Lemma load_latest_or_create_intermediate_key_ok kinds e :
  env_ok kinds e ->
  loader_ok kinds KIk (fun m => load_latest_or_create_intermediate_key e (km_id m)) {| km_id := ik_id e; km_created := 0 |}.
Proof.
  intro EO. split; [exact (pres_load_latest_or_create_intermediate_key Rs Rs_frame e _)|]. cbn [km_id].
  pose proof (ik_id_env kinds e EO) as Eik. set (pid := p_id (en_part e)) in *. rewrite Eik.
  assert (Post : forall k w, Iv kinds w /\ bound KIk w k (IKid pid) -> Iv kinds w /\ handed KIk {| km_id := IKid pid; km_created := 0 |} w k).
  { intros k w [HI Hb]. split; [exact HI|]. split; [exact Hb | intro H; discriminate H]. }
  assert (Create : forall P : world -> Prop, (forall w, P w -> Iv kinds w) ->
                     hoare P (create_intermediate_key e) (fun k w => Iv kinds w /\ handed KIk {| km_id := IKid pid; km_created := 0 |} w k) (Iv kinds)).
  { intros P HP. eapply hoare_weaken; [exact (create_intermediate_key_spec kinds e EO) | exact HP | | tauto].
    intros k w H. rewrite Eik in H. exact (Post k w H). }
  unfold load_latest_or_create_intermediate_key.
  eapply (hoare_bind _ _ (fun r w => Iv kinds w /\ r = option_map snd (store_latest (IKid pid) (w_store w) None))).
  { exact (m_load_latest_spec (Iv kinds) (Iv kinds) (IKid pid) (stable0_Iv kinds) (fun w H => H)). }
  intro r.
  pose (A := fun w => Iv kinds w /\ r = option_map snd (store_latest (IKid pid) (w_store w) None)).
  assert (SA : stable0 A) by (apply stable0_and; [apply stable0_Iv | apply stable0_eq_store_latest]).
  assert (EA : forall w, A w -> Iv kinds w) by (intros w H; exact (proj1 H)).
  eapply (hoare_bind _ _ (fun (_ : bool) w => A w)).
  { assert (Qx : quiet0 (match r with
                         | Some r0 => match e_parent r0 with
                                      | Some _ => inv <- is_envelope_invalid e r0 ;; ret (negb inv)
                                      | None => ret false end
                         | None => ret false end)) by (destruct r as [r0|]; [destruct (e_parent r0)|]; q0_go).
    exact (hoare_q0 _ A _ Qx SA EA). }
  intro usable.
  destruct r as [r0|]; [destruct usable|]; [|apply Create; exact EA|apply Create; exact EA].
  (* a usable latest row: it is a well-formed intermediate key row *)
  apply hoare_pre with (P' := fun w => exists m, Iv kinds w /\ ik_rec (w_store w) (IKid pid) r0 m).
  2:{ intros w [HI Hr]. pose proof HI as [SO _]. symmetry in Hr. apply store_latest_find in Hr as [c Hf].
      destruct (store_ok_ik _ _ _ _ SO Hf) as [_ [m Hm]]. exists m. split; assumption. }
  apply hoare_ex. intro m.
  apply (hoare_pull _ (exists c', e_parent r0 = Some {| km_id := SKid; km_created := c' |})).
  { intros w [_ [_ [c' [skm [n [H2 _]]]]]]. exists c'. exact H2. }
  intros [c' Ep]. rewrite Ep.
  pose (B := fun w => Iv kinds w /\ ik_rec (w_store w) (IKid pid) r0 m).
  assert (EB : forall w, B w -> Iv kinds w) by (intros w H; exact (proj1 H)).
  eapply (hoare_bind _ _ (fun (x : err + nat) w => B w)).
  { eapply hoare_try with (Q1 := fun (_ : nat) w => B w) (E1 := B).
    - eapply hoare_weaken.
      + exact (hoare_frame _ (fun w => ik_rec (w_store w) (IKid pid) r0 m) _ _ _ (pres_get_or_load_system_key Rs Rs_frame e _)
                 (stableS_ik_rec (IKid pid) r0 m) (get_or_load_system_key_spec kinds e {| km_id := SKid; km_created := c' |} EO eq_refl)).
      + intros w H; exact H.
      + intros k w [[HI _] Hr]. split; assumption.
      + intros w H; exact H.
    - intros a w H; exact H.
    - intros er w H; exact H. }
  intros [er|sk]; [apply Create; exact EB|].
  eapply hoare_finally with (Q1 := fun k w => Iv kinds w /\ handed KIk {| km_id := IKid pid; km_created := 0 |} w k) (E1 := Iv kinds).
  - eapply (hoare_bind _ _ (fun (v : option nat) w => Iv kinds w /\ forall ik, v = Some ik -> bound KIk w ik (IKid pid))).
    + exact (get_valid_intermediate_key_spec kinds e sk r0 (IKid pid) m EO (ex_intro _ pid eq_refl)).
    + intros [ik|]; [|apply Create; intros w H; exact (proj1 H)].
      apply hoare_ret. intros w [HI H]. apply Post. split; [exact HI | exact (H ik eq_refl)].
  - intro k. exact (hoare_q0 (cck_close sk) (fun w => Iv kinds w /\ handed KIk {| km_id := IKid pid; km_created := 0 |} w k) _ (q0_cck_close sk)
                      (stable0_and _ _ (stable0_Iv kinds) (stable0_of_S _ (stableS_handed KIk _ k))) (fun w H => H)).
  - exact (hoare_q0 (cck_close sk) (Iv kinds) _ (q0_cck_close sk) (stable0_Iv kinds) (fun w H => H)).
Qed.

Lemma load_intermediate_key_ok kinds e meta :
  env_ok kinds e -> km_id meta = ik_id e -> loader_ok kinds KIk (load_intermediate_key e) meta.
Proof.
  intros EO Eid. split; [exact (pres_load_intermediate_key Rs Rs_frame e meta)|]. unfold load_intermediate_key.
  pose proof (ik_id_env kinds e EO) as Eik. set (pid := p_id (en_part e)) in *. rewrite Eid, Eik.
  eapply (hoare_bind _ _ (fun r w => Iv kinds w /\ r = store_find (IKid pid) (km_created meta) (w_store w))).
  { exact (m_load_spec (Iv kinds) (Iv kinds) (IKid pid) (km_created meta) (stable0_Iv kinds) (fun w H => H)). }
  intros [r|]; [|apply hoare_fail; tauto].
  apply hoare_pre with (P' := fun w => exists m, e_created r = km_created meta /\ (Iv kinds w /\ ik_rec (w_store w) (IKid pid) r m)).
  2:{ intros w [HI Hr]. pose proof HI as [SO _]. symmetry in Hr. destruct (store_ok_ik _ _ _ _ SO Hr) as [Ec [m Hm]]. exists m. tauto. }
  apply hoare_ex. intro m. apply hoare_pure. intro Ec.
  apply (hoare_pull _ (exists c', e_parent r = Some {| km_id := SKid; km_created := c' |})).
  { intros w [_ [_ [c' [skm [n [H2 _]]]]]]. exists c'. exact H2. }
  intros [c' Ep]. rewrite Ep.
  pose (B := fun w => Iv kinds w /\ ik_rec (w_store w) (IKid pid) r m).
  eapply (hoare_bind _ _ (fun (_ : nat) w => B w)).
  { eapply hoare_weaken.
    - exact (hoare_frame _ (fun w => ik_rec (w_store w) (IKid pid) r m) _ _ _ (pres_get_or_load_system_key Rs Rs_frame e _)
               (stableS_ik_rec (IKid pid) r m) (get_or_load_system_key_spec kinds e {| km_id := SKid; km_created := c' |} EO eq_refl)).
    - intros w H; exact H.
    - intros k w [[HI _] Hr]. split; assumption.
    - intros w [HI _]. exact HI. }
  intro sk.
  assert (OkI : okid KIk (IKid pid)) by (exists pid; reflexivity).
  eapply hoare_finally with (Q1 := fun k w => Iv kinds w /\ handed KIk meta w k) (E1 := Iv kinds).
  - eapply hoare_post; [exact (intermediate_key_from_ekr_spec kinds e sk r (IKid pid) m EO OkI)|].
    intros k w [HI [Hb Hc]]. split; [exact HI|]. split; [rewrite Eid, Eik; exact Hb|]. intros _. rewrite <- Ec. exact Hc.
  - intro k. exact (hoare_q0 (cck_close sk) (fun w => Iv kinds w /\ handed KIk meta w k) _ (q0_cck_close sk)
                      (stable0_and _ _ (stable0_Iv kinds) (stable0_of_S _ (stableS_handed KIk meta k))) (fun w H => H)).
  - exact (hoare_q0 (cck_close sk) (Iv kinds) _ (q0_cck_close sk) (stable0_Iv kinds) (fun w H => H)).
Qed.

(* ---- Encrypt returns durable, decryptable records --------------------------------------------------- *)

(* a data row record for partition id [pid] carrying payload [p]: it names an intermediate key row that is in the
   metastore together with its system key row, its data key is sealed under that intermediate key's material, and
   the payload under that data key.  Nothing but the metastore contents and the KMS is needed to open it. *)
Definition genuine (st : list row) (pid : str) (d : drr) (p : ptxt) : Prop :=
  exists k c ikm n dkm n',
    d_key d = Some k /\ e_parent k = Some {| km_id := IKid pid; km_created := c |} /\
    ik_row st (IKid pid) c ikm /\ e_key k = CAead ikm n (PKey dkm) /\ d_data d = CAead dkm n' p.

Lemma genuine_kept st st' pid d p : rows_kept st st' -> genuine st pid d p -> genuine st' pid d p.
Proof.
  intros K [k [c [ikm [n [dkm [n' [H1 [H2 [H3 [H4 H5]]]]]]]]]]. exists k, c, ikm, n, dkm, n'.
  repeat split; try assumption. eapply ik_row_kept; eassumption.
Qed.

Lemma encrypt_with_ik_spec kinds e ik payload :
  env_ok kinds e ->
  hoare (fun w => Iv kinds w /\ bound KIk w ik (ik_id e)) (encrypt_with_ik e ik payload)
        (fun d w => Iv kinds w /\ genuine (w_store w) (p_id (en_part e)) d payload) (Iv kinds).
Proof.
  intro EO. unfold encrypt_with_ik. pose proof (ik_id_env kinds e EO) as Eik. set (pid := p_id (en_part e)) in *. rewrite Eik.
  pose (A := fun w => Iv kinds w /\ bound KIk w ik (IKid pid)).
  assert (SA : stable0 A) by (apply stable0_and; [apply stable0_Iv | apply stable0_of_S, stableS_bound]).
  assert (EA : forall w, A w -> Iv kinds w) by (intros w H; exact (proj1 H)).
  eapply (hoare_bind _ _ (fun (_ : Z) w => A w)); [exact (hoare_q0 get_now A _ q0_get_now SA EA)|].
  intro now.
  eapply (hoare_bind _ _ (fun drk w => A w /\ exists dm, mat_of w drk (PKey dm))).
  { eapply hoare_post; [exact (hoare_q0r (generate_key _) A _ _ (q0_generate_key _) SA (generate_key_res _) EA)|].
    intros k w [HA [_ Hm]]. split; assumption. }
  intro drk.
  apply hoare_pre with (P' := fun w => exists dm, A w /\ mat_of w drk (PKey dm)); [|intros w [HA [dm Hm]]; exists dm; tauto].
  apply hoare_ex. intro dm.
  eapply hoare_finally with (Q1 := fun d w => Iv kinds w /\ genuine (w_store w) pid d payload) (E1 := Iv kinds).
  2:{ intro d. exact (hoare_q0 (ck_close drk) (fun w => Iv kinds w /\ genuine (w_store w) pid d payload) _ (q0_ck_close drk)
                        (stable0_and _ _ (stable0_Iv kinds) (stable0_store (fun st => genuine st pid d payload))) (fun w H => H)). }
  2:{ exact (hoare_q0 (ck_close drk) (Iv kinds) _ (q0_ck_close drk) (stable0_Iv kinds) (fun w H => H)). }
  pose (B := fun w => A w /\ mat_of w drk (PKey dm)).
  assert (SB : stable0 B) by (apply stable0_and; [exact SA | apply stable0_of_S, stableS_mat_of]).
  assert (EB : forall w, B w -> Iv kinds w) by (intros w H; exact (EA w (proj1 H))).
  eapply (hoare_bind _ _ (fun drkb w => B w /\ mat_of w drk drkb)).
  { exact (hoare_q0r (key_bytes drk) B _ _ (q0_key_bytes drk) SB (key_bytes_res drk) EB). }
  intro drkb.
  apply (hoare_pull _ (drkb = PKey dm)); [intros w [[_ H1] H2]; exact (mat_of_fun _ _ _ _ H2 H1)|]. intros ->.
  apply hoare_pre with (P' := B); [|intros w H; exact (proj1 H)].
  eapply (hoare_bind _ _ (fun enc_data w => B w /\ exists k n, PKey dm = PKey k /\ enc_data = CAead k n payload)).
  { exact (hoare_q0r (aead_encrypt payload (PKey dm)) B _ _ (q0_aead_encrypt _ _) SB (aead_encrypt_res _ _) EB). }
  intro enc_data.
  apply hoare_pre with (P' := fun w => (exists k n, PKey dm = PKey k /\ enc_data = CAead k n payload) /\ B w); [|intros w H; tauto].
  apply hoare_pure. intros [k0 [n' [Ek ->]]]. inversion Ek; subst k0.
  eapply (hoare_bind _ _ (fun ikb w => B w /\ mat_of w ik ikb)).
  { exact (hoare_q0r (key_bytes ik) B _ _ (q0_key_bytes ik) SB (key_bytes_res ik) EB). }
  intro ikb.
  pose (B1 := fun w => B w /\ mat_of w ik ikb).
  assert (SB1 : stable0 B1) by (apply stable0_and; [exact SB | apply stable0_of_S, stableS_mat_of]).
  assert (EB1 : forall w, B1 w -> Iv kinds w) by (intros w H; exact (EB w (proj1 H))).
  eapply (hoare_bind _ _ (fun drkb2 w => B1 w /\ mat_of w drk drkb2)).
  { exact (hoare_q0r (key_bytes drk) B1 _ _ (q0_key_bytes drk) SB1 (key_bytes_res drk) EB1). }
  intro drkb2.
  apply (hoare_pull _ (drkb2 = PKey dm)); [intros w [[[_ H1] _] H2]; exact (mat_of_fun _ _ _ _ H2 H1)|]. intros ->.
  apply hoare_pre with (P' := B1); [|intros w H; exact (proj1 H)].
  eapply (hoare_bind _ _ (fun enc_key w => B1 w /\ exists k n, ikb = PKey k /\ enc_key = CAead k n (PKey dm))).
  { exact (hoare_q0r (aead_encrypt (PKey dm) ikb) B1 _ _ (q0_aead_encrypt _ _) SB1 (aead_encrypt_res _ _) EB1). }
  intro enc_key.
  apply hoare_pre with (P' := fun w => (exists k n, ikb = PKey k /\ enc_key = CAead k n (PKey dm)) /\ B1 w); [|intros w H; tauto].
  apply hoare_pure. intros [ikm [n [-> ->]]].
  eapply (hoare_bind _ _ (fun (_ : kobj) w => B1 w)); [exact (hoare_q0 _ B1 _ (q0_kobj_get drk) SB1 EB1)|].
  intro drko.
  eapply (hoare_bind _ _ (fun iko w => B1 w /\ created_of w ik (ko_created iko))).
  { eapply hoare_post; [exact (hoare_q0r (kobj_get ik) B1 _ _ (q0_kobj_get ik) SB1 (kobj_get_res ik) EB1)|].
    intros o w [H1 H2]. split; [exact H1|]. exists o. split; [exact H2 | reflexivity]. }
  intro iko.
  apply hoare_ret. intros w [[[[HI Hb] _] Hmi] Hci]. split; [exact HI|].
  destruct Hb as [_ [c [m' [H1 [H2 H3]]]]]. cbn [row_ok] in H3.
  pose proof (created_of_fun _ _ _ _ H1 Hci) as Ec. pose proof (mat_of_fun _ _ _ _ H2 Hmi) as Em. inversion Em; subst.
  eexists _, (ko_created iko), ikm, n, dm, n'. cbn [d_key d_data e_parent e_key]. repeat split. exact H3.
Qed.

Lemma encrypt_payload_spec kinds e payload :
  env_ok kinds e ->
  hoare (Iv kinds) (encrypt_payload e payload)
        (fun d w => Iv kinds w /\ genuine (w_store w) (p_id (en_part e)) d payload) (Iv kinds).
Proof.
  intro EO. unfold encrypt_payload. pose proof EO as [_ [_ [_ [_ Hik]]]].
  eapply (hoare_bind _ _ (fun ik w => Iv kinds w /\ bound KIk w ik (ik_id e))).
  { assert (Oi : okid (kd_of false) (ik_id e)) by (rewrite (ik_id_env kinds e EO); eexists; reflexivity).
    exact (get_or_load_latest_spec kinds (en_ik e) false _ _ (ik_id e) _ Hik Oi (load_latest_or_create_intermediate_key_ok kinds e EO)). }
  intro ik.
  eapply hoare_finally with (Q1 := fun d w => Iv kinds w /\ genuine (w_store w) (p_id (en_part e)) d payload) (E1 := Iv kinds).
  - exact (encrypt_with_ik_spec kinds e ik payload EO).
  - intro d. exact (hoare_q0 (cck_close ik) (fun w => Iv kinds w /\ genuine (w_store w) (p_id (en_part e)) d payload) _ (q0_cck_close ik)
                      (stable0_and _ _ (stable0_Iv kinds) (stable0_store (fun st => genuine st (p_id (en_part e)) d payload))) (fun w H => H)).
  - exact (hoare_q0 (cck_close ik) (Iv kinds) _ (q0_cck_close ik) (stable0_Iv kinds) (fun w H => H)).
Qed.

Lemma default_guard e id kinds : env_ok kinds e -> is_valid_ik_id (en_part e) id = true -> id = ik_id e.
Proof.
  intros [A [B [C _]]] H. unfold is_valid_ik_id in H. unfold ik_id, intermediate_key_id. rewrite C in *.
  apply str_eqb_eq in H. exact H.
Qed.

Lemma decrypt_data_row_record_spec kinds e r :
  env_ok kinds e ->
  hoare (Iv kinds) (decrypt_data_row_record e r) (fun _ w => Iv kinds w) (Iv kinds).
Proof.
  intro EO. unfold decrypt_data_row_record. pose proof EO as [_ [_ [_ [_ Hik]]]].
  destruct (d_key r) as [key|]; [|apply hoare_fail; tauto].
  destruct (e_parent key) as [pm|]; [|apply hoare_fail; tauto].
  destruct (is_valid_ik_id (en_part e) (km_id pm)) eqn:G; cbn [negb]; [|apply hoare_fail; tauto].
  pose proof (default_guard e (km_id pm) kinds EO G) as Eid.
  eapply (hoare_bind _ _ (fun (_ : nat) w => Iv kinds w)).
  { assert (Oi : okid (kd_of false) (km_id pm)) by (rewrite Eid, (ik_id_env kinds e EO); eexists; reflexivity).
    eapply hoare_post; [exact (get_or_load_spec kinds (en_ik e) false _ pm _ Hik Oi (load_intermediate_key_ok kinds e pm EO Eid))|].
    intros k w H. exact (proj1 H). }
  intro ik.
  eapply hoare_finally with (Q1 := fun (_ : ptxt) w => Iv kinds w) (E1 := Iv kinds).
  - exact (hoare_q0 _ (Iv kinds) _ (q0_decrypt_row ik key (d_data r)) (stable0_Iv kinds) (fun w H => H)).
  - intros _. exact (hoare_q0 (cck_close ik) (Iv kinds) _ (q0_cck_close ik) (stable0_Iv kinds) (fun w H => H)).
  - exact (hoare_q0 (cck_close ik) (Iv kinds) _ (q0_cck_close ik) (stable0_Iv kinds) (fun w H => H)).
Qed.

(* ---- session.go / session_cache.go -------------------------------------------------------------------- *)

Lemma same_keys_sessions w x : same_keys w (with_sessions x w).
Proof. repeat split. Qed.
Lemma same_keys_factories w x : same_keys w (with_factories x w).
Proof. repeat split. Qed.

Lemma sess_ok_factories kinds w fs x :
  (forall f, nth_error (w_factories w) f <> None -> nth_error fs f <> None) ->
  sess_ok kinds w x -> sess_ok kinds (with_factories fs w) x.
Proof.
  intros Hf [[fa Hfa] Rest]. split; [|exact Rest]. cbn [w_factories with_factories].
  destruct (nth_error fs (ss_factory x)) as [fa'|] eqn:E; [exists fa'; reflexivity|].
  exfalso. apply (Hf (ss_factory x)); [congruence | exact E].
Qed.

Lemma put_session_spec kinds s x' :
  hoare (fun w => Iv kinds w /\ sess_ok kinds w x') (put_session s x') (fun _ w => Iv kinds w /\ sess_ok kinds w x') (Iv kinds).
Proof.
  intros w [[SO [L C F S]] SX]. unfold put_session, upd. cbn [fst snd]. split; [|exact SX]. split; [exact SO|]. constructor; wsimpl.
  - exact L.
  - intros cid kc b H1 H2. eapply cache_ok_ext; [apply same_keys_sessions | eapply C; eassumption].
  - exact F.
  - intros s0 x H. rewrite nth_error_set_nth in H. destruct (Nat.eqb s s0).
    + destruct (nth_error (w_sessions w) s); [|discriminate]. inversion H; subst. exact SX.
    + exact (S s0 x H).
Qed.

Lemma put_factory_spec kinds f fa' :
  hoare (fun w => Iv kinds w /\ fact_ok kinds fa') (put_factory f fa') (fun _ w => Iv kinds w) (Iv kinds).
Proof.
  intros w [[SO [L C F S]] FX]. unfold put_factory, upd. cbn [fst snd]. split; [exact SO|]. constructor; wsimpl.
  - exact L.
  - intros cid kc b H1 H2. eapply cache_ok_ext; [apply same_keys_factories | eapply C; eassumption].
  - intros f0 fa H. rewrite nth_error_set_nth in H. destruct (Nat.eqb f f0).
    + destruct (nth_error (w_factories w) f); [|discriminate]. inversion H; subst. exact FX.
    + exact (F f0 fa H).
  - intros s0 x H. apply (sess_ok_factories kinds w (set_nth f fa' (w_factories w)) x); [|exact (S s0 x H)].
    intros f0 Hn. rewrite nth_error_set_nth. destruct (Nat.eqb f f0) eqn:E; [|exact Hn].
    apply Nat.eqb_eq in E. subst f0. destruct (nth_error (w_factories w) f); [discriminate | contradiction].
Qed.

Lemma stable0_session_at s x : stable0 (fun w => nth_error (w_sessions w) s = Some x).
Proof. intros w w' [[_ [_ [_ [ES _]]]] _] H. rewrite ES. exact H. Qed.
Lemma stable0_factory_at f x : stable0 (fun w => nth_error (w_factories w) f = Some x).
Proof. intros w w' [[_ [_ [_ [_ [EF _]]]]] _] H. rewrite EF. exact H. Qed.

Lemma get_session_spec kinds s :
  hoare (Iv kinds) (get_session s) (fun x w => Iv kinds w /\ sess_ok kinds w x) (Iv kinds).
Proof.
  eapply hoare_post; [exact (hoare_q0r (get_session s) (Iv kinds) _ _ (q0_get_session s) (stable0_Iv kinds) (get_session_res s) (fun w H => H))|].
  intros x w [HI H]. split; [exact HI|]. destruct HI as [_ [L C F S]]. exact (S s x H).
Qed.

Lemma get_factory_spec kinds f :
  hoare (Iv kinds) (get_factory f) (fun fa w => (Iv kinds w /\ nth_error (w_factories w) f = Some fa) /\ fact_ok kinds fa) (Iv kinds).
Proof.
  eapply hoare_post; [exact (hoare_q0r (get_factory f) (Iv kinds) _ _ (q0_get_factory f) (stable0_Iv kinds) (get_factory_res f) (fun w H => H))|].
  intros x w [HI H]. split; [split; assumption|]. destruct HI as [_ [L C F S]]. exact (F f x H).
Qed.

(* updating a session record without touching its partition, factory and cache handle *)
Definition sess_same (x x' : session) : Prop :=
  ss_factory x' = ss_factory x /\ ss_part x' = ss_part x /\ ss_ik x' = ss_ik x.

Lemma sess_ok_same kinds w x x' : sess_same x x' -> sess_ok kinds w x -> sess_ok kinds w x'.
Proof. intros [E1 [E2 E3]] H. unfold sess_ok in *. rewrite E1, E2, E3. exact H. Qed.

Lemma stableS_sess_ok kinds x : stable0 (fun w => sess_ok kinds w x).
Proof. intros w w' [[_ [_ [_ [_ [EF _]]]]] _] H. unfold sess_ok in *. rewrite EF. exact H. Qed.

Lemma envelope_close_spec kinds s : hoare (Iv kinds) (envelope_close s) (fun _ w => Iv kinds w) (Iv kinds).
Proof.
  unfold envelope_close.
  eapply (hoare_bind _ _ _); [exact (get_session_spec kinds s)|]. intro x.
  eapply (hoare_bind _ _ (fun (_ : unit) w => Iv kinds w /\ sess_ok kinds w x)).
  { eapply hoare_weaken.
    - exact (put_session_spec kinds s _).
    - intros w [HI HS]. split; [exact HI|]. eapply sess_ok_same; [|exact HS]. repeat split.
    - intros _ w [HI HS]. split; [exact HI|]. eapply sess_ok_same; [|exact HS]. repeat split.
    - tauto. }
  intros _. destruct (ss_own_ik x); [|apply hoare_ret; tauto].
  eapply hoare_pre with (P' := fun w => (forall cid, ss_ik x = Some cid -> exists b, nth_error kinds cid = Some b) /\ Iv kinds w).
  - apply hoare_pure. intro H. exact (kc_close_spec kinds (ss_ik x) H).
  - intros w [HI [_ [_ [_ [_ H]]]]]. split; [|exact HI]. intros cid Hc. exists false. exact (H cid Hc).
Qed.

Lemma put_same_session_spec kinds s x x' :
  sess_same x x' ->
  hoare (fun w => Iv kinds w /\ sess_ok kinds w x) (put_session s x') (fun _ w => Iv kinds w) (Iv kinds).
Proof.
  intro SS. eapply hoare_weaken; [exact (put_session_spec kinds s x') | | |]; cbv beta.
  - intros w [HI HS]. split; [exact HI | eapply sess_ok_same; eassumption].
  - tauto.
  - tauto.
Qed.

Lemma try_remove_spec kinds s : hoare (Iv kinds) (try_remove s) (fun _ w => Iv kinds w) (Iv kinds).
Proof.
  unfold try_remove. eapply (hoare_bind _ _ _); [exact (get_session_spec kinds s)|]. intro x.
  destruct (ss_evicted x && negb (ss_torn x) && (ss_usage x <=? 0)).
  - eapply hoare_pre; [exact (envelope_close_spec kinds s) | tauto].
  - apply hoare_ret. tauto.
Qed.

Lemma mark_evicted_spec kinds s : hoare (Iv kinds) (mark_evicted s) (fun _ w => Iv kinds w) (Iv kinds).
Proof.
  unfold mark_evicted. eapply (hoare_bind _ _ _); [exact (get_session_spec kinds s)|]. intro x.
  eapply (hoare_bind _ _ (fun (_ : unit) w => Iv kinds w)).
  - apply (put_same_session_spec kinds s x). repeat split.
  - intros _. exact (try_remove_spec kinds s).
Qed.

Lemma evictions_spec kinds l : hoare (Iv kinds) (evictions l) (fun _ w => Iv kinds w) (Iv kinds).
Proof.
  unfold evictions. induction l as [|kv l IH]; cbn [fold_right]; [apply hoare_ret; tauto|].
  eapply (hoare_bind _ _ (fun (_ : unit) w => Iv kinds w)); [exact (mark_evicted_spec kinds (snd kv))|]. intros _. exact IH.
Qed.

Lemma add_usage_spec kinds s d : hoare (Iv kinds) (add_usage s d) (fun _ w => Iv kinds w) (Iv kinds).
Proof.
  unfold add_usage. eapply (hoare_bind _ _ _); [exact (get_session_spec kinds s)|]. intro x.
  apply (put_same_session_spec kinds s x). repeat split.
Qed.

Lemma set_scache_spec kinds f c : hoare (Iv kinds) (set_scache f c) (fun _ w => Iv kinds w) (Iv kinds).
Proof.
  unfold set_scache. eapply (hoare_bind _ _ _); [exact (get_factory_spec kinds f)|]. intro fa.
  eapply hoare_pre; [exact (put_factory_spec kinds f _)|].
  intros w [[HI _] FO]. split; [exact HI|]. exact FO.
Qed.

Lemma session_close_spec kinds s : hoare (Iv kinds) (session_close s) (fun _ w => Iv kinds w) (Iv kinds).
Proof.
  unfold session_close. eapply (hoare_bind _ _ _); [exact (get_session_spec kinds s)|]. intro x.
  destruct (ss_cached x).
  - eapply (hoare_bind _ _ (fun (_ : unit) w => Iv kinds w)).
    + eapply hoare_pre; [exact (add_usage_spec kinds s (-1)) | tauto].
    + intros _. exact (try_remove_spec kinds s).
  - eapply hoare_pre; [exact (envelope_close_spec kinds s) | tauto].
Qed.

Lemma factory_close_spec kinds f : hoare (Iv kinds) (factory_close f) (fun _ w => Iv kinds w) (Iv kinds).
Proof.
  unfold factory_close. eapply (hoare_bind _ _ _); [exact (get_factory_spec kinds f)|]. intro fa.
  apply hoare_pre with (P' := fun w => fact_ok kinds fa /\ Iv kinds w); [|intros w [[HI _] FO]; tauto].
  apply hoare_pure. intros [_ [_ [_ [Hsk [Hik _]]]]].
  eapply (hoare_bind _ _ (fun (_ : unit) w => Iv kinds w)).
  { destruct (fa_scache fa) as [c|]; [|apply hoare_ret; tauto].
    eapply (hoare_bind _ _ (fun (_ : Z) w => Iv kinds w)); [exact (hoare_q0 get_now (Iv kinds) _ q0_get_now (stable0_Iv kinds) (fun w H => H))|].
    intro now. destruct (Generic.step str_eqb c now [] OClose) as [[c' r] ev].
    eapply (hoare_bind _ _ (fun (_ : unit) w => Iv kinds w)); [exact (set_scache_spec kinds f c')|]. intros _. exact (evictions_spec kinds ev). }
  intros _.
  eapply (hoare_bind _ _ (fun (_ : unit) w => Iv kinds w)).
  { destruct (use_shared_ik (fa_policy fa)); [|apply hoare_ret; tauto].
    apply kc_close_spec. intros cid H. exists false. exact (Hik cid H). }
  intros _. apply kc_close_spec. intros cid H. exists true. exact (Hsk cid H).
Qed.

(* ---- allocation of caches, factories and sessions: the ghost kind map grows --------------------------- *)

Definition HIv (w : world) : Prop := exists kinds, Iv kinds w.


Lemma nth_error_app_keep {A} (l l' : list A) n x : nth_error l n = Some x -> nth_error (l ++ l') n = Some x.
Proof. apply nth_error_app_l. Qed.

Lemma fact_ok_app kinds b fa : fact_ok kinds fa -> fact_ok (kinds ++ [b]) fa.
Proof.
  intros [A [B [C [D [E P]]]]]. split; [exact A|]. split; [exact B|]. split; [exact C|]. split; [|split; [|exact P]].
  - intros cid H. apply nth_error_app_keep. exact (D cid H).
  - intros cid H. apply nth_error_app_keep. exact (E cid H).
Qed.

Lemma sess_ok_app kinds b w x : sess_ok kinds w x -> sess_ok (kinds ++ [b]) w x.
Proof.
  intros [A [B [C [D E]]]]. repeat split; try assumption. intros cid H. apply nth_error_app_keep. exact (E cid H).
Qed.

Lemma new_cache_ok kd w pol : cap_ok pol -> cache_ok kd w {| kc_backing := new_backing pol; kc_latest := [] |}.
Proof.
  intro CO. unfold new_backing, cap_ok in *. split; [|split].
  - cbn [kc_backing]. destruct (cp_kind pol) as [k|]; cbn [b_good].
    + split; [apply Inv_new|]. split; [intro H; discriminate H|]. cbn. split; [exact CO | reflexivity].
    + constructor.
  - cbn [kc_backing]. intros ks e H. destruct (cp_kind pol); cbn in H; discriminate H.
  - cbn [kc_latest]. intros i l H. discriminate H.
Qed.

Lemma Iv_add_cache kinds w pol b :
  cap_ok pol -> Iv kinds w ->
  Iv (kinds ++ [b]) (with_caches (w_caches w ++ [{| kc_backing := new_backing pol; kc_latest := [] |}]) w) /\
  nth_error (kinds ++ [b]) (length (w_caches w)) = Some b.
Proof.
  intros CO [SO [L C F S]]. split.
  - split; [exact SO|]. constructor; wsimpl.
    + rewrite !app_length, L. reflexivity.
    + intros cid kc b0 H1 H2. destruct (lt_dec cid (length (w_caches w))) as [Lt|Ge].
      * rewrite nth_error_app1 in H1 by exact Lt. rewrite nth_error_app1 in H2 by (rewrite L; exact Lt).
        eapply cache_ok_ext; [apply same_keys_caches | eapply C; eassumption].
      * assert (cid = length (w_caches w)).
        { assert (cid < length (w_caches w ++ [{| kc_backing := new_backing pol; kc_latest := [] |}]))%nat by (apply nth_error_Some; congruence).
          rewrite app_length in H. cbn in H. lia. }
        subst cid. rewrite nth_error_app2 in H1 by lia. rewrite Nat.sub_diag in H1. inversion H1; subst kc.
        rewrite nth_error_app2 in H2 by lia. rewrite L, Nat.sub_diag in H2. inversion H2; subst b0.
        apply new_cache_ok. exact CO.
    + intros f fa H. apply fact_ok_app. exact (F f fa H).
    + intros s0 x H. apply sess_ok_app. destruct (S s0 x H) as [Hf Rest]. split; [exact Hf | exact Rest].
  - rewrite <- L. rewrite nth_error_app2 by lia. rewrite Nat.sub_diag. reflexivity.
Qed.

Lemma new_keycache_run pol w :
  new_keycache pol w = (inr (length (w_caches w)), with_caches (w_caches w ++ [{| kc_backing := new_backing pol; kc_latest := [] |}]) w).
Proof. reflexivity. Qed.

Lemma cache_kind_app kinds c b b' : cache_kind kinds c b -> cache_kind (kinds ++ [b']) c b.
Proof. intros H cid E. apply nth_error_app_keep. exact (H cid E). Qed.

Lemma Iv_add_factory kinds w fa :
  Iv kinds w -> fact_ok kinds fa -> Iv kinds (with_factories (w_factories w ++ [fa]) w).
Proof.
  intros [SO [L C F S]] FO. split; [exact SO|]. constructor; wsimpl.
  - exact L.
  - intros cid kc b H1 H2. eapply cache_ok_ext; [apply same_keys_factories | eapply C; eassumption].
  - intros f fa0 H. destruct (lt_dec f (length (w_factories w))) as [Lt|Ge].
    + rewrite nth_error_app1 in H by exact Lt. exact (F f fa0 H).
    + assert (f = length (w_factories w)).
      { assert (f < length (w_factories w ++ [fa]))%nat by (apply nth_error_Some; congruence). rewrite app_length in H0. cbn in H0. lia. }
      subst f. rewrite nth_error_app2 in H by lia. rewrite Nat.sub_diag in H. inversion H; subst. exact FO.
  - intros s0 x H. apply (sess_ok_factories kinds w _ x); [|exact (S s0 x H)].
    intros f Hn. destruct (nth_error (w_factories w) f) eqn:E; [|contradiction]. rewrite (nth_error_app_keep _ _ _ _ E). discriminate.
Qed.

Lemma new_factory_spec kinds p :
  pol_ok p -> hoare (Iv kinds) (new_factory p svc prod None) (fun _ w => HIv w) HIv.
Proof.
  intros [CS CI0] w HI. unfold new_factory, bind.
  set (sc := if p_cache_sessions p then Some (new_cache {| c_kind := p_sess_kind p; c_cap := p_sess_cap p; c_expiry := if p_sess_dur p >? 0 then p_sess_dur p else 0 |}) else None).
  destruct (p_cache_sk p).
  - rewrite new_keycache_run. cbn [ret]. destruct (Iv_add_cache kinds w (p_sk_pol p) true CS HI) as [HI1 Hk1].
    set (w1 := with_caches (w_caches w ++ [{| kc_backing := new_backing (p_sk_pol p); kc_latest := [] |}]) w) in *.
    destruct (use_shared_ik p).
    + rewrite new_keycache_run. cbn [ret]. destruct (Iv_add_cache _ w1 (p_ik_pol p) false CI0 HI1) as [HI2 Hk2].
      set (w2 := with_caches _ w1) in *. unfold gets, upd, ret. cbn [fst snd].
      exists ((kinds ++ [true]) ++ [false]). apply Iv_add_factory; [exact HI2|].
      repeat split; cbn [fa_svc fa_prod fa_suffix fa_sk fa_ik fa_policy]; try exact CS; try exact CI0.
      * intros cid E. inversion E; subst. apply nth_error_app_keep. exact Hk1.
      * intros cid E. inversion E; subst. exact Hk2.
    + unfold gets, upd, ret. cbn [fst snd]. exists (kinds ++ [true]). apply Iv_add_factory; [exact HI1|].
      repeat split; cbn [fa_svc fa_prod fa_suffix fa_sk fa_ik fa_policy]; try exact CS; try exact CI0.
      * intros cid E. inversion E; subst. exact Hk1.
      * intros cid E. discriminate E.
  - cbn [ret]. destruct (use_shared_ik p).
    + rewrite new_keycache_run. cbn [ret]. destruct (Iv_add_cache _ w (p_ik_pol p) false CI0 HI) as [HI2 Hk2].
      unfold gets, upd, ret. cbn [fst snd]. exists (kinds ++ [false]). apply Iv_add_factory; [exact HI2|].
      repeat split; cbn [fa_svc fa_prod fa_suffix fa_sk fa_ik fa_policy]; try exact CS; try exact CI0.
      * intros cid E. discriminate E.
      * intros cid E. inversion E; subst. exact Hk2.
    + unfold gets, upd, ret. cbn [fst snd]. exists kinds. apply Iv_add_factory; [exact HI|].
      repeat split; cbn [fa_svc fa_prod fa_suffix fa_sk fa_ik fa_policy]; try exact CS; try exact CI0; intros cid E; discriminate E.
Qed.

Lemma Iv_add_session kinds w x :
  Iv kinds w -> sess_ok kinds w x -> Iv kinds (with_sessions (w_sessions w ++ [x]) w).
Proof.
  intros [SO [L C F S]] SX. split; [exact SO|]. constructor; wsimpl.
  - exact L.
  - intros cid kc b H1 H2. eapply cache_ok_ext; [apply same_keys_sessions | eapply C; eassumption].
  - exact F.
  - intros s0 x0 H. destruct (lt_dec s0 (length (w_sessions w))) as [Lt|Ge].
    + rewrite nth_error_app1 in H by exact Lt. exact (S s0 x0 H).
    + assert (s0 = length (w_sessions w)).
      { assert (s0 < length (w_sessions w ++ [x]))%nat by (apply nth_error_Some; congruence). rewrite app_length in H0. cbn in H0. lia. }
      subst s0. rewrite nth_error_app2 in H by lia. rewrite Nat.sub_diag in H. inversion H; subst. exact SX.
Qed.

Lemma new_session_spec kinds f id cached :
  hoare (Iv kinds) (new_session f id cached) (fun _ w => HIv w) HIv.
Proof.
  intros w HI. unfold new_session, get_factory, bind, gets, fail, ret, upd. cbv beta iota.
  destruct (nth_error (w_factories w) f) as [fa|] eqn:Ef; cbv beta iota; [|exists kinds; exact HI].
  pose proof HI as [_ [L C F S]]. pose proof (F f fa Ef) as [Fs [Fp [Fx [Fsk [Fik [_ Pik]]]]]].
  assert (Part : forall ik, (forall cid, ik = Some cid -> nth_error kinds cid = Some false) ->
                 forall own, sess_ok kinds w {| ss_factory := f; ss_part := new_partition id (fa_svc fa) (fa_prod fa) (fa_suffix fa);
                                                ss_ik := ik; ss_own_ik := own; ss_cached := cached; ss_usage := 0; ss_evicted := false; ss_torn := false |}).
  { intros ik Hik own. split; [exists fa; exact Ef|]. cbn [ss_part ss_ik]. rewrite Fx. cbn [new_partition p_svc p_prod p_suffix].
    repeat split; assumption. }
  destruct (use_shared_ik (fa_policy fa)).
  - unfold ret, upd. cbn [fst snd]. exists kinds. apply Iv_add_session; [exact HI|]. apply Part. exact Fik.
  - destruct (p_cache_ik (fa_policy fa)).
    + rewrite new_keycache_run. cbn [ret fst snd]. destruct (Iv_add_cache kinds w (p_ik_pol (fa_policy fa)) false Pik HI) as [HI1 Hk1].
      unfold ret, upd. cbn [fst snd]. exists (kinds ++ [false]). apply Iv_add_session; [exact HI1|].
      split; [exists fa; exact Ef|]. cbn [ss_part ss_ik]. rewrite Fx. cbn [new_partition p_svc p_prod p_suffix].
      repeat split; try assumption. intros cid E. inversion E; subst. exact Hk1.
    + unfold ret, upd. cbn [fst snd]. exists kinds. apply Iv_add_session; [exact HI|]. apply Part. intros cid E. discriminate E.
Qed.

Lemma session_env_spec kinds s :
  hoare (Iv kinds) (session_env s) (fun e w => Iv kinds w /\ env_ok kinds e) (Iv kinds).
Proof.
  unfold session_env. eapply (hoare_bind _ _ _); [exact (get_session_spec kinds s)|]. intro x.
  eapply (hoare_bind _ _ (fun fa w => (Iv kinds w /\ sess_ok kinds w x) /\ fact_ok kinds fa)).
  { eapply hoare_weaken.
    - exact (hoare_conj _ _ _ _ _ _ _ (get_factory_spec kinds (ss_factory x))
               (hoare_quiet0 _ (fun w => sess_ok kinds w x) (q0_get_factory _) (stableS_sess_ok kinds x))).
    - cbv beta. tauto.
    - cbv beta. intros fa w [[[HI _] FO] SX]. tauto.
    - cbv beta. tauto. }
  intro fa. apply hoare_ret. intros w [[HI [_ [A [B [C D]]]]] [_ [_ [_ [Fsk _]]]]]. split; [exact HI|].
  unfold env_ok. cbn [en_part en_sk en_ik]. repeat split; assumption.
Qed.

(* from one ghost kind map to "some kind map" *)
Lemma lift_HIv {A} (m : M A) : (forall kinds, hoare (Iv kinds) m (fun _ w => Iv kinds w) (Iv kinds)) -> hoare HIv m (fun _ w => HIv w) HIv.
Proof.
  intros H. apply hoare_ex. intro kinds. eapply hoare_weaken; [exact (H kinds) | tauto | |]; intros; exists kinds; assumption.
Qed.

Lemma lift_HIv' {A} (m : M A) : (forall kinds, hoare (Iv kinds) m (fun _ w => HIv w) HIv) -> hoare HIv m (fun _ w => HIv w) HIv.
Proof. intros H. apply hoare_ex. intro kinds. exact (H kinds). Qed.

Lemma factory_get_session_spec f id : hoare HIv (factory_get_session f id) (fun _ w => HIv w) HIv.
Proof.
  unfold factory_get_session. destruct (negb (get_session_ok id)); [apply hoare_ret; tauto|].
  eapply (hoare_bind _ _ (fun (_ : factory) w => HIv w)).
  { apply lift_HIv. intro kinds. exact (hoare_q0 _ (Iv kinds) _ (q0_get_factory f) (stable0_Iv kinds) (fun w H => H)). }
  intro fa. destruct (fa_scache fa) as [c|].
  - eapply (hoare_bind _ _ (fun (_ : Z) w => HIv w)).
    { apply lift_HIv. intro kinds. exact (hoare_q0 get_now (Iv kinds) _ q0_get_now (stable0_Iv kinds) (fun w H => H)). }
    intro now.
    assert (Tail : forall s, hoare HIv (add_usage s 1;;; ret (Some s)) (fun _ w => HIv w) HIv).
    { intro s. eapply (hoare_bind _ _ (fun (_ : unit) w => HIv w)); [apply lift_HIv; intro kinds; exact (add_usage_spec kinds s 1)|].
      intros _. apply hoare_ret. tauto. }
    assert (SE : forall c1 ev1 (k : M (option nat)), hoare HIv k (fun _ w => HIv w) HIv ->
                 hoare HIv (set_scache f c1;;; evictions ev1;;; k) (fun _ w => HIv w) HIv).
    { intros c1 ev1 k Hk.
      eapply (hoare_bind _ _ (fun (_ : unit) w => HIv w)); [apply lift_HIv; intro kinds; exact (set_scache_spec kinds f c1)|]. intros _.
      eapply (hoare_bind _ _ (fun (_ : unit) w => HIv w)); [apply lift_HIv; intro kinds; exact (evictions_spec kinds ev1)|]. intros _. exact Hk. }
    assert (Miss : forall c1 ev1, hoare HIv (set_scache f c1;;; evictions ev1;;;
                      s <- new_session f id true;; fa' <- get_factory f;;
                      match fa_scache fa' with
                      | Some c2 => let '(c3, _, ev3) := Generic.step str_eqb c2 now [] (OSet id s) in
                                   set_scache f c3;;; evictions ev3;;; add_usage s 1;;; ret (Some s)
                      | None => fail ErrPanic end) (fun _ w => HIv w) HIv).
    { intros c1 ev1. apply SE.
      eapply (hoare_bind _ _ (fun (_ : nat) w => HIv w)); [apply lift_HIv'; intro kinds; exact (new_session_spec kinds f id true)|].
      intro s.
      eapply (hoare_bind _ _ (fun (_ : factory) w => HIv w)).
      { apply lift_HIv. intro kinds. exact (hoare_q0 _ (Iv kinds) _ (q0_get_factory f) (stable0_Iv kinds) (fun w H => H)). }
      intro fa'. destruct (fa_scache fa') as [c2|]; [|apply hoare_fail; tauto].
      destruct (Generic.step str_eqb c2 now [] (OSet id s)) as [[c3 r3] ev3]. apply SE. apply Tail. }
    destruct (Generic.step str_eqb c now [] (OGet id)) as [[c1 r] ev1].
    destruct r as [|[s|]| | |]; try apply Miss. apply SE. apply Tail.
  - eapply (hoare_bind _ _ (fun (_ : nat) w => HIv w)); [apply lift_HIv'; intro kinds; exact (new_session_spec kinds f id false)|].
    intro s. apply hoare_ret. tauto.
Qed.

(* ---- histories -------------------------------------------------------------------------------------------- *)

(* rows may change their Revoked flag (the operator's revocation), nothing else *)
Definition rows_flagged (st st' : list row) : Prop :=
  (forall i c r, store_find i c st = Some r ->
     exists r', store_find i c st' = Some r' /\ e_created r' = e_created r /\ e_key r' = e_key r /\ e_parent r' = e_parent r) /\
  (forall i c r', store_find i c st' = Some r' -> exists r, store_find i c st = Some r).

Lemma sk_row_flagged st st' c m : rows_flagged st st' -> sk_row st c m -> sk_row st' c m.
Proof.
  intros [K _] [r [H1 [H2 [H3 H4]]]]. destruct (K _ _ _ H1) as [r' [A [B [C D]]]]. exists r'.
  repeat split; congruence.
Qed.

Lemma ik_row_flagged st st' i c m : rows_flagged st st' -> ik_row st i c m -> ik_row st' i c m.
Proof.
  intros F [r [c' [skm [n [H1 [H2 [H3 [H4 H5]]]]]]]]. pose proof F as [K _]. destruct (K _ _ _ H1) as [r' [A [B [C D]]]].
  exists r', c', skm, n. repeat split; try congruence. eapply sk_row_flagged; eassumption.
Qed.

Lemma store_ok_flagged st st' : rows_flagged st st' -> store_ok st -> store_ok st'.
Proof.
  intros F SO i c r' H. pose proof F as [_ B]. destruct (B _ _ _ H) as [r Hr].
  destruct (SO _ _ _ Hr) as [[Ei [m Hm]]|[p [Ei [m Hm]]]].
  - left. split; [exact Ei|]. exists m. eapply sk_row_flagged; eassumption.
  - right. exists p. split; [exact Ei|]. exists m. eapply ik_row_flagged; eassumption.
Qed.

Lemma genuine_flagged st st' pid d p : rows_flagged st st' -> genuine st pid d p -> genuine st' pid d p.
Proof.
  intros F [k [c [ikm [n [dkm [n' [H1 [H2 [H3 [H4 H5]]]]]]]]]]. exists k, c, ikm, n, dkm, n'.
  repeat split; try assumption. eapply ik_row_flagged; eassumption.
Qed.

Lemma Iv_store_flagged kinds w st' : rows_flagged (w_store w) st' -> Iv kinds w -> Iv kinds (with_store st' w).
Proof.
  intros Fl [SO [L C F S]]. split; [eapply store_ok_flagged; eassumption|]. constructor; wsimpl.
  - exact L.
  - intros cid kc b H1 H2. destruct (C cid kc b H1 H2) as [G [EN AL]]. split; [exact G|]. split; [|exact AL].
    intros ks e H. destruct (EN ks e H) as [i [c [E1 [E2 [O [c2 [m [H3 [H4 H5]]]]]]]]]. exists i, c. split; [exact E1|].
    split; [exact E2|]. split; [exact O|]. exists c2, m. split; [exact H3|]. split; [exact H4|]. wsimpl.
    destruct (kd_of b); cbn [row_ok] in *; [eapply sk_row_flagged | eapply ik_row_flagged]; eassumption.
  - exact F.
  - intros s0 x H. destruct (S s0 x H) as [Hf Rest]. split; [exact Hf | exact Rest].
Qed.

Lemma store_find_row_edit id c i0 c0 g st :
  store_find id c (row_edit i0 c0 g st) =
  match store_find id c st with
  | Some r => Some (if str_eqb id i0 && (c =? c0) then g r else r)
  | None => None end.
Proof.
  induction st as [|[[i k] r] st IH]; cbn [row_edit map store_find]; [reflexivity|].
  destruct (str_eqb i i0 && (k =? c0)) eqn:E0; cbn [store_find].
  - destruct (str_eqb i id && (k =? c)) eqn:E1.
    + apply andb_true_iff in E0 as [A B]. apply andb_true_iff in E1 as [C D].
      apply str_eqb_eq in A, C. apply Z.eqb_eq in B, D. subst. rewrite str_eqb_refl, Z.eqb_refl. reflexivity.
    + exact IH.
  - destruct (str_eqb i id && (k =? c)) eqn:E1.
    + apply andb_true_iff in E1 as [C D]. apply str_eqb_eq in C. apply Z.eqb_eq in D. subst. rewrite E0. reflexivity.
    + exact IH.
Qed.

Lemma revoke_flagged st i0 c0 :
  rows_flagged st (row_edit i0 c0 (fun r => {| e_revoked := true; e_created := e_created r; e_key := e_key r; e_parent := e_parent r |}) st).
Proof.
  split.
  - intros i c r H. rewrite store_find_row_edit, H. eexists. split; [reflexivity|].
    destruct (str_eqb i i0 && (c =? c0)); repeat split.
  - intros i c r' H. rewrite store_find_row_edit in H. destruct (store_find i c st) as [r|]; [exists r; reflexivity | discriminate].
Qed.

Lemma Iv_ext kinds w w' :
  w_store w' = w_store w -> w_kobjs w' = w_kobjs w -> w_secrets w' = w_secrets w -> w_caches w' = w_caches w ->
  w_sessions w' = w_sessions w -> w_factories w' = w_factories w -> Iv kinds w -> Iv kinds w'.
Proof.
  intros E1 E2 E3 E4 E5 E6 [SO [L C F S]]. split; [rewrite E1; exact SO|]. constructor.
  - rewrite E4. exact L.
  - intros cid kc b H1 H2. rewrite E4 in H1. eapply cache_ok_ext; [|eapply C; eassumption]. repeat split; assumption.
  - intros f fa H. rewrite E6 in H. exact (F f fa H).
  - intros s0 x H. rewrite E5 in H. destruct (S s0 x H) as [[fa Hf] Rest]. split; [exists fa; rewrite E6; exact Hf | exact Rest].
Qed.

Definition benign (o : hop) : Prop :=
  match o with
  | HNewFactory p s pr suf => s = svc /\ pr = prod /\ suf = None /\ pol_ok p
  | HInsert _ _ _ | HDropParent _ _ | HCorruptKey _ _ => False
  | _ => True
  end.

Definition recs_ok (h : hstate) : Prop :=
  forall j d, nth_error (h_recs h) j = Some d -> exists pid p, genuine (w_store (h_world h)) pid d p.

Definition HInv (h : hstate) : Prop := HIv (h_world h) /\ recs_ok h.

Lemma HIv_begin_op fs w : HIv w -> HIv (begin_op fs w).
Proof. intros [kinds HI]. exists kinds. eapply Iv_ext; [..|exact HI]; reflexivity. Qed.

Lemma recs_ok_rows h w' recs' :
  rows_kept (w_store (h_world h)) (w_store w') -> recs_ok h ->
  (forall j d, nth_error recs' j = Some d -> nth_error (h_recs h) j = Some d \/ exists pid p, genuine (w_store w') pid d p) ->
  recs_ok {| h_world := w'; h_recs := recs' |}.
Proof.
  intros K RO Hn j d H. cbn [h_recs h_world] in *. destruct (Hn j d H) as [Ho|G]; [|exact G].
  destruct (RO j d Ho) as [pid [p G]]. exists pid, p. eapply genuine_kept; eassumption.
Qed.

Lemma encrypt_op_spec kinds s payload :
  hoare (Iv kinds) (e <- session_env s ;; encrypt_payload e (PPayload payload))
        (fun d w => Iv kinds w /\ exists pid, genuine (w_store w) pid d (PPayload payload)) (Iv kinds).
Proof.
  eapply (hoare_bind _ _ _); [exact (session_env_spec kinds s)|]. intro e.
  apply hoare_pre with (P' := fun w => env_ok kinds e /\ Iv kinds w); [|tauto]. apply hoare_pure. intro EO.
  eapply hoare_post; [exact (encrypt_payload_spec kinds e (PPayload payload) EO)|].
  intros d w [HI G]. split; [exact HI|]. exists (p_id (en_part e)). exact G.
Qed.

Lemma decrypt_op_spec kinds s r :
  hoare (Iv kinds) (e <- session_env s ;; decrypt_data_row_record e r) (fun _ w => Iv kinds w) (Iv kinds).
Proof.
  eapply (hoare_bind _ _ _); [exact (session_env_spec kinds s)|]. intro e.
  apply hoare_pre with (P' := fun w => env_ok kinds e /\ Iv kinds w); [|tauto]. apply hoare_pure. intro EO.
  exact (decrypt_data_row_record_spec kinds e r EO).
Qed.

Theorem hstep_inv h o : benign o -> HInv h -> HInv (snd (hstep h o)).
Proof.
  intros B [HI RO].
  assert (Keep : sdk_op o = true -> rows_kept (w_store (h_world h)) (w_store (h_world (snd (hstep h o))))).
  { intro So. destruct (sdk_step_R Rs Rs_frame h o So) as [K _]. exact K. }
  assert (Same : forall w', rows_kept (w_store (h_world h)) (w_store w') -> HIv w' -> HInv {| h_world := w'; h_recs := h_recs h |}).
  { intros w' K H'. split; [exact H'|]. eapply recs_ok_rows; [exact K | exact RO |]. intros j d H. left. exact H. }
  destruct o; cbn [benign] in B; try contradiction.
  - (* new factory *)
    destruct B as [-> [-> [-> PO]]]. pose proof (Keep eq_refl) as K. cbn [hstep] in *.
    destruct (HIv_begin_op [] _ HI) as [kinds HI0]. pose proof (new_factory_spec kinds p PO _ HI0) as X.
    destruct (new_factory p svc prod None (begin_op [] (h_world h))) as [[er|a] w']; cbn [snd h_world] in *; apply Same; assumption.
  - pose proof (Keep eq_refl) as K. cbn [hstep] in *.
    pose proof (factory_get_session_spec f id _ (HIv_begin_op [] _ HI)) as X.
    destruct (factory_get_session f id (begin_op [] (h_world h))) as [[er|a] w']; cbn [snd h_world] in *; apply Same; assumption.
  - (* encrypt *)
    pose proof (Keep eq_refl) as K. cbn [hstep] in *.
    destruct (HIv_begin_op faults _ HI) as [kinds HI0]. pose proof (encrypt_op_spec kinds s payload _ HI0) as X.
    destruct ((e <- session_env s;; encrypt_payload e (PPayload payload)) (begin_op faults (h_world h))) as [[er|d] w']; cbn [snd h_world] in *.
    + apply Same; [exact K | exists kinds; exact X].
    + destruct X as [HI' [pid G]]. split; [exists kinds; exact HI'|].
      eapply recs_ok_rows; [exact K | exact RO |]. intros j d0 H.
      destruct (lt_dec j (length (h_recs h))) as [Lt|Ge].
      * left. rewrite nth_error_app1 in H by exact Lt. exact H.
      * right. assert (j = length (h_recs h)).
        { assert (j < length (h_recs h ++ [d]))%nat by (apply nth_error_Some; congruence). rewrite app_length in H0. cbn in H0. lia. }
        subst j. rewrite nth_error_app2 in H by lia. rewrite Nat.sub_diag in H. inversion H; subst. exists pid, (PPayload payload). exact G.
  - (* decrypt *)
    pose proof (Keep eq_refl) as K. cbn [hstep] in *.
    destruct (nth_error (h_recs h) rec) as [r0|]; [|split; assumption].
    destruct (HIv_begin_op faults _ HI) as [kinds HI0].
    pose proof (decrypt_op_spec kinds s (fold_left (apply_mut (h_recs h)) muts r0) _ HI0) as X.
    destruct ((e <- session_env s;; decrypt_data_row_record e (fold_left (apply_mut (h_recs h)) muts r0)) (begin_op faults (h_world h))) as [[er|a] w'];
      cbn [snd h_world] in *; (apply Same; [exact K | exists kinds; exact X]).
  - pose proof (Keep eq_refl) as K. cbn [hstep] in *.
    destruct (HIv_begin_op [] _ HI) as [kinds HI0]. pose proof (session_close_spec kinds s _ HI0) as X.
    destruct (session_close s (begin_op [] (h_world h))) as [[er|a] w']; cbn [snd h_world] in *; (apply Same; [exact K | exists kinds; exact X]).
  - pose proof (Keep eq_refl) as K. cbn [hstep] in *.
    destruct (HIv_begin_op [] _ HI) as [kinds HI0]. pose proof (factory_close_spec kinds f _ HI0) as X.
    destruct (factory_close f (begin_op [] (h_world h))) as [[er|a] w']; cbn [snd h_world] in *; (apply Same; [exact K | exists kinds; exact X]).
  - (* clock *)
    cbn [hstep snd]. apply Same; [intros i c r H; exact H|]. destruct HI as [kinds HI]. exists kinds. eapply Iv_ext; [..|exact HI]; reflexivity.
  - (* revocation *)
    cbn [hstep snd]. pose proof (revoke_flagged (w_store (h_world h)) id created) as Fl. split.
    + destruct HI as [kinds HI]. exists kinds. apply Iv_store_flagged; assumption.
    + intros j d H. cbn [h_recs h_world] in *. destruct (RO j d H) as [pid [p G]]. exists pid, p. wsimpl. eapply genuine_flagged; eassumption.
Qed.

Lemma HInv_init t0 : HInv (hinit t0).
Proof.
  split.
  - exists []. split; [intros i c r H; discriminate H|]. constructor; cbn.
    + reflexivity.
    + intros cid kc b H. destruct cid; discriminate H.
    + intros f fa H. destruct f; discriminate H.
    + intros s0 x H. destruct s0; discriminate H.
  - intros j d H. destruct j; discriminate H.
Qed.

Lemma hrun_inv ops : forall h, Forall benign ops -> HInv h -> HInv (snd (hrun h ops)).
Proof.
  induction ops as [|o ops IH]; intros h FB HI; cbn [hrun]; [exact HI|].
  inversion FB as [|? ? Bo Bops]; subst.
  pose proof (hstep_inv h o Bo HI) as H1. destruct (hstep h o) as [[res ev] h1]. cbn [snd] in H1.
  specialize (IH h1 Bops H1). destruct (hrun h1 ops) as [rest hf]. exact IH.
Qed.

Theorem invariant_reachable t0 ops : Forall benign ops -> HInv (snd (hrun (hinit t0) ops)).
Proof. intro FB. exact (hrun_inv ops (hinit t0) FB (HInv_init t0)). Qed.

(* C02, for every history of SDK operations, clock advances and revocations over one service/product: every record any
   Encrypt has returned so far names an intermediate key row that is in the metastore, whose ParentKeyMeta names a system key
   row that is in the metastore, and is sealed so that those two rows and the KMS open it - whatever faults, refused
   inserts, evictions, rotations and restarts (new factories) happened on the way *)
Theorem records_durable t0 ops :
  Forall benign ops ->
  let h := snd (hrun (hinit t0) ops) in
  forall j d, nth_error (h_recs h) j = Some d -> exists pid p, genuine (w_store (h_world h)) pid d p.
Proof.
  intros FB h j d H. destruct (hrun_inv ops (hinit t0) FB (HInv_init t0)) as [_ RO]. exact (RO j d H).
Qed.

(* the metastore itself stays well formed *)
Theorem store_well_formed t0 ops :
  Forall benign ops -> store_ok (w_store (h_world (snd (hrun (hinit t0) ops)))).
Proof.
  intro FB. destruct (hrun_inv ops (hinit t0) FB (HInv_init t0)) as [[kinds [SO _]] _]. exact SO.
Qed.

(* the record returned by THIS Encrypt carries THIS payload *)
Theorem encrypt_returns_genuine h s payload faults :
  HInv h ->
  match hstep h (HEncrypt s payload faults) with
  | (OEnc _ _, _, h') =>
      exists d pid, h_recs h' = h_recs h ++ [d] /\ genuine (w_store (h_world h')) pid d (PPayload payload)
  | _ => True
  end.
Proof.
  intros [HI _]. cbn [hstep]. destruct (HIv_begin_op faults _ HI) as [kinds HI0].
  pose proof (encrypt_op_spec kinds s payload _ HI0) as X.
  destruct ((e <- session_env s;; encrypt_payload e (PPayload payload)) (begin_op faults (h_world h))) as [[er|d] w'].
  - cbn [outcome]. destruct er; exact I.
  - cbn [outcome]. destruct X as [_ [pid G]]. destruct (d_key d) as [k|]; [|exact I]. destruct (e_parent k); [|exact I].
    exists d, pid. split; [reflexivity | exact G].
Qed.

End Coh.
