(* Session.Close for sessions that OWN their intermediate-key cache (the default policy): the close destroys that cache.  The
   liveness invariant of LiveD.v is relative to a set D of dead caches; closing a session adds its cache to D.  Histories: any
   interleaving of new factories, sessions, encrypts, decrypts (with fault plans), clock changes, revocations and session closes in
   which no operation addresses a session after its Close. *)
From Asherah Require Import Envelope.Session Envelope.Frame Envelope.FrameInst Envelope.Hoare Envelope.Coherent Envelope.Local Envelope.LiveD Envelope.Rotation Envelope.PartitionProofs Cache.CacheProofs.
From Coq Require Import Lia.

Definition Dplus (D : nat -> Prop) (cid : nat) : nat -> Prop := fun c => D c \/ c = cid.

Lemma nth_error_set_nth_other' {A} (l : list A) n m x : n <> m -> nth_error (set_nth n x l) m = nth_error l m.
Proof. revert n m; induction l as [|a l IH]; intros [|n] [|m] H; cbn; try reflexivity; try congruence. apply IH. congruence. Qed.

(* a cache dies: what it held (the entries ev handed to the closing loop) turns into holds *)
Lemma LInv_kill D H w cid kc kc' ev :
  LInv D NoX H w -> ~ D cid -> nth_error (w_caches w) cid = Some kc ->
  (forall x y, In (x, y) ev -> b_abs (kc_backing kc) x = Some y) -> NoDup (map fst ev) ->
  LInv (Dplus D cid) NoX (hadds H ev) (with_caches (set_nth cid kc' (w_caches w)) w).
Proof.
  intros L NDc Ec Hev NDev. pose proof L as [A B C D0 E F G G2].
  set (w' := with_caches (set_nth cid kc' (w_caches w)) w).
  assert (Ent : forall c s e, centry_at (Dplus D cid) w' c s e -> centry_at D w c s e /\ c <> cid).
  { intros c s e [ND [kc0 [X Y]]].
    assert (Nc : c <> cid) by (intro Eq; apply ND; right; exact Eq).
    unfold w' in X. wsimpl. rewrite nth_error_set_nth_other' in X by congruence.
    split; [|exact Nc]. split; [intro Dc; apply ND; left; exact Dc|]. exists kc0. split; assumption. }
  assert (EvC : forall x y, In (x, y) ev -> centry_at D w cid x y).
  { intros x y I. split; [exact NDc|]. exists kc. split; [exact Ec | exact (Hev x y I)]. }
  assert (EvInj : forall s1 e1 s2 e2, In (s1, e1) ev -> In (s2, e2) ev -> ce_key e1 = ce_key e2 -> s1 = s2).
  { intros s1 e1 s2 e2 I1 I2 Eq. destruct (C cid s1 e1 cid s2 e2 (EvC _ _ I1) (EvC _ _ I2) Eq) as [_ X]. exact X. }
  assert (OK : forall k, open_k w k -> open_k w' k) by (intros k X; exact X).
  assert (RG : forall k n, refs_ge w k n -> refs_ge w' k n) by (intros k n X; exact X).
  constructor.
  - intros x [c1 [s1 [e1 [Xe [_ Ye]]]]]. destruct (Ent _ _ _ Xe) as [Xo Nc]. rewrite hadds_val.
    assert (Z0 : cntk ev x = 0).
    { apply cntk_zero. intros s0 e0 I Eq. destruct (C cid s0 e0 c1 s1 e1 (EvC _ _ I) Xo ltac:(congruence)) as [E1 _]. congruence. }
    rewrite Z0. destruct (A x (ex_intro _ c1 (ex_intro _ s1 (ex_intro _ e1 (conj Xo (conj (fun f : NoX c1 s1 => f) Ye)))))) as [P [o [Q R]]].
    split; [apply OK; exact P | exists o; split; [exact Q | lia]].
  - intros x Hx. rewrite hadds_val in Hx. rewrite hadds_val.
    destruct (Z_gt_le_dec (cntk ev x) 0) as [Pos|Zero].
    + destruct (cntk_pos ev x Pos) as [s0 [e0 [I Eq]]].
      assert (Cx : cached D NoX w x) by (exists cid, s0, e0; split; [exact (EvC _ _ I) | split; [intros [] | exact Eq]]).
      pose proof (cntk_le1 ev x EvInj NDev). destruct (A x Cx) as [P1 [o [Q1 R1]]]. split; [apply OK; exact P1 | exists o; split; [exact Q1 | lia]].
    + pose proof (cntk_nonneg ev x). assert (Z0 : cntk ev x = 0) by lia. rewrite Z0 in *.
      destruct (B x ltac:(lia)) as [P [o [Q R]]]. split; [apply OK; exact P | exists o; split; [exact Q | lia]].
  - intros c1 s1 e1 c2 s2 e2 X1 X2 Eq. destruct (Ent _ _ _ X1) as [Y1 _], (Ent _ _ _ X2) as [Y2 _]. eapply C; eassumption.
  - exact D0.
  - exact E.
  - intro x. rewrite hadds_val. pose proof (cntk_nonneg ev x). pose proof (F x). lia.
  - intros c0 kc0 c ND0 Xc Yc. unfold w' in Xc. wsimpl.
    assert (Nc : c0 <> cid) by (intro Eq; apply ND0; right; exact Eq).
    rewrite nth_error_set_nth_other' in Xc by congruence. exact (G c0 kc0 c (fun Dc => ND0 (or_introl Dc)) Xc Yc).
  - intros c0 kc0 ND0 Xc. unfold w' in Xc. wsimpl.
    assert (Nc : c0 <> cid) by (intro Eq; apply ND0; right; exact Eq).
    rewrite nth_error_set_nth_other' in Xc by congruence. exact (G2 c0 kc0 (fun Dc => ND0 (or_introl Dc)) Xc).
Qed.

Lemma backing_close_nodup b now : b_good b -> NoDup (map fst (snd (backing_close b now))).
Proof.
  destruct b as [m|c]; cbn [backing_close b_good snd].
  - intro N. exact N.
  - intros [I [CO [Hc He]]].
    pose proof (CacheProofs.step_spec str centry str_eqb str_eqb_eq c now [] Generic.OClose I CO Hc) as S.
    destruct (Generic.step str_eqb c now [] Generic.OClose) as [[c' r] ev]. cbn [snd]. tauto.
Qed.

(* keyCache.Close of a live cache: afterwards the cache is dead and every key it held has lost the cache's reference *)
Lemma kc_close_L D H cid :
  ~ D cid ->
  hoare (LInv D NoX H) (kc_close (Some cid)) (fun _ w => LInv (Dplus D cid) NoX H w)
        (fun w => LInv D NoX H w \/ Lge (Dplus D cid) H w).
Proof.
  intros NDc w L. unfold hoare in *. cbv beta iota delta [kc_close bind get_cache gets get_now ret fail].
  destruct (nth_error (w_caches w) cid) as [kc|] eqn:Ec; cbv beta iota; [|left; exact L].
  pose proof (backing_close_spec (kc_backing kc) (w_now w) (l_good _ _ _ _ L cid kc NDc Ec)) as BC.
  pose proof (backing_close_nodup (kc_backing kc) (w_now w) (l_good _ _ _ _ L cid kc NDc Ec)) as ND.
  destruct (backing_close (kc_backing kc) (w_now w)) as [b' ev]. cbn [snd] in ND. destruct BC as [_ [_ Hev]].
  cbv beta iota delta [put_cache upd].
  pose proof (LInv_kill D H w cid kc {| kc_backing := b'; kc_latest := kc_latest kc |} ev L NDc Ec Hev ND) as L1.
  pose proof (closes_L (Dplus D cid) ev H (l_nonneg _ _ _ _ L) _ L1) as CL.
  destruct (closes ev (with_caches (set_nth cid {| kc_backing := b'; kc_latest := kc_latest kc |} (w_caches w)) w)) as [[er|u] w2].
  - right. exact CL.
  - exact CL.
Qed.

(* ---- programs that leave the session table alone (same class as in LiveClose.v, restated over this file's imports) ---- *)
Definition sameS (w w' : world) : Prop := w_sessions w' = w_sessions w.
Lemma sameS_refl w : sameS w w. Proof. reflexivity. Qed.
Lemma sameS_trans a b c : sameS a b -> sameS b c -> sameS a c. Proof. unfold sameS. intros A B. congruence. Qed.
Definition qS {A} (m : M A) : Prop := qu sameS m.
Lemma qS_ret {A} (a : A) : qS (ret a). Proof. apply (qu_ret sameS sameS_refl). Qed.
Lemma qS_fail {A} e : qS (@fail A e). Proof. apply (qu_fail sameS sameS_refl). Qed.
Lemma qS_gets {A} (f : world -> A) : qS (gets f). Proof. apply (qu_gets sameS sameS_refl). Qed.
Lemma qS_bind {A B} (m : M A) (f : A -> M B) : qS m -> (forall a, qS (f a)) -> qS (bind m f). Proof. apply (qu_bind sameS sameS_trans). Qed.
Lemma qS_finally {A} (m : M A) (c : M unit) : qS m -> qS c -> qS (finally m c). Proof. apply (qu_finally sameS sameS_trans). Qed.
Lemma qS_try {A} (m : M A) : qS m -> qS (try_ m). Proof. apply (qu_try sameS). Qed.
Lemma qS_emit e : qS (emit e). Proof. intro w. reflexivity. Qed.
Lemma qS_next_call : qS next_call. Proof. intro w. reflexivity. Qed.
Lemma qS_bump_nonce : qS bump_nonce. Proof. intro w. reflexivity. Qed.
Lemma qS_store_insert id c r : qS (store_insert id c r). Proof. intro w. unfold store_insert. destruct (store_find id c (w_store w)); reflexivity. Qed.
Lemma qS_secret_alloc m : qS (secret_alloc m). Proof. intro w. reflexivity. Qed.
Lemma qS_secret_mark_closed sid : qS (secret_mark_closed sid). Proof. intro w. unfold secret_mark_closed. destruct (nth_error (w_secrets w) sid); reflexivity. Qed.
Lemma qS_kobj_alloc o : qS (kobj_alloc o). Proof. intro w. reflexivity. Qed.
Lemma qS_kobj_modify k g : qS (kobj_modify k g). Proof. intro w. unfold kobj_modify. destruct (nth_error (w_kobjs w) k); reflexivity. Qed.
Lemma qS_put_cache cid c : qS (put_cache cid c). Proof. intro w. reflexivity. Qed.
Global Hint Resolve qS_emit qS_next_call qS_bump_nonce qS_store_insert qS_secret_alloc qS_secret_mark_closed qS_kobj_alloc qS_kobj_modify qS_put_cache : qS.

Ltac qS_step :=
  first
    [ solve [auto with qS]
    | apply qS_ret | apply qS_fail | apply qS_gets
    | apply qS_bind; [|intro]
    | apply qS_finally
    | apply qS_try
    | match goal with
      | |- qS (match ?x with _ => _ end) => destruct x
      | |- qS (let '(_, _) := ?x in _) => destruct x
      | |- qS (if ?x then _ else _) => destruct x
      end ].
Ltac qS_go := repeat qS_step.

Lemma qS_get_now : qS get_now. Proof. apply qS_gets. Qed.
Lemma qS_get_store : qS get_store. Proof. apply qS_gets. Qed.
Lemma qS_get_secrets : qS get_secrets. Proof. apply qS_gets. Qed.
Lemma qS_get_kobjs : qS get_kobjs. Proof. apply qS_gets. Qed.
Lemma qS_secret_count : qS secret_count. Proof. apply qS_gets. Qed.
Global Hint Resolve qS_get_now qS_get_store qS_get_secrets qS_get_kobjs qS_secret_count : qS.
Lemma qS_m_load id c : qS (m_load id c). Proof. unfold m_load. qS_go. Qed.
Lemma qS_m_load_latest id : qS (m_load_latest id). Proof. unfold m_load_latest. qS_go. Qed.
Lemma qS_m_store id c r : qS (m_store id c r). Proof. unfold m_store. qS_go. Qed.
Lemma qS_kms_encrypt p : qS (kms_encrypt p). Proof. unfold kms_encrypt. qS_go. Qed.
Lemma qS_kms_decrypt c : qS (kms_decrypt c). Proof. unfold kms_decrypt. qS_go. Qed.
Lemma qS_aead_encrypt p k : qS (aead_encrypt p k). Proof. unfold aead_encrypt. qS_go. Qed.
Lemma qS_aead_decrypt c k : qS (aead_decrypt c k). Proof. unfold aead_decrypt. qS_go. Qed.
Lemma qS_secret_new m : qS (secret_new m). Proof. unfold secret_new. qS_go. Qed.
Lemma qS_secret_random : qS secret_random. Proof. unfold secret_random. qS_go. Qed.
Lemma qS_secret_close sid : qS (secret_close sid). Proof. unfold secret_close. qS_go. Qed.
Lemma qS_secret_bytes sid : qS (secret_bytes sid). Proof. unfold secret_bytes. qS_go. Qed.
Lemma qS_kobj_get k : qS (kobj_get k). Proof. unfold kobj_get. qS_go. Qed.
Global Hint Resolve qS_m_load qS_m_load_latest qS_m_store qS_kms_encrypt qS_kms_decrypt qS_aead_encrypt qS_aead_decrypt qS_secret_new
  qS_secret_random qS_secret_close qS_secret_bytes qS_kobj_get : qS.
Lemma qS_ck_close k : qS (ck_close k). Proof. unfold ck_close. qS_go. Qed.
Global Hint Resolve qS_ck_close : qS.
Lemma qS_cck_close k : qS (cck_close k). Proof. unfold cck_close. qS_go. Qed.
Lemma qS_cck_increment k : qS (cck_increment k). Proof. unfold cck_increment. qS_go. Qed.
Lemma qS_ck_set_revoked k b : qS (ck_set_revoked k b). Proof. unfold ck_set_revoked. qS_go. Qed.
Lemma qS_cck_wrap k : qS (cck_wrap k). Proof. unfold cck_wrap. qS_go. Qed.
Global Hint Resolve qS_cck_close qS_cck_increment qS_ck_set_revoked qS_cck_wrap : qS.
Lemma qS_key_bytes k : qS (key_bytes k). Proof. unfold key_bytes. qS_go. Qed.
Lemma qS_new_crypto_key c r m : qS (new_crypto_key c r m). Proof. unfold new_crypto_key. qS_go. Qed.
Lemma qS_generate_key c : qS (generate_key c). Proof. unfold generate_key. qS_go. Qed.
Lemma qS_get_cache cid : qS (get_cache cid). Proof. unfold get_cache. qS_go. Qed.
Global Hint Resolve qS_key_bytes qS_new_crypto_key qS_generate_key qS_get_cache : qS.
Lemma qS_kc_read cid m : qS (kc_read cid m). Proof. unfold kc_read. qS_go. Qed.
Lemma qS_reload_required e rci : qS (reload_required e rci). Proof. unfold reload_required. qS_go. Qed.
Global Hint Resolve qS_kc_read qS_reload_required : qS.
Lemma qS_kc_get_fresh cid rci m : qS (kc_get_fresh cid rci m). Proof. unfold kc_get_fresh. qS_go. Qed.
Lemma qS_closes l : qS (closes l). Proof. unfold closes. induction l as [|x l IH]; cbn [fold_right]; qS_go. Qed.
Global Hint Resolve qS_kc_get_fresh qS_closes : qS.
Lemma qS_kc_write cid m e : qS (kc_write cid m e). Proof. unfold kc_write. qS_go. Qed.
Global Hint Resolve qS_kc_write : qS.
Lemma qS_kc_load cid m loader : (forall x, qS (loader x)) -> qS (kc_load cid m loader). Proof. intro H. unfold kc_load. qS_go. Qed.
Lemma qS_is_key_invalid k e : qS (is_key_invalid k e). Proof. unfold is_key_invalid. qS_go. Qed.
Global Hint Resolve qS_is_key_invalid : qS.
Lemma qS_get_or_load c rci m loader : (forall x, qS (loader x)) -> qS (get_or_load c rci m loader).
Proof. intro H. unfold get_or_load. qS_go; apply qS_kc_load; exact H. Qed.
Lemma qS_get_or_load_latest c rci ex id loader : (forall x, qS (loader x)) -> qS (get_or_load_latest c rci ex id loader).
Proof. intro H. unfold get_or_load_latest. qS_go; try apply qS_kc_load; exact H. Qed.
Lemma qS_is_envelope_invalid e r : qS (is_envelope_invalid e r). Proof. unfold is_envelope_invalid. qS_go. Qed.
Lemma qS_generate_key_now e : qS (generate_key_now e). Proof. unfold generate_key_now. qS_go. Qed.
Lemma qS_system_key_from_ekr r : qS (system_key_from_ekr r). Proof. unfold system_key_from_ekr. qS_go. Qed.
Global Hint Resolve qS_is_envelope_invalid qS_generate_key_now qS_system_key_from_ekr : qS.
Lemma qS_load_system_key m : qS (load_system_key m). Proof. unfold load_system_key. qS_go. Qed.
Global Hint Resolve qS_load_system_key : qS.
Lemma qS_get_or_load_system_key e m : qS (get_or_load_system_key e m).
Proof. unfold get_or_load_system_key. apply qS_get_or_load. intro. apply qS_load_system_key. Qed.
Global Hint Resolve qS_get_or_load_system_key : qS.
Lemma qS_intermediate_key_from_ekr e sk r : qS (intermediate_key_from_ekr e sk r). Proof. unfold intermediate_key_from_ekr. qS_go. Qed.
Lemma qS_try_store_system_key e sk : qS (try_store_system_key e sk). Proof. unfold try_store_system_key. qS_go. Qed.
Lemma qS_must_load_latest id : qS (must_load_latest id). Proof. unfold must_load_latest. qS_go. Qed.
Global Hint Resolve qS_intermediate_key_from_ekr qS_try_store_system_key qS_must_load_latest : qS.
Lemma qS_load_latest_or_create_system_key e id : qS (load_latest_or_create_system_key e id). Proof. unfold load_latest_or_create_system_key. qS_go. Qed.
Lemma qS_try_store_intermediate_key e ik sk : qS (try_store_intermediate_key e ik sk). Proof. unfold try_store_intermediate_key. qS_go. Qed.
Global Hint Resolve qS_load_latest_or_create_system_key qS_try_store_intermediate_key : qS.
Lemma qS_create_ik_with_sk e sk : qS (create_ik_with_sk e sk). Proof. unfold create_ik_with_sk. qS_go. Qed.
Global Hint Resolve qS_create_ik_with_sk : qS.
Lemma qS_create_intermediate_key e : qS (create_intermediate_key e).
Proof. unfold create_intermediate_key. apply qS_bind; [apply qS_get_or_load_latest; intro; apply qS_load_latest_or_create_system_key | intro sk; qS_go]. Qed.
Global Hint Resolve qS_create_intermediate_key : qS.
Lemma qS_get_valid_intermediate_key e sk r : qS (get_valid_intermediate_key e sk r). Proof. unfold get_valid_intermediate_key. qS_go. Qed.
Global Hint Resolve qS_get_valid_intermediate_key : qS.
Lemma qS_load_latest_or_create_intermediate_key e id : qS (load_latest_or_create_intermediate_key e id). Proof. unfold load_latest_or_create_intermediate_key. qS_go. Qed.
Lemma qS_load_intermediate_key e m : qS (load_intermediate_key e m). Proof. unfold load_intermediate_key. qS_go. Qed.
Global Hint Resolve qS_load_latest_or_create_intermediate_key qS_load_intermediate_key : qS.
Lemma qS_encrypt_with_ik e ik p : qS (encrypt_with_ik e ik p). Proof. unfold encrypt_with_ik. qS_go. Qed.
Global Hint Resolve qS_encrypt_with_ik : qS.
Lemma qS_encrypt_payload e p : qS (encrypt_payload e p).
Proof. unfold encrypt_payload. apply qS_bind; [apply qS_get_or_load_latest; intro; apply qS_load_latest_or_create_intermediate_key | intro ik; qS_go]. Qed.
Lemma qS_decrypt_row ik k d : qS (decrypt_row ik k d). Proof. unfold decrypt_row. qS_go. Qed.
Global Hint Resolve qS_decrypt_row : qS.
Lemma qS_decrypt_data_row_record e r : qS (decrypt_data_row_record e r).
Proof. unfold decrypt_data_row_record. qS_go. apply qS_get_or_load. intro. apply qS_load_intermediate_key. Qed.
Lemma qS_get_factory f : qS (get_factory f). Proof. unfold get_factory. qS_go. Qed.
Lemma qS_get_session s : qS (get_session s). Proof. unfold get_session. qS_go. Qed.
Global Hint Resolve qS_get_factory qS_get_session : qS.
Lemma qS_session_env s : qS (session_env s). Proof. unfold session_env. qS_go. Qed.



Lemma qS_kc_close c : qS (kc_close c). Proof. unfold kc_close. qS_go. Qed.
Lemma qF_kc_close c : qF (kc_close c). Proof. unfold kc_close. qF_go. Qed.

Section CloseD.
Variables svc prod : str.
Notation Iv := (Iv svc prod).
Notation genuine := (genuine svc prod).

(* who uses which cache: the bookkeeping that makes "close my own cache" harmless for everybody else.  cf: the factories whose Close has
   run (a ghost of the history; the model keeps no such flag) *)
Record OW (cf : list nat) (D : nat -> Prop) (w : world) : Prop := {
  ow_fact : forall f fa, nth_error (w_factories w) f = Some fa -> ~ In f cf -> cache_live D (fa_sk fa) /\ cache_live D (fa_ik fa);
  ow_sess : forall s x, nth_error (w_sessions w) s = Some x ->
      ss_torn x = false -> ss_own_ik x = true \/ ~ In (ss_factory x) cf -> cache_live D (ss_ik x);
  ow_dead : forall c, D c -> (c < length (w_caches w))%nat;
  ow_salloc : forall s x cid, nth_error (w_sessions w) s = Some x -> ss_ik x = Some cid -> (cid < length (w_caches w))%nat;
  ow_falloc : forall f fa cid, nth_error (w_factories w) f = Some fa -> fa_sk fa = Some cid \/ fa_ik fa = Some cid -> (cid < length (w_caches w))%nat;
  ow_uniq : forall s x cid, nth_error (w_sessions w) s = Some x -> ss_own_ik x = true -> ss_ik x = Some cid ->
      (forall s' x', nth_error (w_sessions w) s' = Some x' -> ss_ik x' = Some cid -> s' = s) /\
      (forall f fa, nth_error (w_factories w) f = Some fa -> fa_sk fa <> Some cid /\ fa_ik fa <> Some cid);
  ow_funiq : forall f fa f' fa' cid, nth_error (w_factories w) f = Some fa -> nth_error (w_factories w) f' = Some fa' ->
      fa_sk fa = Some cid \/ fa_ik fa = Some cid -> fa_sk fa' = Some cid \/ fa_ik fa' = Some cid -> f = f';
  ow_shared : forall s x, nth_error (w_sessions w) s = Some x -> ss_own_ik x = false ->
      exists fa, nth_error (w_factories w) (ss_factory x) = Some fa /\ ss_ik x = fa_ik fa }.

Definition HILD (cf : list nat) (w : world) : Prop := exists D kinds H, IL D svc prod kinds H w /\ OW cf D w.

Definition benignD (o : hop) : Prop :=
  match o with
  | HNewFactory p s0 pr suf => s0 = svc /\ pr = prod /\ suf = None /\ Coherent.pol_ok p
  | HCloseSession _ | HCloseFactory _ | HGetSession _ _ | HEncrypt _ _ _ | HDecrypt _ _ _ _ | HAdvance _ | HRevoke _ _ => True
  | _ => False
  end.

(* the operation does not address a session whose underlying encryption has been closed (its own Close for a plain session; for a session
   of the session cache: evicted and released by its last holder), nor a session of a closed factory; nothing is closed twice *)
Definition open_sess (cf : list nat) (w : world) (s : nat) : Prop :=
  forall x, nth_error (w_sessions w) s = Some x -> ss_torn x = false /\ ~ In (ss_factory x) cf.
Definition untorn (w : world) (s : nat) : Prop := forall x, nth_error (w_sessions w) s = Some x -> ss_torn x = false.
Definition live_op (cf : list nat) (w : world) (o : hop) : Prop :=
  match o with
  | HEncrypt s _ _ | HDecrypt s _ _ _ => open_sess cf w s
  | HCloseSession s => untorn w s
  | HCloseFactory f => ~ In f cf
  | _ => True
  end.
Definition cf_after (cf : list nat) (o : hop) : list nat := match o with HCloseFactory f => f :: cf | _ => cf end.

Lemma OW_sess_live cf D w s : OW cf D w -> open_sess cf w s -> sess_live D s w.
Proof.
  intros O Op x fa Hs Hf. destruct (Op x Hs) as [T NF]. split; [exact (proj1 (ow_fact cf D w O _ fa Hf NF)) | exact (ow_sess cf D w O s x Hs T (or_intror NF))].
Qed.

(* the owner bookkeeping depends on the three tables only *)
Lemma OW_same cf D w w' :
  w_sessions w' = w_sessions w -> w_factories w' = w_factories w -> length (w_caches w') = length (w_caches w) -> OW cf D w -> OW cf D w'.
Proof.
  intros E1 E2 E3 [A B C D1 D2 E F G]. constructor.
  - intros f fa. rewrite E2. apply A.
  - intros s x. rewrite E1. apply B.
  - intros c Dc. rewrite E3. exact (C c Dc).
  - intros s x cid. rewrite E1, E3. apply D1.
  - intros f fa cid. rewrite E2, E3. apply D2.
  - intros s x cid Hs Ho Hi. rewrite E1 in Hs. destruct (E s x cid Hs Ho Hi) as [P Q]. split; [intros s' x' Hs'; rewrite E1 in Hs'; exact (P s' x' Hs') | intros f fa Hf; rewrite E2 in Hf; exact (Q f fa Hf)].
  - intros f fa f' fa' cid. rewrite E2. apply F.
  - intros s x. rewrite E1, E2. apply G.
Qed.

Lemma nth_error_snoc {A} (l : list A) x n y : nth_error (l ++ [x]) n = Some y -> (nth_error l n = Some y /\ (n < length l)%nat) \/ (y = x /\ n = length l).
Proof.
  intro H. destruct (lt_dec n (List.length l)) as [Lt|Ge].
  - left. rewrite nth_error_app1 in H by exact Lt. split; assumption.
  - right. rewrite nth_error_app2 in H by lia. destruct (n - List.length l)%nat as [|m] eqn:En; [inversion H; split; [reflexivity | lia] | destruct m; discriminate H].
Qed.

Lemma new_factory_shape p s0 pr suf w :
  let w' := snd (new_factory p s0 pr suf w) in
  w_sessions w' = w_sessions w /\ (length (w_caches w) <= length (w_caches w'))%nat /\
  exists fa, w_factories w' = w_factories w ++ [fa] /\
             (forall cid, fa_sk fa = Some cid \/ fa_ik fa = Some cid -> (length (w_caches w) <= cid < length (w_caches w'))%nat).
Proof.
  unfold new_factory, bind, new_keycache, gets, upd, ret.
  destruct (p_cache_sk p), (use_shared_ik p); cbn; rewrite ?app_length; cbn;
    (split; [reflexivity|]; split; [lia|]; eexists; split; [reflexivity|]; cbn; intros cid [X|X]; inversion X; subst; rewrite ?app_length; cbn; lia).
Qed.

Lemma new_session_shape f id cached0 fa w :
  nth_error (w_factories w) f = Some fa ->
  let w' := snd (new_session f id cached0 w) in
  w_factories w' = w_factories w /\ (length (w_caches w) <= length (w_caches w'))%nat /\
  exists x, w_sessions w' = w_sessions w ++ [x] /\ ss_torn x = false /\ ss_factory x = f /\
    ((ss_own_ik x = false /\ ss_ik x = fa_ik fa /\ length (w_caches w') = length (w_caches w)) \/
     (ss_own_ik x = true /\ ss_ik x = Some (length (w_caches w)) /\ length (w_caches w') = S (length (w_caches w))) \/
     (ss_own_ik x = true /\ ss_ik x = None /\ length (w_caches w') = length (w_caches w))).
Proof.
  intro Ef. unfold new_session, get_factory, bind, gets, ret, upd, new_keycache. cbn. rewrite Ef. cbn.
  destruct (use_shared_ik (fa_policy fa)); [|destruct (p_cache_ik (fa_policy fa))]; cbn; rewrite ?app_length; cbn;
    (split; [reflexivity|]; split; [lia|]; eexists; split; [reflexivity|]; split; [reflexivity|]; split; [reflexivity|]); cbn.
  - left. repeat split.
  - right. left. repeat split; rewrite ?app_length; cbn; lia.
  - right. right. repeat split.
Qed.

Lemma new_session_none f id cached0 w : nth_error (w_factories w) f = None -> snd (new_session f id cached0 w) = w.
Proof. intro Ef. unfold new_session, get_factory, bind, gets, ret, fail. cbn. rewrite Ef. reflexivity. Qed.

(* replacing a session's record by one that differs in the sharing bookkeeping only (usage, evicted) or is marked closed *)
Lemma OW_upd_session cf D w s0 x y :
  nth_error (w_sessions w) s0 = Some x ->
  ss_ik y = ss_ik x -> ss_own_ik y = ss_own_ik x -> ss_factory y = ss_factory x -> (ss_torn y = false -> ss_torn x = false) ->
  OW cf D w -> OW cf D (with_sessions (set_nth s0 y (w_sessions w)) w).
Proof.
  intros Es Ei Eo Ef Et [A B C D1 D2 E F G].
  assert (Old : forall s z, nth_error (set_nth s0 y (w_sessions w)) s = Some z ->
            exists z0, nth_error (w_sessions w) s = Some z0 /\ ss_ik z = ss_ik z0 /\ ss_own_ik z = ss_own_ik z0 /\
                       ss_factory z = ss_factory z0 /\ (ss_torn z = false -> ss_torn z0 = false)).
  { intros s z Hz. destruct (Nat.eq_dec s s0) as [->|Ne].
    - rewrite (nth_error_set_nth_same _ _ _ _ Es) in Hz. inversion Hz; subst z. exists x. repeat split; assumption.
    - rewrite nth_error_set_nth_other' in Hz by congruence. exists z. repeat split; try assumption; tauto. }
  constructor; cbn [w_sessions w_factories w_caches with_sessions].
  - exact A.
  - intros s z Hz T Z. destruct (Old s z Hz) as [z0 [H0 [E1 [E2 [E5 E4]]]]]. rewrite E1. rewrite E2, E5 in Z. exact (B s z0 H0 (E4 T) Z).
  - exact C.
  - intros s z cid Hz Hi. destruct (Old s z Hz) as [z0 [H0 [E1 _]]]. rewrite E1 in Hi. exact (D1 s z0 cid H0 Hi).
  - exact D2.
  - intros s z cid Hz Ho Hi. destruct (Old s z Hz) as [z0 [H0 [E1 [E2 _]]]]. rewrite E1 in Hi. rewrite E2 in Ho.
    destruct (E s z0 cid H0 Ho Hi) as [P Q]. split; [|exact Q].
    intros s' z' Hz' Hi'. destruct (Old s' z' Hz') as [z1 [H1 [F1 _]]]. rewrite F1 in Hi'. exact (P s' z1 H1 Hi').
  - exact F.
  - intros s z Hz Ho. destruct (Old s z Hz) as [z0 [H0 [E1 [E2 [E5 _]]]]]. rewrite E2 in Ho. rewrite E1, E5. exact (G s z0 H0 Ho).
Qed.

(* replacing a factory's record by one with the same key caches (its session cache changed) *)
Lemma OW_upd_factory cf D w f0 fa fb :
  nth_error (w_factories w) f0 = Some fa -> fa_sk fb = fa_sk fa -> fa_ik fb = fa_ik fa ->
  OW cf D w -> OW cf D (with_factories (set_nth f0 fb (w_factories w)) w).
Proof.
  intros Ef Es Ei [A B C D1 D2 E F G].
  assert (Old : forall f z, nth_error (set_nth f0 fb (w_factories w)) f = Some z ->
            exists z0, nth_error (w_factories w) f = Some z0 /\ fa_sk z = fa_sk z0 /\ fa_ik z = fa_ik z0).
  { intros f z Hz. destruct (Nat.eq_dec f f0) as [->|Ne].
    - rewrite (nth_error_set_nth_same _ _ _ _ Ef) in Hz. inversion Hz; subst z. exists fa. repeat split; assumption.
    - rewrite nth_error_set_nth_other' in Hz by congruence. exists z. repeat split; assumption. }
  constructor; cbn [w_sessions w_factories w_caches with_factories].
  - intros f z Hz NI. destruct (Old f z Hz) as [z0 [H0 [E1 E2]]]. rewrite E1, E2. exact (A f z0 H0 NI).
  - exact B.
  - exact C.
  - exact D1.
  - intros f z cid Hz Hc. destruct (Old f z Hz) as [z0 [H0 [E1 E2]]]. rewrite E1, E2 in Hc. exact (D2 f z0 cid H0 Hc).
  - intros s x cid Hs Ho Hi. destruct (E s x cid Hs Ho Hi) as [P Q]. split; [exact P|].
    intros f z Hz. destruct (Old f z Hz) as [z0 [H0 [E1 E2]]]. rewrite E1, E2. exact (Q f z0 H0).
  - intros f1 z1 f2 z2 cid H1 H2 C1 C2. destruct (Old f1 z1 H1) as [y1 [K1 [E1 E2]]]. destruct (Old f2 z2 H2) as [y2 [K2 [E3 E4]]].
    rewrite E1, E2 in C1. rewrite E3, E4 in C2. exact (F f1 y1 f2 y2 cid K1 K2 C1 C2).
  - intros s x Hs Ho. destruct (G s x Hs Ho) as [z0 [H0 Ei0]].
    destruct (Nat.eq_dec (ss_factory x) f0) as [Eq|Ne].
    + exists fb. rewrite Eq in *. rewrite Ef in H0. inversion H0; subst z0. split; [exact (nth_error_set_nth_same _ _ _ _ Ef) | congruence].
    + exists z0. split; [rewrite nth_error_set_nth_other' by congruence; exact H0 | exact Ei0].
Qed.

(* the cache a closed session owned is dead *)
Lemma OW_kill cf D w s0 x cid :
  OW cf D w -> nth_error (w_sessions w) s0 = Some x -> ss_torn x = true -> ss_own_ik x = true -> ss_ik x = Some cid -> OW cf (Dplus D cid) w.
Proof.
  intros [A B C D1 D2 E F G] Es T Ho Hi. destruct (E s0 x cid Es Ho Hi) as [P Q].
  constructor.
  - intros f fa Hf NF. destruct (A f fa Hf NF) as [X Y]. destruct (Q f fa Hf) as [Q1 Q2].
    split; intros c Ec [Dc|Eq]; [exact (X c Ec Dc) | congruence | exact (Y c Ec Dc) | congruence].
  - intros s y Hy Ty Z c Ec [Dc|Eq]; [exact (B s y Hy Ty Z c Ec Dc)|].
    subst c. pose proof (P s y Hy Ec) as Eqs. subst s. rewrite Es in Hy. inversion Hy; subst y. congruence.
  - intros c [Dc|Eq]; [exact (C c Dc) | subst c; exact (D1 s0 x cid Es Hi)].
  - exact D1.
  - exact D2.
  - exact E.
  - exact F.
  - exact G.
Qed.

(* SessionFactory.Close: the factory's own caches die (any subset of them, if the close stops half way); nobody else used them *)
Lemma OW_close_factory cf (D D1 : nat -> Prop) w f fa :
  OW cf D w -> nth_error (w_factories w) f = Some fa ->
  (forall c, D c -> D1 c) -> (forall c, D1 c -> D c \/ fa_sk fa = Some c \/ fa_ik fa = Some c) ->
  OW (f :: cf) D1 w.
Proof.
  intros [A B C D1' D2 E F G] Ef Sub Sup.
  assert (Other : forall f' fa' c, nth_error (w_factories w) f' = Some fa' -> f' <> f -> fa_sk fa' = Some c \/ fa_ik fa' = Some c -> D1 c -> D c).
  { intros f' fa' c Hf' Ne Hc Dc. destruct (Sup c Dc) as [X|X]; [exact X|]. exfalso. apply Ne. exact (F f' fa' f fa c Hf' Ef Hc X). }
  constructor.
  - intros f' fa' Hf' NI. assert (Ne : f' <> f) by (intro Eq; apply NI; left; congruence).
    assert (NI' : ~ In f' cf) by (intro X; apply NI; right; exact X).
    destruct (A f' fa' Hf' NI') as [X Y].
    split; intros c Ec Dc; [exact (X c Ec (Other f' fa' c Hf' Ne (or_introl Ec) Dc)) | exact (Y c Ec (Other f' fa' c Hf' Ne (or_intror Ec) Dc))].
  - intros s y Hy Ty Z c Ec Dc.
    destruct (ss_own_ik y) eqn:Ho.
    + destruct (E s y c Hy Ho Ec) as [_ Q]. destruct (Sup c Dc) as [Dc0|[Xs|Xi]].
      * exact (B s y Hy Ty (or_introl Ho) c Ec Dc0).
      * exact (proj1 (Q f fa Ef) Xs).
      * exact (proj2 (Q f fa Ef) Xi).
    + destruct Z as [Z|Z]; [discriminate Z|].
      assert (Ne : ss_factory y <> f) by (intro Eq; apply Z; left; congruence).
      assert (Z' : ~ In (ss_factory y) cf) by (intro W; apply Z; right; exact W).
      destruct (G s y Hy Ho) as [fa' [Hf' Ei]]. rewrite Ei in Ec.
      exact (B s y Hy Ty (or_intror Z') c ltac:(rewrite Ei; exact Ec) (Other _ fa' c Hf' Ne (or_intror Ec) Dc)).
  - intros c Dc. destruct (Sup c Dc) as [X|[X|X]]; [exact (C c X) | exact (D2 f fa c Ef (or_introl X)) | exact (D2 f fa c Ef (or_intror X))].
  - exact D1'.
  - exact D2.
  - exact E.
  - exact F.
  - exact G.
Qed.

(* closing a factory that does not exist: the list grows, nothing else changes *)
Lemma OW_cf_cons cf D w f : OW cf D w -> OW (f :: cf) D w.
Proof.
  intros [A B C D1 D2 E F G]. constructor; try assumption.
  - intros f' fa' Hf' NI. apply (A f' fa' Hf'). intro W. apply NI. right. exact W.
  - intros s x Hs T [Z|Z]; [exact (B s x Hs T (or_introl Z)) | apply (B s x Hs T); right; intro W; apply Z; right; exact W].
Qed.

Lemma Iv_len kinds w : Iv kinds w -> length kinds = length (w_caches w).
Proof. intros [_ [X _ _ _]]. exact X. Qed.

Definition Dopt (D : nat -> Prop) (c : option nat) : nat -> Prop := match c with Some cid => Dplus D cid | None => D end.

Lemma kc_close_opt_L D H c :
  cache_live D c ->
  hoare (LInv D NoX H) (kc_close c) (fun _ w => LInv (Dopt D c) NoX H w) (fun w => LInv D NoX H w \/ Lge (Dopt D c) H w).
Proof.
  intro CL. destruct c as [cid|]; cbn [Dopt].
  - exact (kc_close_L D H cid (CL cid eq_refl)).
  - intros w L. cbn. exact L.
Qed.

(* ---- programs under which the invariant survives, whatever their outcome ------------------------------------------------- *)
Definition keeps (cf : list nat) {A} (m : M A) : Prop := forall w, HILD cf w -> HILD cf (snd (m w)).

Lemma keeps_ret cf {A} (a : A) : keeps cf (ret a). Proof. intros w Hw. exact Hw. Qed.
Lemma keeps_fail cf {A} e : keeps cf (@fail A e). Proof. intros w Hw. exact Hw. Qed.
Lemma keeps_gets cf {A} (f : world -> A) : keeps cf (gets f). Proof. intros w Hw. exact Hw. Qed.
Lemma keeps_bind cf {A B} (m : M A) (f : A -> M B) : keeps cf m -> (forall a, keeps cf (f a)) -> keeps cf (bind m f).
Proof. intros Km Kf w Hw. unfold bind. specialize (Km w Hw). destruct (m w) as [[e|a] w1]; cbn [snd] in *; [exact Km | exact (Kf a w1 Km)]. Qed.

Lemma hoare_snd {A} (P : world -> Prop) (m : M A) w : hoare P m (fun _ w' => P w') P -> P w -> P (snd (m w)).
Proof. intros Hm Hw. specialize (Hm w Hw). destruct (m w) as [[e|a] w1]; exact Hm. Qed.

Definition torn_copy (x : session) : session :=
  {| ss_factory := ss_factory x; ss_part := ss_part x; ss_ik := ss_ik x; ss_own_ik := ss_own_ik x; ss_cached := ss_cached x;
     ss_usage := ss_usage x; ss_evicted := ss_evicted x; ss_torn := true |}.

Lemma envelope_close_run s w x :
  nth_error (w_sessions w) s = Some x ->
  envelope_close s w = (if ss_own_ik x then kc_close (ss_ik x) else ret tt) (with_sessions (set_nth s (torn_copy x) (w_sessions w)) w).
Proof.
  intro Es. cbv beta iota delta [envelope_close bind get_session gets ret fail put_session upd]. rewrite Es. cbv beta iota.
  unfold torn_copy. destruct (ss_own_ik x); reflexivity.
Qed.

Lemma envelope_close_none s w : nth_error (w_sessions w) s = None -> envelope_close s w = (inl ErrPanic, w).
Proof. intro Es. cbv beta iota delta [envelope_close bind get_session gets ret fail]. rewrite Es. reflexivity. Qed.

(* envelopeEncryption.Close of a session that has not been closed before *)
Lemma keeps_envelope_close cf s w : HILD cf w -> untorn w s -> HILD cf (snd (envelope_close s w)).
Proof.
  intros [D [kinds [H [[HI L] O]]]] UT.
  pose proof (hoare_snd (Iv kinds) (envelope_close s) w (envelope_close_spec svc prod kinds s) HI) as X.
  destruct (nth_error (w_sessions w) s) as [x|] eqn:Es.
  2: { rewrite (envelope_close_none s w Es). cbn [snd]. exists D, kinds, H. split; [split; assumption | exact O]. }
  pose proof (UT x Es) as T0. rewrite (envelope_close_run s w x Es) in X |- *.
  set (w1 := with_sessions (set_nth s (torn_copy x) (w_sessions w)) w) in *.
  assert (L1 : LInv D NoX H w1) by (eapply LInv_bookkeeping; [..|exact L]; reflexivity).
  assert (O1 : OW cf D w1) by (apply (OW_upd_session cf D w s x (torn_copy x) Es); try reflexivity; [cbn; discriminate | exact O]).
  assert (Es1 : nth_error (w_sessions w1) s = Some (torn_copy x)) by (unfold w1; cbn; exact (nth_error_set_nth_same _ _ _ _ Es)).
  assert (Len1 : length kinds = length (w_caches w1)) by exact (Iv_len kinds w HI).
  destruct (ss_own_ik x) eqn:Ho.
  2: { cbn [ret snd] in *. exists D, kinds, H. split; [split; assumption | exact O1]. }
  destruct (ss_ik x) as [cid|] eqn:Ei.
  2: { cbn [kc_close ret snd] in *. exists D, kinds, H. split; [split; assumption | exact O1]. }
  assert (NDc : ~ D cid) by exact (ow_sess cf D w O s x Es T0 (or_introl Ho) cid Ei).
  pose proof (kc_close_L D H cid NDc w1 L1) as Y.
  pose proof (qS_kc_close (Some cid) w1) as ES. pose proof (qF_kc_close (Some cid) w1) as [EF _].
  destruct (kc_close (Some cid) w1) as [[er|u] w2]; cbn [snd] in *.
  + assert (O2 : OW cf D w2) by (eapply OW_same; [exact ES | exact EF | rewrite <- (Iv_len kinds _ X), <- Len1; reflexivity | exact O1]).
    destruct Y as [Y|[H' [_ Y]]].
    * exists D, kinds, H. split; [split; assumption | exact O2].
    * exists (Dplus D cid), kinds, H'. split; [split; assumption|].
      apply (OW_kill cf D w2 s (torn_copy x) cid O2); [rewrite ES; exact Es1 | reflexivity | exact Ho | exact Ei].
  + assert (O2 : OW cf D w2) by (eapply OW_same; [exact ES | exact EF | rewrite <- (Iv_len kinds _ X), <- Len1; reflexivity | exact O1]).
    exists (Dplus D cid), kinds, H. split; [split; assumption|].
    apply (OW_kill cf D w2 s (torn_copy x) cid O2); [rewrite ES; exact Es1 | reflexivity | exact Ho | exact Ei].
Qed.

(* sharedEncryption.Remove: closes the underlying encryption only if that has not happened yet *)
Lemma keeps_try_remove cf s : keeps cf (try_remove s).
Proof.
  intros w Hw. unfold try_remove. cbv beta iota delta [bind get_session gets ret fail].
  destruct (nth_error (w_sessions w) s) as [x|] eqn:Es; cbv beta iota; [|exact Hw].
  destruct (ss_evicted x && negb (ss_torn x) && (ss_usage x <=? 0)) eqn:G; [|exact Hw].
  apply keeps_envelope_close; [exact Hw|]. intros x' Hx'. rewrite Es in Hx'. inversion Hx'; subst x'.
  apply andb_prop in G as [G _]. apply andb_prop in G as [_ G]. destruct (ss_torn x); [discriminate G | reflexivity].
Qed.

Lemma keeps_add_usage cf s d : keeps cf (add_usage s d).
Proof.
  intros w Hw. pose proof Hw as [D [kinds [H [[HI L] O]]]].
  pose proof (hoare_snd (Iv kinds) (add_usage s d) w (add_usage_spec svc prod kinds s d) HI) as X. revert X.
  unfold add_usage. cbv beta iota delta [bind get_session gets ret fail put_session upd].
  destruct (nth_error (w_sessions w) s) as [x|] eqn:Es; cbv beta iota; cbn [snd]; intro X; [|exact Hw].
  exists D, kinds, H. split; [split; [exact X | eapply LInv_bookkeeping; [..|exact L]; reflexivity]|].
  apply (OW_upd_session cf D w s x _ Es); try reflexivity; [cbn; tauto | exact O].
Qed.

Lemma keeps_mark_evicted cf s : keeps cf (mark_evicted s).
Proof.
  intros w Hw. pose proof Hw as [D [kinds [H [[HI L] O]]]].
  unfold mark_evicted. cbv beta iota delta [bind get_session gets ret fail put_session upd].
  destruct (nth_error (w_sessions w) s) as [x|] eqn:Es; cbv beta iota; cbn [snd]; [|exact Hw].
  apply keeps_try_remove.
  set (y := {| ss_factory := ss_factory x; ss_part := ss_part x; ss_ik := ss_ik x; ss_own_ik := ss_own_ik x; ss_cached := ss_cached x;
               ss_usage := ss_usage x; ss_evicted := true; ss_torn := ss_torn x |}).
  exists D, kinds, H. split; [split; [|eapply LInv_bookkeeping; [..|exact L]; reflexivity]|].
  - pose proof (put_same_session_spec svc prod kinds s x y) as PS.
    assert (Same : ss_factory y = ss_factory x /\ ss_part y = ss_part x /\ ss_ik y = ss_ik x) by (repeat split).
    specialize (PS Same w). cbv beta iota delta [put_session upd] in PS. cbn [snd fst] in PS. apply PS. split; [exact HI|]. pose proof HI as [_ [_ _ _ S]]. exact (S s x Es).
  - apply (OW_upd_session cf D w s x y Es); try reflexivity; [cbn; tauto | exact O].
Qed.

Lemma keeps_evictions cf l : keeps cf (evictions l).
Proof.
  unfold evictions. induction l as [|kv l IH]; cbn [fold_right]; [apply keeps_ret|].
  apply keeps_bind; [apply keeps_mark_evicted | intros _; exact IH].
Qed.

Lemma keeps_set_scache cf f c : keeps cf (set_scache f c).
Proof.
  intros w Hw. pose proof Hw as [D [kinds [H [[HI L] O]]]].
  pose proof (hoare_snd (Iv kinds) (set_scache f c) w (set_scache_spec svc prod kinds f c) HI) as X. revert X.
  unfold set_scache. cbv beta iota delta [bind get_factory gets ret fail put_factory upd].
  destruct (nth_error (w_factories w) f) as [fa|] eqn:Ef; cbv beta iota; cbn [snd]; intro X; [|exact Hw].
  exists D, kinds, H. split; [split; [exact X | eapply LInv_bookkeeping; [..|exact L]; reflexivity]|].
  apply (OW_upd_factory cf D w f fa _ Ef); [reflexivity | reflexivity | exact O].
Qed.

(* the key caches of a factory stay what they are *)
Definition kcsame (w w' : world) : Prop :=
  forall f fa, nth_error (w_factories w) f = Some fa -> exists fa', nth_error (w_factories w') f = Some fa' /\ fa_sk fa' = fa_sk fa /\ fa_ik fa' = fa_ik fa.
Lemma kcsame_refl w : kcsame w w. Proof. intros f fa Hf. exists fa. repeat split; assumption. Qed.
Lemma kcsame_trans a b c : kcsame a b -> kcsame b c -> kcsame a c.
Proof. intros X Y f fa Hf. destruct (X f fa Hf) as [fb [Hb [E1 E2]]]. destruct (Y f fb Hb) as [fc [Hc [E3 E4]]]. exists fc. split; [exact Hc | split; congruence]. Qed.
Definition kcs {A} (m : M A) : Prop := forall w, kcsame w (snd (m w)).
Lemma kcs_of_qF {A} (m : M A) : qF m -> kcs m.
Proof. intros Q w f fa Hf. exists fa. rewrite (proj1 (Q w)). repeat split; assumption. Qed.
Lemma kcs_bind {A B} (m : M A) (f : A -> M B) : kcs m -> (forall a, kcs (f a)) -> kcs (bind m f).
Proof. intros Km Kf w. unfold bind. specialize (Km w). destruct (m w) as [[e|a] w1]; cbn [snd] in *; [exact Km | eapply kcsame_trans; [exact Km | exact (Kf a w1)]]. Qed.
Lemma kcs_ret {A} (a : A) : kcs (ret a). Proof. intro w. apply kcsame_refl. Qed.

Local Hint Resolve qF_kc_close : qF.
Lemma qF_envelope_close s : qF (envelope_close s). Proof. unfold envelope_close. qF_go. Qed.
Local Hint Resolve qF_envelope_close : qF.
Lemma qF_try_remove s : qF (try_remove s). Proof. unfold try_remove. qF_go. Qed.
Local Hint Resolve qF_try_remove : qF.
Lemma qF_mark_evicted s : qF (mark_evicted s). Proof. unfold mark_evicted. qF_go. Qed.
Lemma qF_evictions l : qF (evictions l).
Proof. unfold evictions. induction l as [|kv l IH]; cbn [fold_right]; [apply qF_ret | apply qF_bind; [apply qF_mark_evicted | intros _; exact IH]]. Qed.

Lemma kcs_set_scache f c : kcs (set_scache f c).
Proof.
  intros w f0 fa0 Hf0. unfold set_scache. cbv beta iota delta [bind get_factory gets ret fail put_factory upd].
  destruct (nth_error (w_factories w) f) as [fa|] eqn:Ef; cbv beta iota; cbn [snd]; [|exists fa0; repeat split; assumption].
  cbn [w_factories with_factories]. destruct (Nat.eq_dec f0 f) as [->|Ne].
  - rewrite Ef in Hf0. inversion Hf0; subst fa0. eexists. split; [exact (nth_error_set_nth_same _ _ _ _ Ef) | split; reflexivity].
  - exists fa0. split; [rewrite nth_error_set_nth_other' by congruence; exact Hf0 | split; reflexivity].
Qed.

(* NewSessionFactory, any policy *)
Lemma keeps_new_factory cf p : Coherent.pol_ok p -> keeps cf (new_factory p svc prod None).
Proof.
  intros PO w [D [kinds [H [[HI0 L0] O0]]]].
  pose proof (new_factory_spec svc prod kinds p PO _ HI0) as X.
  pose proof (new_factory_LInv D svc prod H p PO w L0) as Y.
  pose proof (new_factory_shape p svc prod None w) as [ES [LE [fa [EF FR]]]].
  destruct (new_factory p svc prod None w) as [[er|a] w']; cbn [snd] in *; [contradiction|].
  destruct X as [kinds' HI']. exists D, kinds', H. split; [split; assumption|].
  destruct O0 as [A Bs C D1 D2 E Fu G]. constructor.
  - intros f fa' Hf NF. rewrite EF in Hf. apply nth_error_snoc in Hf as [[Hf _]|[-> _]]; [exact (A f fa' Hf NF)|].
    split; intros c Ec Dc; pose proof (C c Dc); [pose proof (FR c (or_introl Ec)) | pose proof (FR c (or_intror Ec))]; lia.
  - intros s x. rewrite ES. apply Bs.
  - intros c Dc. pose proof (C c Dc). lia.
  - intros s x cid. rewrite ES. intros Hs Hi. pose proof (D1 s x cid Hs Hi). lia.
  - intros f fa' cid Hf Hc. rewrite EF in Hf. apply nth_error_snoc in Hf as [[Hf _]|[-> _]]; [pose proof (D2 f fa' cid Hf Hc); lia | pose proof (FR cid Hc); lia].
  - intros s x cid Hs Ho Hi. rewrite ES in Hs. destruct (E s x cid Hs Ho Hi) as [P Q]. split; [intros s' x' Hs'; rewrite ES in Hs'; exact (P s' x' Hs')|].
    intros f fa' Hf. rewrite EF in Hf. apply nth_error_snoc in Hf as [[Hf _]|[-> _]]; [exact (Q f fa' Hf)|].
    pose proof (D1 s x cid Hs Hi). split; intro Ec; [pose proof (FR cid (or_introl Ec)) | pose proof (FR cid (or_intror Ec))]; lia.
  - intros f1 fa1 f2 fa2 cid Hf1 Hf2 Hc1 Hc2. rewrite EF in Hf1, Hf2.
    apply nth_error_snoc in Hf1 as [[Hf1 Lt1]|[-> Eq1]]; apply nth_error_snoc in Hf2 as [[Hf2 Lt2]|[-> Eq2]].
    + exact (Fu f1 fa1 f2 fa2 cid Hf1 Hf2 Hc1 Hc2).
    + pose proof (D2 f1 fa1 cid Hf1 Hc1). pose proof (FR cid Hc2). lia.
    + pose proof (D2 f2 fa2 cid Hf2 Hc2). pose proof (FR cid Hc1). lia.
    + congruence.
  - intros s x Hs Ho. rewrite ES in Hs. destruct (G s x Hs Ho) as [fa' [Hf' Ei]]. exists fa'. split; [|exact Ei].
    rewrite EF. rewrite nth_error_app1; [exact Hf' | apply nth_error_Some; congruence].
Qed.

(* newSession, cached or not *)
Lemma keeps_new_session cf f id cached0 : keeps cf (new_session f id cached0).
Proof.
  intros w0 [D [kinds [H [HIL1 O0]]]].
  destruct (nth_error (w_factories w0) f) as [fa|] eqn:Ef.
  2: { rewrite (new_session_none f id cached0 w0 Ef). exists D, kinds, H. split; assumption. }
  pose proof (new_session_spec svc prod kinds f id cached0 w0 (proj1 HIL1)) as X.
  pose proof (new_session_LInv D svc prod kinds H f id cached0 w0 HIL1) as Y.
  pose proof (new_session_shape f id cached0 fa w0 Ef) as [EF' [LE' [x [ES' [T1 [Fx Sh']]]]]].
  assert (HI' : exists kinds', Iv kinds' (snd (new_session f id cached0 w0))) by (destruct (new_session f id cached0 w0) as [[er|a] w']; exact X).
  assert (L' : LInv D NoX H (snd (new_session f id cached0 w0))) by (destruct (new_session f id cached0 w0) as [[er|a] w']; exact Y).
  set (w' := snd (new_session f id cached0 w0)) in *. clearbody w'.
  destruct HI' as [kinds' HI']. exists D, kinds', H. split; [split; assumption|].
  destruct O0 as [A Bs C D1 D2 E Fu G]. constructor.
  - intros f0 fa0. rewrite EF'. apply A.
  - intros s0 y Hy. rewrite ES' in Hy. apply nth_error_snoc in Hy as [[Hy _]|[-> _]]; [exact (Bs s0 y Hy)|]. intros _ Z.
    destruct Sh' as [[Eo [Ei _]]|[[_ [Ei _]]|[_ [Ei _]]]]; rewrite Ei.
    + destruct Z as [Z|Z]; [congruence|]. rewrite Fx in Z. exact (proj2 (A f fa Ef Z)).
    + intros c Ec Dc. assert (Ecc : c = length (w_caches w0)) by congruence. rewrite Ecc in Dc. pose proof (C _ Dc) as Q. revert Q. clear. intro Q. lia.
    + intros c Ec. discriminate Ec.
  - intros c Dc. pose proof (C c Dc). lia.
  - intros s0 y cid Hy Hi. rewrite ES' in Hy. apply nth_error_snoc in Hy as [[Hy _]|[-> _]]; [pose proof (D1 s0 y cid Hy Hi); lia|].
    destruct Sh' as [[_ [Ei _]]|[[_ [Ei El]]|[_ [Ei _]]]]; rewrite Ei in Hi.
    + pose proof (D2 f fa cid Ef (or_intror Hi)). lia.
    + inversion Hi; subst cid. lia.
    + discriminate Hi.
  - intros f0 fa0 cid Hf Hc. rewrite EF' in Hf. pose proof (D2 f0 fa0 cid Hf Hc). lia.
  - intros s0 y cid Hy Ho Hi. rewrite ES' in Hy. apply nth_error_snoc in Hy as [[Hy Lt]|[-> Eq]].
    + destruct (E s0 y cid Hy Ho Hi) as [P Q]. split; [|intros f0 fa0 Hf; rewrite EF' in Hf; exact (Q f0 fa0 Hf)].
      intros s' y' Hy' Hi'. rewrite ES' in Hy'. apply nth_error_snoc in Hy' as [[Hy' _]|[-> _]]; [exact (P s' y' Hy' Hi')|]. exfalso.
      pose proof (D1 s0 y cid Hy Hi) as Al.
      destruct Sh' as [[_ [Ei _]]|[[_ [Ei _]]|[_ [Ei _]]]]; rewrite Ei in Hi'.
      * exact (proj2 (Q f fa Ef) Hi').
      * inversion Hi'; subst cid. lia.
      * discriminate Hi'.
    + destruct Sh' as [[Eo _]|[[_ [Ei _]]|[_ [Ei _]]]]; [congruence| |congruence]. rewrite Ei in Hi. inversion Hi; subst cid. split.
      * intros s' y' Hy' Hi'. rewrite ES' in Hy'. apply nth_error_snoc in Hy' as [[Hy' _]|[_ Eq']]; [pose proof (D1 s' y' _ Hy' Hi'); lia | congruence].
      * intros f0 fa0 Hf. rewrite EF' in Hf. split; intro Ec; [pose proof (D2 f0 fa0 _ Hf (or_introl Ec)) | pose proof (D2 f0 fa0 _ Hf (or_intror Ec))]; lia.
  - intros f1 fa1 f2 fa2 cid. rewrite EF'. apply Fu.
  - intros s0 y Hy Ho. rewrite ES' in Hy. rewrite EF'. apply nth_error_snoc in Hy as [[Hy _]|[-> _]]; [exact (G s0 y Hy Ho)|].
    destruct Sh' as [[_ [Ei _]]|[[Eo _]|[Eo _]]]; [|congruence|congruence]. exists fa. rewrite Fx. split; assumption.
Qed.

Lemma keeps_get_factory cf f : keeps cf (get_factory f).
Proof. intros w Hw. unfold get_factory, bind, gets. cbn. destruct (nth_error (w_factories w) f); exact Hw. Qed.
Lemma keeps_get_session cf s : keeps cf (get_session s).
Proof. intros w Hw. unfold get_session, bind, gets. cbn. destruct (nth_error (w_sessions w) s); exact Hw. Qed.

Ltac keeps_step :=
  first
    [ apply keeps_ret | apply keeps_fail | apply keeps_gets | apply keeps_get_factory | apply keeps_get_session
    | apply keeps_set_scache | apply keeps_evictions | apply keeps_add_usage | apply keeps_new_session | apply keeps_try_remove
    | apply keeps_bind; [|intro]
    | match goal with
      | |- keeps _ (match ?x with _ => _ end) => destruct x
      | |- keeps _ (let '(_, _) := ?x in _) => destruct x
      | |- keeps _ (if ?x then _ else _) => destruct x
      end ].
Ltac keeps_go := repeat keeps_step.

(* SessionFactory.GetSession, with or without a session cache *)
Lemma keeps_factory_get_session cf f id : keeps cf (factory_get_session f id).
Proof. unfold factory_get_session, get_now. keeps_go. Qed.

(* Session.Close of a session whose underlying encryption has not been closed *)
Lemma keeps_session_close cf s w : HILD cf w -> untorn w s -> HILD cf (snd (session_close s w)).
Proof.
  intros Hw UT. unfold session_close. cbv beta iota delta [bind get_session gets ret fail].
  destruct (nth_error (w_sessions w) s) as [x|] eqn:Es; cbv beta iota; [|exact Hw].
  destruct (ss_cached x).
  - apply (keeps_bind cf (add_usage s (-1)) (fun _ => try_remove s)); [apply keeps_add_usage | intros _; apply keeps_try_remove | exact Hw].
  - exact (keeps_envelope_close cf s w Hw UT).
Qed.

Lemma HILD_cons cf f w : HILD cf w -> HILD (f :: cf) w.
Proof. intros [D [kinds [H [HIL0 O]]]]. exists D, kinds, H. split; [exact HIL0 | exact (OW_cf_cons cf D w f O)]. Qed.

(* the key caches of a factory being closed: the shared intermediate-key cache (if the policy has one), then the system-key cache *)
Lemma keeps_close_caches cf f (b : bool) ci cs w :
  HILD cf w -> ~ In f cf -> (exists fa0, nth_error (w_factories w) f = Some fa0 /\ fa_ik fa0 = ci /\ fa_sk fa0 = cs) ->
  HILD (f :: cf) (snd (((if b then kc_close ci else ret tt) ;;; kc_close cs) w)).
Proof.
  intros [D [kinds [H [[HI0 L0] O0]]]] LO [fa [Ef [Eci Ecs]]]. subst ci cs.
  destruct (ow_fact cf D w O0 f fa Ef LO) as [LvS LvI].
  pose proof HI0 as [_ [_ _ CF _]]. destruct (CF f fa Ef) as [_ [_ [_ [Ks [Ki _]]]]].
  set (c1 := if b then fa_ik fa else None).
  assert (E1 : (if b then kc_close (fa_ik fa) else ret tt) = kc_close c1) by (unfold c1; destruct b; reflexivity).
  rewrite E1.
  assert (K1 : forall cid, c1 = Some cid -> exists b0, nth_error kinds cid = Some b0) by (unfold c1; destruct b; [intros cid Ec; exists false; exact (Ki cid Ec) | intros cid Ec; discriminate Ec]).
  assert (K2 : forall cid, fa_sk fa = Some cid -> exists b0, nth_error kinds cid = Some b0) by (intros cid Ec; exists true; exact (Ks cid Ec)).
  assert (Lv1 : cache_live D c1) by (unfold c1; destruct b; [exact LvI | intros c Ec; discriminate Ec]).
  assert (Sub1 : forall c, Dopt D c1 c -> D c \/ fa_ik fa = Some c).
  { unfold c1. destruct b; [|intros c Dc; left; exact Dc]. destruct (fa_ik fa) as [ci|]; cbn [Dopt]; [|intros c Dc; left; exact Dc].
    intros c [Dc|Eq]; [left; exact Dc | right; congruence]. }
  assert (Ne : forall cs, fa_sk fa = Some cs -> ~ Dopt D c1 cs).
  { intros cs Es Dc. destruct (Sub1 cs Dc) as [Dc0|Ei]; [exact (LvS cs Es Dc0)|]. pose proof (Ks cs Es). pose proof (Ki cs Ei). congruence. }
  pose proof (kc_close_opt_L D H c1 Lv1 w L0) as Y1.
  pose proof (hoare_snd (Iv kinds) (kc_close c1) w (kc_close_spec svc prod kinds c1 K1) HI0) as X1.
  pose proof (qS_kc_close c1 w) as ES1. pose proof (qF_kc_close c1 w) as [EF1 _].
  unfold bind.
  destruct (kc_close c1 w) as [[er|u] w1]; cbn [snd] in *.
  { assert (Fin1 : forall D1 H1, LInv D1 NoX H1 w1 -> (forall c, D c -> D1 c) -> (forall c, D1 c -> D c \/ fa_sk fa = Some c \/ fa_ik fa = Some c) -> HILD (f :: cf) w1).
    { intros D1 H1 LL S1 S2. exists D1, kinds, H1. split; [split; assumption|].
      apply (OW_close_factory cf D D1 w1 f fa); [|rewrite EF1; exact Ef | exact S1 | exact S2].
      eapply OW_same; [exact ES1 | exact EF1 | rewrite <- (Iv_len kinds _ X1), <- (Iv_len kinds _ HI0); reflexivity | exact O0]. }
    destruct Y1 as [Y1|[H' [_ Y1]]].
    - apply (Fin1 D H Y1); [tauto | intros c Dc; left; exact Dc].
    - apply (Fin1 (Dopt D c1) H' Y1).
      + intros c Dc. unfold c1. destruct b; [|exact Dc]. destruct (fa_ik fa); cbn [Dopt]; [left; exact Dc | exact Dc].
      + intros c Dc. destruct (Sub1 c Dc) as [Z|Z]; [left; exact Z | right; right; exact Z]. }
  assert (Lv2 : cache_live (Dopt D c1) (fa_sk fa)) by (intros cs Es; exact (Ne cs Es)).
  pose proof (kc_close_opt_L (Dopt D c1) H (fa_sk fa) Lv2 w1 Y1) as Y2.
  pose proof (hoare_snd (Iv kinds) (kc_close (fa_sk fa)) w1 (kc_close_spec svc prod kinds (fa_sk fa) K2) X1) as X2.
  pose proof (qS_kc_close (fa_sk fa) w1) as ES2. pose proof (qF_kc_close (fa_sk fa) w1) as [EF2 _].
  assert (Fin2 : forall w2 D2 H2, LInv D2 NoX H2 w2 -> Iv kinds w2 -> w_sessions w2 = w_sessions w1 -> w_factories w2 = w_factories w1 ->
            (forall c, D c -> D2 c) -> (forall c, D2 c -> D c \/ fa_sk fa = Some c \/ fa_ik fa = Some c) -> HILD (f :: cf) w2).
  { intros w2 D2 H2 LL HI2 Es2 Ef2 S1 S2. exists D2, kinds, H2. split; [split; assumption|].
    apply (OW_close_factory cf D D2 w2 f fa); [|rewrite Ef2, EF1; exact Ef | exact S1 | exact S2].
    eapply OW_same; [rewrite Es2; exact ES1 | rewrite Ef2; exact EF1 | rewrite <- (Iv_len kinds _ HI2), <- (Iv_len kinds _ HI0); reflexivity | exact O0]. }
  assert (Up1 : forall c, D c -> Dopt D c1 c).
  { intros c Dc. unfold c1. destruct b; [|exact Dc]. destruct (fa_ik fa); cbn [Dopt]; [left; exact Dc | exact Dc]. }
  assert (Up2 : forall c, Dopt D c1 c -> Dopt (Dopt D c1) (fa_sk fa) c) by (intros c Dc; destruct (fa_sk fa); cbn [Dopt]; [left; exact Dc | exact Dc]).
  assert (Sub2 : forall c, Dopt (Dopt D c1) (fa_sk fa) c -> D c \/ fa_sk fa = Some c \/ fa_ik fa = Some c).
  { intros c Dc. destruct (fa_sk fa) as [cs|] eqn:Es; cbn [Dopt] in Dc.
    - destruct Dc as [Dc|Eq]; [destruct (Sub1 c Dc) as [Z|Z]; [left; exact Z | right; right; exact Z] | right; left; congruence].
    - destruct (Sub1 c Dc) as [Z|Z]; [left; exact Z | right; right; exact Z]. }
  destruct (kc_close (fa_sk fa) w1) as [[er|u2] w2]; cbn [snd] in *.
  + destruct Y2 as [Y2|[H' [_ Y2]]].
    * apply (Fin2 w2 (Dopt D c1) H Y2 X2 ES2 EF2 Up1). intros c Dc. destruct (Sub1 c Dc) as [Z|Z]; [left; exact Z | right; right; exact Z].
    * apply (Fin2 w2 (Dopt (Dopt D c1) (fa_sk fa)) H' Y2 X2 ES2 EF2); [intros c Dc; exact (Up2 c (Up1 c Dc)) | exact Sub2].
  + apply (Fin2 w2 (Dopt (Dopt D c1) (fa_sk fa)) H Y2 X2 ES2 EF2); [intros c Dc; exact (Up2 c (Up1 c Dc)) | exact Sub2].
Qed.

(* the session-cache part of SessionFactory.Close: every cached session leaves the cache *)
Definition close_scache (f : nat) (fa : factory) : M unit :=
  match fa_scache fa with
  | Some c =>
      now <- get_now ;;
      match Generic.step str_eqb c now [] Generic.OClose with
      | (c', _, ev) => set_scache f c' ;;; evictions ev
      end
  | None => ret tt
  end.

Lemma keeps_close_scache cf f fa : keeps cf (close_scache f fa).
Proof. unfold close_scache, get_now. keeps_go. Qed.

Lemma kcs_close_scache f fa : kcs (close_scache f fa).
Proof.
  unfold close_scache. destruct (fa_scache fa) as [c|]; [|apply kcs_ret].
  apply kcs_bind; [apply kcs_of_qF; apply qF_get_now|]. intro now.
  destruct (Generic.step str_eqb c now [] Generic.OClose) as [[c' r] ev].
  apply kcs_bind; [apply kcs_set_scache | intros _; apply kcs_of_qF; apply qF_evictions].
Qed.

Lemma factory_close_run f w fa :
  nth_error (w_factories w) f = Some fa ->
  factory_close f w = (close_scache f fa ;;; (if use_shared_ik (fa_policy fa) then kc_close (fa_ik fa) else ret tt) ;;; kc_close (fa_sk fa)) w.
Proof.
  intro Ef. unfold factory_close, close_scache. cbv beta iota delta [bind get_factory gets ret fail]. rewrite Ef. reflexivity.
Qed.

Lemma factory_close_none f w : nth_error (w_factories w) f = None -> factory_close f w = (inl ErrPanic, w).
Proof. intro Ef. cbv beta iota delta [factory_close bind get_factory gets ret fail]. rewrite Ef. reflexivity. Qed.

Lemma keeps_factory_close cf f w : HILD cf w -> ~ In f cf -> HILD (f :: cf) (snd (factory_close f w)).
Proof.
  intros Hw NI. destruct (nth_error (w_factories w) f) as [fa|] eqn:Ef.
  2: { rewrite (factory_close_none f w Ef). cbn [snd]. exact (HILD_cons cf f w Hw). }
  rewrite (factory_close_run f w fa Ef). unfold bind at 1.
  pose proof (keeps_close_scache cf f fa w Hw) as K1. pose proof (kcs_close_scache f fa w f fa Ef) as [fa1 [Ef1 [Es1 Ei1]]].
  destruct (close_scache f fa w) as [[er|u] w1]; cbn [snd] in *.
  - exact (HILD_cons cf f w1 K1).
  - apply (keeps_close_caches cf f (use_shared_ik (fa_policy fa)) (fa_ik fa) (fa_sk fa) w1 K1 NI). exists fa1. repeat split; assumption.
Qed.

Lemma HILD_begin cf fs w : HILD cf w -> HILD cf (begin_op fs w).
Proof.
  intros [D [kinds [H [HIL0 O]]]]. exists D, kinds, H. split; [exact (IL_begin_op D svc prod kinds H fs w HIL0) | eapply OW_same; [..|exact O]; reflexivity].
Qed.

Theorem hstepD_inv cf h o : benignD o -> live_op cf (h_world h) o -> HILD cf (h_world h) -> HILD (cf_after cf o) (h_world (snd (hstep h o))).
Proof.
  intros B LO HL.
  destruct o; cbn [benignD] in B; try contradiction; cbn [hstep live_op cf_after] in *.
  - (* new factory *)
    destruct B as [-> [-> [-> PO]]]. pose proof (keeps_new_factory cf p PO _ (HILD_begin cf [] _ HL)) as X.
    destruct (new_factory p svc prod None (begin_op [] (h_world h))) as [r w']. exact X.
  - (* get session *)
    pose proof (keeps_factory_get_session cf f id _ (HILD_begin cf [] _ HL)) as X.
    destruct (factory_get_session f id (begin_op [] (h_world h))) as [r w']. exact X.
  - (* encrypt *)
    destruct (HILD_begin cf faults _ HL) as [D [kinds [H [HIL1 O0]]]].
    assert (SL : sess_live D s (begin_op faults (h_world h))) by (apply (OW_sess_live cf); [exact O0 | exact LO]).
    pose proof (encrypt_op_IL D svc prod kinds H s payload _ (conj HIL1 SL)) as X.
    assert (QF : qF (e <- session_env s;; encrypt_payload e (PPayload payload))) by (apply qF_bind; [apply qF_session_env | intro; apply qF_encrypt_payload]).
    assert (QS : qS (e <- session_env s;; encrypt_payload e (PPayload payload))) by (apply qS_bind; [apply qS_session_env | intro; apply qS_encrypt_payload]).
    pose proof (QS (begin_op faults (h_world h))) as ES. pose proof (proj1 (QF (begin_op faults (h_world h)))) as EF.
    pose proof (Iv_len kinds _ (proj1 HIL1)) as Len0.
    destruct ((e <- session_env s;; encrypt_payload e (PPayload payload)) (begin_op faults (h_world h))) as [[er|d] w']; cbn [snd h_world] in *;
      destruct X as [HI' [H' [_ L']]]; exists D, kinds, H'; (split; [split; assumption|]);
      (eapply OW_same; [exact ES | exact EF | rewrite <- (Iv_len kinds _ HI'), <- Len0; reflexivity | exact O0]).
  - (* decrypt *)
    destruct (nth_error (h_recs h) rec) as [r0|]; [|cbn [snd h_world]; exact HL].
    set (r1 := fold_left (apply_mut (h_recs h)) muts r0).
    destruct (HILD_begin cf faults _ HL) as [D [kinds [H [HIL1 O0]]]].
    assert (SL : sess_live D s (begin_op faults (h_world h))) by (apply (OW_sess_live cf); [exact O0 | exact LO]).
    pose proof (decrypt_op_IL D svc prod kinds H s r1 _ (conj HIL1 SL)) as X.
    assert (QF : qF (e <- session_env s;; decrypt_data_row_record e r1)) by (apply qF_bind; [apply qF_session_env | intro; apply qF_decrypt_data_row_record]).
    assert (QS : qS (e <- session_env s;; decrypt_data_row_record e r1)) by (apply qS_bind; [apply qS_session_env | intro; apply qS_decrypt_data_row_record]).
    pose proof (QS (begin_op faults (h_world h))) as ES. pose proof (proj1 (QF (begin_op faults (h_world h)))) as EF.
    pose proof (Iv_len kinds _ (proj1 HIL1)) as Len0.
    destruct ((e <- session_env s;; decrypt_data_row_record e r1) (begin_op faults (h_world h))) as [[er|d] w']; cbn [snd h_world] in *;
      destruct X as [HI' [H' [_ L']]]; exists D, kinds, H'; (split; [split; assumption|]);
      (eapply OW_same; [exact ES | exact EF | rewrite <- (Iv_len kinds _ HI'), <- Len0; reflexivity | exact O0]).
  - (* Session.Close *)
    pose proof (keeps_session_close cf s _ (HILD_begin cf [] _ HL) LO) as X.
    destruct (session_close s (begin_op [] (h_world h))) as [r w']. exact X.
  - (* SessionFactory.Close *)
    pose proof (keeps_factory_close cf f _ (HILD_begin cf [] _ HL) LO) as X.
    destruct (factory_close f (begin_op [] (h_world h))) as [r w']. exact X.
  - (* clock *)
    cbn [snd h_world]. destruct HL as [D [kinds [H [[HI L] O]]]]. exists D, kinds, H.
    split; [split; [eapply Iv_ext; [..|exact HI]; reflexivity | eapply LInv_bookkeeping; [..|exact L]; reflexivity]|]. eapply OW_same; [..|exact O]; reflexivity.
  - (* revocation *)
    cbn [snd h_world]. destruct HL as [D [kinds [H [[HI L] O]]]]. exists D, kinds, H. split; [|eapply OW_same; [..|exact O]; reflexivity].
    split; [apply Iv_store_flagged; [apply revoke_flagged | exact HI] | eapply LInv_bookkeeping; [..|exact L]; reflexivity].
Qed.

Fixpoint okrun (cf : list nat) (h : hstate) (ops : list hop) : Prop :=
  match ops with
  | [] => True
  | o :: r => benignD o /\ live_op cf (h_world h) o /\ okrun (cf_after cf o) (snd (hstep h o)) r
  end.
Fixpoint cf_run (cf : list nat) (ops : list hop) : list nat :=
  match ops with [] => cf | o :: r => cf_run (cf_after cf o) r end.

Lemma hrunD_inv ops : forall cf h, okrun cf h ops -> HILD cf (h_world h) -> HILD (cf_run cf ops) (h_world (snd (hrun h ops))).
Proof.
  induction ops as [|o ops IH]; intros cf h OK HI; cbn [hrun cf_run]; [exact HI|].
  destruct OK as [Bo [Lo OKr]].
  pose proof (hstepD_inv cf h o Bo Lo HI) as H1. destruct (hstep h o) as [[res ev] h1]. cbn [snd] in H1, OKr.
  specialize (IH _ h1 OKr H1). destruct (hrun h1 ops) as [rest hf]. exact IH.
Qed.

Lemma benignD_cases o : benignD o -> benignL svc prod o \/ sdk_op o = true.
Proof. destruct o; cbn [benignD benignL]; try tauto; intros _; right; reflexivity. Qed.

Lemma benignD_benign o : benignD o -> benign svc prod o.
Proof. destruct o; cbn [benignD benign]; tauto. Qed.

Lemma okrun_benign ops : forall cf h, okrun cf h ops -> Forall (benign svc prod) ops.
Proof.
  induction ops as [|o ops IH]; intros cf h OK; [constructor|]. destruct OK as [Bo [_ OKr]]. constructor; [exact (benignD_benign o Bo) | exact (IH _ _ OKr)].
Qed.

Lemma genuine_hstepD h o pid d p :
  benignD o -> genuine (w_store (h_world h)) pid d p -> genuine (w_store (h_world (snd (hstep h o)))) pid d p.
Proof.
  intros B G. destruct (benignD_cases o B) as [BL|SO]; [exact (genuine_hstep svc prod h o pid d p BL G)|].
  destruct (sdk_step_R Rs Rs_frame h o SO) as [K _]. eapply genuine_kept; [exact K | exact G].
Qed.

Lemma genuine_hrunD ops : forall cf h pid d p,
  okrun cf h ops -> genuine (w_store (h_world h)) pid d p -> genuine (w_store (h_world (snd (hrun h ops)))) pid d p.
Proof.
  induction ops as [|o ops IH]; intros cf h pid d p OK G; cbn [hrun]; [exact G|].
  destruct OK as [Bo [_ OKr]].
  pose proof (genuine_hstepD h o pid d p Bo G) as G1. destruct (hstep h o) as [[res ev] h1]. cbn [snd] in G1, OKr.
  specialize (IH _ h1 pid d p OKr G1). destruct (hrun h1 ops) as [rest hf]. exact IH.
Qed.

Lemma HILD_init t0 : HILD [] (h_world (hinit t0)).
Proof.
  destruct (HIL_init (fun _ => False) svc prod t0) as [kinds [H [HI N]]]. exists (fun _ => False), kinds, H. split; [exact HI|].
  constructor; cbn.
  - intros f fa Hf. destruct f; discriminate Hf.
  - intros s x Hs. destruct s; discriminate Hs.
  - intros c [].
  - intros s x cid Hs. destruct s; discriminate Hs.
  - intros f fa cid Hf. destruct f; discriminate Hf.
  - intros s x cid Hs. destruct s; discriminate Hs.
  - intros f fa f' fa' cid Hf. destruct f; discriminate Hf.
  - intros s x Hs. destruct s; discriminate Hs.
Qed.

Theorem closing_invariants_reachable_own t0 ops :
  okrun [] (hinit t0) ops -> HInv svc prod (snd (hrun (hinit t0) ops)) /\ HILD (cf_run [] ops) (h_world (snd (hrun (hinit t0) ops))).
Proof.
  intro OK. split.
  - apply invariant_reachable. exact (okrun_benign ops _ _ OK).
  - exact (hrunD_inv ops [] (hinit t0) OK (HILD_init t0)).
Qed.

(* a recorded genuine record decrypts in any OPEN session of its partition (its own Close has not run, nor its factory's) *)
Theorem open_decrypt_of_recorded cf h s x j d n :
  HILD cf (h_world h) -> nz_store (w_store (h_world h)) -> nth_error (w_sessions (h_world h)) s = Some x -> ss_torn x = false ->
  ~ In (ss_factory x) cf ->
  nth_error (h_recs h) j = Some d -> genuine (w_store (h_world h)) (p_id (ss_part x)) d (PPayload n) ->
  fst (fst (hstep h (HDecrypt s j [] []))) = ODec (Some n).
Proof.
  intros [D [kinds [H [HIL0 O]]]] NZ Hs T NF Hj G. cbn [hstep]. rewrite Hj. cbn [fold_left].
  assert (Op : open_sess cf (h_world h) s) by (intros x' Hx'; rewrite Hs in Hx'; inversion Hx'; subst x'; split; assumption).
  pose proof (genuine_decrypts_live D svc prod kinds H (h_world h) s x d (PPayload n) HIL0 (OW_sess_live cf D _ s O Op) NZ Hs G) as X.
  destruct ((e <- session_env s;; decrypt_data_row_record e d) (begin_op [] (h_world h))) as [r w']. cbn [fst] in *. rewrite X. reflexivity.
Qed.

(* Encrypt; then anything - factories, sessions, encrypts and decrypts with any fault plans, clock changes, revocations, Session.Close of
   sessions that own their intermediate-key cache (which destroys that cache) and SessionFactory.Close (which destroys the factory's
   system-key cache and shared intermediate-key cache) - as long as nothing is invoked on a closed session or on a session of a closed
   factory; then a fault-free Decrypt in any open session of the same partition id, of any factory still open: the payload comes back *)
Theorem encrypt_then_decrypt_own_closing cf h s1 x1 payload faults :
  HInv svc prod h -> HILD cf (h_world h) -> nth_error (w_sessions (h_world h)) s1 = Some x1 -> ss_torn x1 = false -> ~ In (ss_factory x1) cf ->
  match hstep h (HEncrypt s1 payload faults) with
  | (OEnc _ _, _, h1) =>
      forall ops s2 x2, okrun cf h1 ops ->
        let h2 := snd (hrun h1 ops) in
        nz_store (w_store (h_world h2)) -> nth_error (w_sessions (h_world h2)) s2 = Some x2 -> ss_torn x2 = false ->
        ~ In (ss_factory x2) (cf_run cf ops) ->
        p_id (ss_part x2) = p_id (ss_part x1) ->
        fst (fst (hstep h2 (HDecrypt s2 (List.length (h_recs h)) [] []))) = ODec (Some payload)
  | _ => True
  end.
Proof.
  intros HV HL Hs T1 NF1.
  assert (Op1 : open_sess cf (h_world h) s1) by (intros x' Hx'; rewrite Hs in Hx'; inversion Hx'; subst x'; split; assumption).
  pose proof (hstepD_inv cf h (HEncrypt s1 payload faults) I Op1 HL) as HL1. cbn [cf_after] in HL1.
  destruct HV as [[kinds HI] RO]. cbn [hstep] in *.
  assert (HI0 : Iv kinds (begin_op faults (h_world h))) by (eapply Iv_ext; [..|exact HI]; reflexivity).
  set (w0 := begin_op faults (h_world h)) in *.
  assert (Hs0 : nth_error (w_sessions w0) s1 = Some x1) by exact Hs. clearbody w0.
  pose proof HI0 as [_ [_ _ _ S]]. destruct (S s1 x1 Hs0) as [[fa Hfa] _].
  pose proof (session_env_run s1 x1 fa w0 Hs0 Hfa) as Run.
  pose proof (session_env_spec svc prod kinds s1 w0 HI0) as X. rewrite Run in X. destruct X as [_ EO].
  set (e := {| en_part := ss_part x1; en_pol := fa_policy fa; en_sk := fa_sk fa; en_ik := ss_ik x1 |}) in *.
  pose proof (encrypt_payload_spec svc prod kinds e (PPayload payload) EO w0 HI0) as Y.
  unfold bind in *. rewrite Run in *.
  destruct (encrypt_payload e (PPayload payload) w0) as [[er|d] w1]; cbn [outcome snd h_world] in *.
  { destruct er; exact I. }
  destruct Y as [_ G]. destruct (d_key d) as [k|]; [|exact I]. destruct (e_parent k); [|exact I].
  cbv beta iota.
  intros ops s2 x2 OK NZ Hs2 T2 NF2 Epid.
  set (h1 := {| h_world := w1; h_recs := h_recs h ++ [d] |}) in *.
  set (h2 := snd (hrun h1 ops)) in *.
  change (fst (fst (hstep h2 (HDecrypt s2 (List.length (h_recs h)) [] []))) = ODec (Some payload)).
  assert (Hj : nth_error (h_recs h2) (List.length (h_recs h)) = Some d).
  { apply recs_hrun_prefix. cbn [h_recs h1]. rewrite nth_error_app2 by lia. rewrite Nat.sub_diag. reflexivity. }
  apply (open_decrypt_of_recorded (cf_run cf ops) h2 s2 x2 _ d payload); [exact (hrunD_inv ops cf h1 OK HL1) | exact NZ | exact Hs2 | exact T2 | exact NF2 | exact Hj |].
  rewrite Epid. exact (genuine_hrunD ops cf h1 _ d _ OK G).
Qed.

(* what an open session can reach through its caches has not been destroyed, whatever other sessions and factories have been closed *)
Theorem open_sessions_cached_keys_open cf w : HILD cf w ->
  forall s x fa cid kc ks e, nth_error (w_sessions w) s = Some x -> ss_torn x = false -> ~ In (ss_factory x) cf ->
    nth_error (w_factories w) (ss_factory x) = Some fa ->
    ss_ik x = Some cid \/ fa_sk fa = Some cid -> nth_error (w_caches w) cid = Some kc -> b_abs (kc_backing kc) ks = Some e -> open_k w (ce_key e).
Proof.
  intros [D [kinds [H [[_ L] O]]]] s x fa cid kc ks e Hs T NF Hf Hc Hk Hb.
  assert (ND : ~ D cid).
  { destruct Hc as [Hc|Hc]; [exact (ow_sess cf D w O s x Hs T (or_intror NF) cid Hc) | exact (proj1 (ow_fact cf D w O _ fa Hf NF) cid Hc)]. }
  apply (l_cached _ _ _ _ L (ce_key e)). exists cid, ks, e. split; [split; [exact ND | exists kc; split; assumption]|]. split; [intros []|reflexivity].
Qed.

(* a decision procedure for okrun, so that concrete histories are checked by computation *)
Definition cap_okb (pol : cachepol) : bool := match cp_kind pol with None => true | Some _ => 1 <=? cp_cap pol end.
Definition benignDb (o : hop) : bool :=
  match o with
  | HNewFactory p s0 pr suf => str_eqb s0 svc && str_eqb pr prod && (match suf with None => true | Some _ => false end) && cap_okb (p_sk_pol p) && cap_okb (p_ik_pol p)
  | HCloseSession _ | HCloseFactory _ | HGetSession _ _ | HEncrypt _ _ _ | HDecrypt _ _ _ _ | HAdvance _ | HRevoke _ _ => true
  | _ => false
  end.
Definition inb (f : nat) (cf : list nat) : bool := existsb (Nat.eqb f) cf.
Definition open_sessb (cf : list nat) (w : world) (s0 : nat) : bool :=
  match nth_error (w_sessions w) s0 with Some x => negb (ss_torn x) && negb (inb (ss_factory x) cf) | None => true end.
Definition untornb (w : world) (s0 : nat) : bool := match nth_error (w_sessions w) s0 with Some x => negb (ss_torn x) | None => true end.
Definition live_opb (cf : list nat) (w : world) (o : hop) : bool :=
  match o with
  | HEncrypt s0 _ _ | HDecrypt s0 _ _ _ => open_sessb cf w s0
  | HCloseSession s0 => untornb w s0
  | HCloseFactory f => negb (inb f cf)
  | _ => true
  end.
Fixpoint okrunb (cf : list nat) (h : hstate) (ops : list hop) : bool :=
  match ops with
  | [] => true
  | o :: r => benignDb o && live_opb cf (h_world h) o && okrunb (cf_after cf o) (snd (hstep h o)) r
  end.

Lemma inb_In f cf : inb f cf = false -> ~ In f cf.
Proof. unfold inb. intros E HI. assert (X : existsb (Nat.eqb f) cf = true) by (apply existsb_exists; exists f; split; [exact HI | apply Nat.eqb_refl]). congruence. Qed.

Lemma cap_okb_ok pol : cap_okb pol = true -> Coherent.cap_ok pol.
Proof. unfold cap_okb, Coherent.cap_ok. destruct (cp_kind pol); [intro E; apply Z.leb_le; exact E | intros _; exact I]. Qed.

Lemma benignDb_ok o : benignDb o = true -> benignD o.
Proof.
  destruct o; cbn [benignDb benignD]; try discriminate; try (intros _; exact I).
  intro E. repeat (apply andb_prop in E as [E ?]). destruct suffix; [discriminate|].
  split; [apply str_eqb_eq; assumption|]. split; [apply str_eqb_eq; assumption|]. split; [reflexivity|]. split; apply cap_okb_ok; assumption.
Qed.

Lemma live_opb_ok cf w o : live_opb cf w o = true -> live_op cf w o.
Proof.
  assert (OS : forall s0, open_sessb cf w s0 = true -> open_sess cf w s0).
  { intros s0 E x Hx. unfold open_sessb in E. rewrite Hx in E. apply andb_prop in E as [E1 E2]. split; [destruct (ss_torn x); [discriminate E1 | reflexivity] | apply inb_In; destruct (inb (ss_factory x) cf); [discriminate E2 | reflexivity]]. }
  destruct o; cbn [live_opb live_op]; try (intros _; exact I).
  - apply OS.
  - apply OS.
  - intros E x Hx. unfold untornb in E. rewrite Hx in E. destruct (ss_torn x); [discriminate E | reflexivity].
  - intro E. apply inb_In. destruct (inb f cf); [discriminate E | reflexivity].
Qed.

Lemma okrunb_ok ops : forall cf h, okrunb cf h ops = true -> okrun cf h ops.
Proof.
  induction ops as [|o ops IH]; intros cf h E; cbn [okrunb okrun] in *; [exact I|].
  apply andb_prop in E as [E E3]. apply andb_prop in E as [E1 E2].
  split; [exact (benignDb_ok o E1)|]. split; [exact (live_opb_ok cf (h_world h) o E2) | exact (IH _ _ E3)].
Qed.

End CloseD.

(* non-vacuity: the DEFAULT policy (every session owns its intermediate-key cache).  Session 0 encrypts, session 1 of the same
   partition is opened, session 0 is closed (its cache and the keys in it are destroyed), time passes, a third session is opened:
   the history satisfies okrun, and sessions 1 and 2 - both open - decrypt the record.  (The closed session 0 does not: its keys
   are gone, which is why the theorem is about open sessions.) *)
Definition own_closing_ops : list hop :=
  [HNewFactory Rotation.pol100 (s "svc") (s "prod") None; HGetSession 0 (s "p"); HEncrypt 0 5 []; HGetSession 0 (s "p"); HDecrypt 1 0 [] [];
   HCloseSession 0; HAdvance (20 * sec); HNewFactory Rotation.pol100 (s "svc") (s "prod") None; HGetSession 1 (s "p"); HDecrypt 2 0 [] [];
   HCloseSession 1; HCloseFactory 0; HEncrypt 2 6 []].

Example own_closing_nonvacuous :
  let h := snd (hrun (hinit Rotation.t0) own_closing_ops) in
  okrun (s "svc") (s "prod") [] (hinit Rotation.t0) own_closing_ops /\ cf_run [] own_closing_ops = [0%nat] /\
  nz_storeb (w_store (h_world h)) = true /\
  fst (fst (hstep h (HDecrypt 2 0 [] []))) = ODec (Some 5%nat) /\ fst (fst (hstep h (HDecrypt 2 1 [] []))) = ODec (Some 6%nat) /\
  fst (fst (hstep h (HDecrypt 0 0 [] []))) <> ODec (Some 5%nat).
Proof.
  split; [apply okrunb_ok; vm_compute; reflexivity|]. split; [reflexivity|]. split; [vm_compute; reflexivity|]. split; [vm_compute; reflexivity|].
  split; [vm_compute; reflexivity | vm_compute; discriminate].
Qed.

(* non-vacuity with the SESSION CACHE (capacity 1): session 0 of partition p is handed out, partition q pushes it out of the session cache
   while it is still held (it keeps working), its holder closes it (now the shared session's underlying encryption and its key cache are
   destroyed), p is requested again (a new session 2) - which decrypts the record; the released session 0 does not *)
Definition pol_sesscache : policy :=
  {| p_expire := 100 * sec; p_rci := 10 * sec; p_precision := 1 * sec; p_cache_sk := true; p_cache_ik := true; p_shared_ik := false;
     p_sk_pol := Rotation.simple_pol; p_ik_pol := Rotation.simple_pol; p_cache_sessions := true; p_sess_cap := 1;
     p_sess_dur := 7200 * sec; p_sess_kind := Generic.Lru |}.
Definition cached_closing_ops : list hop :=
  [HNewFactory pol_sesscache (s "svc") (s "prod") None; HGetSession 0 (s "p"); HEncrypt 0 5 []; HGetSession 0 (s "q"); HDecrypt 0 0 [] [];
   HCloseSession 0; HGetSession 0 (s "p")].


Example cached_closing_nonvacuous :
  let h := snd (hrun (hinit Rotation.t0) cached_closing_ops) in
  okrun (s "svc") (s "prod") [] (hinit Rotation.t0) cached_closing_ops /\
  nz_storeb (w_store (h_world h)) = true /\
  fst (fst (hstep h (HDecrypt 2 0 [] []))) = ODec (Some 5%nat) /\
  fst (fst (hstep h (HDecrypt 0 0 [] []))) <> ODec (Some 5%nat).
Proof.
  split; [apply okrunb_ok; vm_compute; reflexivity|]. split; [vm_compute; reflexivity|]. split; [vm_compute; reflexivity | vm_compute; discriminate].
Qed.
