(* Frame-style reasoning: a reflexive-transitive relation R between worlds that every primitive
   world update respects is respected by every program of the envelope layer.  Instantiated in
   FrameInst.v (store is append-only, secrets are never reopened, nonces never repeat, ...). *)
From Asherah Require Import Envelope.Session.

Record frame_ok (R : world -> world -> Prop) : Prop := {
  f_refl : forall w, R w w;
  f_trans : forall a b c, R a b -> R b c -> R a c;
  f_trace : forall w t, R w (with_trace t w);
  f_calls : forall w n, R w (with_calls n w);
  f_faults : forall w f, R w (with_faults f w);
  f_nonce : forall w, R w (with_nonce (S (w_nonce w)) w);
  f_store_app : forall w id c r, store_find id c (w_store w) = None -> R w (with_store (w_store w ++ [(id, c, r)]) w);
  f_secret_app : forall w s, s_closed s = false -> R w (with_secrets (w_secrets w ++ [s]) w);
  f_secret_close : forall w sid sc, nth_error (w_secrets w) sid = Some sc ->
  R w (with_secrets (set_nth sid {| s_mat := s_mat sc; s_closed := true |} (w_secrets w)) w);
  f_kobj_app : forall w o, R w (with_kobjs (w_kobjs w ++ [o]) w);
  f_kobj_set : forall w k o o', nth_error (w_kobjs w) k = Some o ->
  ko_created o' = ko_created o -> ko_secret o' = ko_secret o -> R w (with_kobjs (set_nth k o' (w_kobjs w)) w);
  f_caches : forall w c, R w (with_caches c w);
  f_sessions : forall w c, R w (with_sessions c w);
  f_factories : forall w c, R w (with_factories c w) }.

Section Frame.
Variable R : world -> world -> Prop.
Hypothesis FR : frame_ok R.
Let R_refl := f_refl R FR.
Let R_trans := f_trans R FR.
Let R_trace := f_trace R FR.
Let R_calls := f_calls R FR.
Let R_faults := f_faults R FR.
Let R_nonce := f_nonce R FR.
Let R_store_app := f_store_app R FR.
Let R_secret_app := f_secret_app R FR.
Let R_secret_close := f_secret_close R FR.
Let R_kobj_app := f_kobj_app R FR.
Let R_kobj_set := f_kobj_set R FR.
Let R_caches := f_caches R FR.
Let R_sessions := f_sessions R FR.
Let R_factories := f_factories R FR.

Definition pres {A} (m : M A) : Prop := forall w, R w (snd (m w)).

Lemma pres_ret {A} (a : A) : pres (ret a).
Proof. intro w. apply R_refl. Qed.

Lemma pres_fail {A} (e : err) : pres (@fail A e).
Proof. intro w. apply R_refl. Qed.

Lemma pres_bind {A B} (m : M A) (f : A -> M B) : pres m -> (forall a, pres (f a)) -> pres (bind m f).
Proof.
  intros Hm Hf w. unfold bind. specialize (Hm w). destruct (m w) as [[e|a] w'] eqn:E; cbn [snd] in *.
  - exact Hm.
  - eapply R_trans; [exact Hm | apply Hf].
Qed.

Lemma pres_finally {A} (m : M A) (c : M unit) : pres m -> pres c -> pres (finally m c).
Proof.
  intros Hm Hc w. unfold finally. specialize (Hm w). destruct (m w) as [r w'] eqn:E; cbn [snd] in *.
  eapply R_trans; [exact Hm | apply Hc].
Qed.

Lemma pres_try {A} (m : M A) : pres m -> pres (try_ m).
Proof. intros Hm w. unfold try_. specialize (Hm w). destruct (m w) as [r w']. exact Hm. Qed.

Lemma pres_gets {A} (f : world -> A) : pres (gets f).
Proof. intro w. apply R_refl. Qed.

Lemma pres_emit e : pres (emit e).
Proof. intro w. apply R_trace. Qed.

Lemma pres_next_call : pres next_call.
Proof. intro w. apply R_calls. Qed.

Lemma pres_bump_nonce : pres bump_nonce.
Proof. intro w. apply R_nonce. Qed.

Lemma pres_put_cache cid c : pres (put_cache cid c).
Proof. intro w. apply R_caches. Qed.

Lemma pres_put_session s x : pres (put_session s x).
Proof. intro w. apply R_sessions. Qed.

Lemma pres_put_factory s x : pres (put_factory s x).
Proof. intro w. apply R_factories. Qed.

Hint Resolve pres_ret pres_fail pres_gets pres_emit pres_next_call pres_bump_nonce pres_put_cache pres_put_session pres_put_factory : pres.

(* step through monadic structure; leaves only calls to other functions *)
Ltac pres_step :=
  first
    [ solve [auto with pres]
    | apply pres_ret | apply pres_fail | apply pres_gets | apply pres_emit | apply pres_next_call
    | apply pres_bump_nonce | apply pres_put_cache | apply pres_put_session | apply pres_put_factory
    | apply pres_bind; [|intro]
    | apply pres_finally
    | apply pres_try
    | match goal with
      | |- pres (match ?x with _ => _ end) => destruct x
      | |- pres (let '(_, _) := ?x in _) => destruct x
      | |- pres (if ?x then _ else _) => destruct x
      end
    | solve [auto with pres] ].
Ltac pres_go := repeat pres_step.

(* ---- World.v primitives (direct) -------------------------------------------------------------- *)

Lemma pres_get_now : pres get_now. Proof. apply pres_gets. Qed.
Lemma pres_get_store : pres get_store. Proof. apply pres_gets. Qed.
Lemma pres_get_secrets : pres get_secrets. Proof. apply pres_gets. Qed.
Lemma pres_get_kobjs : pres get_kobjs. Proof. apply pres_gets. Qed.
Hint Resolve pres_get_now pres_get_store pres_get_secrets pres_get_kobjs : pres.

Lemma pres_m_load id c : pres (m_load id c).
Proof. unfold m_load. pres_go. Qed.
Lemma pres_m_load_latest id : pres (m_load_latest id).
Proof. unfold m_load_latest. pres_go. Qed.

Lemma pres_store_insert id c r : pres (store_insert id c r).
Proof.
  intro w. unfold store_insert. destruct (store_find id c (w_store w)) eqn:F; cbn [snd].
  - apply R_refl.
  - apply R_store_app. exact F.
Qed.
Hint Resolve pres_store_insert : pres.

Lemma pres_m_store id c r : pres (m_store id c r).
Proof. unfold m_store. pres_go. Qed.

Lemma pres_kms_encrypt p : pres (kms_encrypt p).
Proof. unfold kms_encrypt. pres_go. Qed.
Lemma pres_kms_decrypt c : pres (kms_decrypt c).
Proof. unfold kms_decrypt. pres_go. Qed.
Lemma pres_aead_encrypt p k : pres (aead_encrypt p k).
Proof. unfold aead_encrypt. pres_go. Qed.
Lemma pres_aead_decrypt c k : pres (aead_decrypt c k).
Proof. unfold aead_decrypt. pres_go. Qed.

Lemma pres_secret_alloc m : pres (secret_alloc m).
Proof. intro w. unfold secret_alloc. cbn [snd]. apply R_secret_app. reflexivity. Qed.
Lemma pres_secret_count : pres secret_count.
Proof. apply pres_gets. Qed.
Hint Resolve pres_secret_alloc pres_secret_count : pres.

Lemma pres_secret_new m : pres (secret_new m).
Proof. unfold secret_new. pres_go. Qed.
Lemma pres_secret_random : pres secret_random.
Proof. unfold secret_random. pres_go. Qed.

Lemma pres_secret_mark_closed sid : pres (secret_mark_closed sid).
Proof.
  intro w. unfold secret_mark_closed. destruct (nth_error (w_secrets w) sid) eqn:E; cbn [snd].
  - apply R_secret_close. exact E.
  - apply R_refl.
Qed.
Hint Resolve pres_secret_mark_closed : pres.

Lemma pres_secret_close sid : pres (secret_close sid).
Proof. unfold secret_close. pres_go. Qed.

Lemma pres_secret_bytes sid : pres (secret_bytes sid).
Proof. unfold secret_bytes. pres_go. Qed.

Lemma pres_kobj_get k : pres (kobj_get k).
Proof. unfold kobj_get. pres_go. Qed.

Lemma pres_kobj_alloc o : pres (kobj_alloc o).
Proof. intro w. unfold kobj_alloc. cbn [snd]. apply R_kobj_app. Qed.

Hint Resolve pres_m_load pres_m_load_latest pres_m_store pres_kms_encrypt pres_kms_decrypt pres_aead_encrypt pres_aead_decrypt
  pres_secret_new pres_secret_random pres_secret_close pres_secret_bytes pres_kobj_get pres_kobj_alloc : pres.

(* updates of one key object that keep its identity (created stamp, secret) *)
Lemma pres_kobj_modify k (g : kobj -> kobj) :
  (forall o, ko_created (g o) = ko_created o /\ ko_secret (g o) = ko_secret o) -> pres (kobj_modify k g).
Proof.
  intros Hg w. unfold kobj_modify. destruct (nth_error (w_kobjs w) k) eqn:E; cbn [snd]; [|apply R_refl].
  destruct (Hg k0) as [H1 H2]. eapply R_kobj_set; eauto.
Qed.

Lemma pres_ck_close k : pres (ck_close k).
Proof. unfold ck_close. pres_go. apply pres_kobj_modify. intro o. split; reflexivity. Qed.
Hint Resolve pres_ck_close : pres.

Lemma pres_cck_close k : pres (cck_close k).
Proof. unfold cck_close. pres_go. apply pres_kobj_modify. intro o. split; reflexivity. Qed.
Lemma pres_cck_increment k : pres (cck_increment k).
Proof. unfold cck_increment. pres_go. apply pres_kobj_modify. intro o. split; reflexivity. Qed.
Lemma pres_ck_set_revoked k b : pres (ck_set_revoked k b).
Proof. unfold ck_set_revoked. pres_go. apply pres_kobj_modify. intro o. split; reflexivity. Qed.
Lemma pres_cck_wrap k : pres (cck_wrap k).
Proof. unfold cck_wrap. pres_go. apply pres_kobj_modify. intro o. split; reflexivity. Qed.
Hint Resolve pres_cck_close pres_cck_increment pres_ck_set_revoked pres_cck_wrap : pres.

Lemma pres_key_bytes k : pres (key_bytes k).
Proof. unfold key_bytes. pres_go. Qed.
Lemma pres_new_crypto_key c r m : pres (new_crypto_key c r m).
Proof. unfold new_crypto_key. pres_go. Qed.
Lemma pres_generate_key c : pres (generate_key c).
Proof. unfold generate_key. pres_go. Qed.
Hint Resolve pres_key_bytes pres_new_crypto_key pres_generate_key : pres.

(* ---- KeyCache.v --------------------------------------------------------------------------------- *)

Lemma pres_get_cache cid : pres (get_cache cid).
Proof. unfold get_cache. pres_go. Qed.
Hint Resolve pres_get_cache : pres.

Lemma pres_new_keycache p : pres (new_keycache p).
Proof. unfold new_keycache. pres_go; try (intro w; apply R_caches). Qed.

Lemma pres_kc_read cid m : pres (kc_read cid m).
Proof. unfold kc_read. pres_go. Qed.
Hint Resolve pres_new_keycache pres_kc_read : pres.

Lemma pres_reload_required e rci : pres (reload_required e rci).
Proof. unfold reload_required. pres_go. Qed.
Hint Resolve pres_reload_required : pres.

Lemma pres_kc_get_fresh cid rci m : pres (kc_get_fresh cid rci m).
Proof. unfold kc_get_fresh. pres_go. Qed.
Hint Resolve pres_kc_get_fresh : pres.

Lemma pres_closes l : pres (closes l).
Proof. unfold closes. induction l as [|x l IH]; cbn [fold_right]; pres_go; try exact IH. Qed.
Hint Resolve pres_closes : pres.

Lemma pres_kc_write cid m e : pres (kc_write cid m e).
Proof. unfold kc_write. pres_go. Qed.
Hint Resolve pres_kc_write : pres.

Lemma pres_kc_load cid m loader : (forall x, pres (loader x)) -> pres (kc_load cid m loader).
Proof. intro H. unfold kc_load. pres_go. Qed.

Lemma pres_is_key_invalid k e : pres (is_key_invalid k e).
Proof. unfold is_key_invalid. pres_go. Qed.
Hint Resolve pres_is_key_invalid : pres.

Lemma pres_get_or_load c rci m loader : (forall x, pres (loader x)) -> pres (get_or_load c rci m loader).
Proof. intro H. unfold get_or_load. pres_go; apply pres_kc_load; exact H. Qed.

Lemma pres_get_or_load_latest c rci ex id loader : (forall x, pres (loader x)) -> pres (get_or_load_latest c rci ex id loader).
Proof. intro H. unfold get_or_load_latest. pres_go; try apply pres_kc_load; exact H. Qed.

Lemma pres_kc_close c : pres (kc_close c).
Proof. unfold kc_close. pres_go. Qed.
Hint Resolve pres_kc_close : pres.

(* ---- Envelope.v ------------------------------------------------------------------------------------ *)

Lemma pres_is_envelope_invalid e r : pres (is_envelope_invalid e r).
Proof. unfold is_envelope_invalid. pres_go. Qed.
Lemma pres_generate_key_now e : pres (generate_key_now e).
Proof. unfold generate_key_now. pres_go. Qed.
Lemma pres_system_key_from_ekr r : pres (system_key_from_ekr r).
Proof. unfold system_key_from_ekr. pres_go. Qed.
Hint Resolve pres_is_envelope_invalid pres_generate_key_now pres_system_key_from_ekr : pres.

Lemma pres_load_system_key m : pres (load_system_key m).
Proof. unfold load_system_key. pres_go. Qed.
Hint Resolve pres_load_system_key : pres.

Lemma pres_get_or_load_system_key e m : pres (get_or_load_system_key e m).
Proof. unfold get_or_load_system_key. apply pres_get_or_load. intro. apply pres_load_system_key. Qed.
Hint Resolve pres_get_or_load_system_key : pres.

Lemma pres_intermediate_key_from_ekr e sk r : pres (intermediate_key_from_ekr e sk r).
Proof. unfold intermediate_key_from_ekr. pres_go. Qed.
Lemma pres_try_store_system_key e sk : pres (try_store_system_key e sk).
Proof. unfold try_store_system_key. pres_go. Qed.
Lemma pres_must_load_latest id : pres (must_load_latest id).
Proof. unfold must_load_latest. pres_go. Qed.
Hint Resolve pres_intermediate_key_from_ekr pres_try_store_system_key pres_must_load_latest : pres.

Lemma pres_load_latest_or_create_system_key e id : pres (load_latest_or_create_system_key e id).
Proof. unfold load_latest_or_create_system_key. pres_go. Qed.
Lemma pres_try_store_intermediate_key e ik sk : pres (try_store_intermediate_key e ik sk).
Proof. unfold try_store_intermediate_key. pres_go. Qed.
Hint Resolve pres_load_latest_or_create_system_key pres_try_store_intermediate_key : pres.

Lemma pres_create_ik_with_sk e sk : pres (create_ik_with_sk e sk).
Proof. unfold create_ik_with_sk. pres_go. Qed.
Hint Resolve pres_create_ik_with_sk : pres.

Lemma pres_create_intermediate_key e : pres (create_intermediate_key e).
Proof.
  unfold create_intermediate_key. apply pres_bind.
  - apply pres_get_or_load_latest. intro. apply pres_load_latest_or_create_system_key.
  - intro sk. pres_go.
Qed.
Hint Resolve pres_create_intermediate_key : pres.

Lemma pres_get_valid_intermediate_key e sk r : pres (get_valid_intermediate_key e sk r).
Proof. unfold get_valid_intermediate_key. pres_go. Qed.
Hint Resolve pres_get_valid_intermediate_key : pres.

Lemma pres_load_latest_or_create_intermediate_key e id : pres (load_latest_or_create_intermediate_key e id).
Proof. unfold load_latest_or_create_intermediate_key. pres_go. Qed.
Lemma pres_load_intermediate_key e m : pres (load_intermediate_key e m).
Proof. unfold load_intermediate_key. pres_go. Qed.
Hint Resolve pres_load_latest_or_create_intermediate_key pres_load_intermediate_key : pres.

Lemma pres_encrypt_with_ik e ik p : pres (encrypt_with_ik e ik p).
Proof. unfold encrypt_with_ik. pres_go. Qed.
Hint Resolve pres_encrypt_with_ik : pres.

Lemma pres_encrypt_payload e p : pres (encrypt_payload e p).
Proof.
  unfold encrypt_payload. apply pres_bind.
  - apply pres_get_or_load_latest. intro. apply pres_load_latest_or_create_intermediate_key.
  - intro ik. pres_go.
Qed.

Lemma pres_decrypt_row ik k d : pres (decrypt_row ik k d).
Proof. unfold decrypt_row. pres_go. Qed.
Hint Resolve pres_decrypt_row : pres.

Lemma pres_decrypt_data_row_record e r : pres (decrypt_data_row_record e r).
Proof.
  unfold decrypt_data_row_record. pres_go.
  apply pres_get_or_load. intro. apply pres_load_intermediate_key.
Qed.
Hint Resolve pres_encrypt_payload pres_decrypt_data_row_record : pres.

(* ---- Session.v --------------------------------------------------------------------------------------- *)

Lemma pres_get_factory f : pres (get_factory f).
Proof. unfold get_factory. pres_go. Qed.
Lemma pres_get_session s : pres (get_session s).
Proof. unfold get_session. pres_go. Qed.
Hint Resolve pres_get_factory pres_get_session : pres.

Lemma pres_new_factory p a b c : pres (new_factory p a b c).
Proof. unfold new_factory. pres_go; try (intro w; apply R_factories). Qed.
Lemma pres_new_session f id c : pres (new_session f id c).
Proof. unfold new_session. pres_go; try (intro w; apply R_sessions). Qed.
Lemma pres_session_env s : pres (session_env s).
Proof. unfold session_env. pres_go. Qed.
Lemma pres_envelope_close s : pres (envelope_close s).
Proof. unfold envelope_close. pres_go. Qed.
Hint Resolve pres_new_factory pres_new_session pres_session_env pres_envelope_close : pres.

Lemma pres_try_remove s : pres (try_remove s).
Proof. unfold try_remove. pres_go. Qed.
Hint Resolve pres_try_remove : pres.
Lemma pres_mark_evicted s : pres (mark_evicted s).
Proof. unfold mark_evicted. pres_go. Qed.
Hint Resolve pres_mark_evicted : pres.
Lemma pres_evictions l : pres (evictions l).
Proof. unfold evictions. induction l as [|x l IH]; cbn [fold_right]; pres_go; try exact IH. Qed.
Lemma pres_add_usage s d : pres (add_usage s d).
Proof. unfold add_usage. pres_go. Qed.
Lemma pres_set_scache f c : pres (set_scache f c).
Proof. unfold set_scache. pres_go. Qed.
Hint Resolve pres_evictions pres_add_usage pres_set_scache : pres.

Lemma pres_factory_get_session f id : pres (factory_get_session f id).
Proof. unfold factory_get_session. pres_go. Qed.
Lemma pres_session_close s : pres (session_close s).
Proof. unfold session_close. pres_go. Qed.
Lemma pres_factory_close f : pres (factory_close f).
Proof. unfold factory_close. pres_go. Qed.

(* every SDK operation of a history respects R (operator/environment steps are not SDK operations) *)
Definition sdk_op (o : hop) : bool :=
  match o with
  | HNewFactory _ _ _ _ | HGetSession _ _ | HEncrypt _ _ _ | HDecrypt _ _ _ _ | HCloseSession _ | HCloseFactory _ => true
  | _ => false
  end.


Lemma begin_op_R fs w : R w (begin_op fs w).
Proof.
  unfold begin_op. eapply R_trans; [apply (R_faults w fs)|]. eapply R_trans; [apply R_calls | apply R_trace].
Qed.

(* every SDK operation of a history respects R *)
Theorem sdk_step_R h o : sdk_op o = true -> R (h_world h) (h_world (snd (hstep h o))).
Proof.
  intro S. destruct o; try discriminate S; cbn [hstep].
  - pose proof (pres_new_factory p svc prod suffix (begin_op [] (h_world h))) as P.
    destruct (new_factory p svc prod suffix (begin_op [] (h_world h))) as [r w']. cbn [snd h_world] in *.
    eapply R_trans; [apply begin_op_R | exact P].
  - pose proof (pres_factory_get_session f id (begin_op [] (h_world h))) as P.
    destruct (factory_get_session f id (begin_op [] (h_world h))) as [r w']. cbn [snd h_world] in *.
    eapply R_trans; [apply begin_op_R | exact P].
  - assert (Q : pres (e <- session_env s ;; encrypt_payload e (PPayload payload))) by pres_go.
    pose proof (Q (begin_op faults (h_world h))) as P.
    destruct ((e <- session_env s ;; encrypt_payload e (PPayload payload)) (begin_op faults (h_world h))) as [r w']. cbn [snd h_world] in *.
    eapply R_trans; [apply begin_op_R | exact P].
  - destruct (nth_error (h_recs h) rec); [|apply R_refl].
    assert (Q : forall r1, pres (e <- session_env s ;; decrypt_data_row_record e r1)) by (intro; pres_go).
    pose proof (Q (fold_left (apply_mut (h_recs h)) muts d) (begin_op faults (h_world h))) as P.
    destruct ((e <- session_env s ;; decrypt_data_row_record e (fold_left (apply_mut (h_recs h)) muts d)) (begin_op faults (h_world h))) as [r w']. cbn [snd h_world] in *.
    eapply R_trans; [apply begin_op_R | exact P].
  - pose proof (pres_session_close s (begin_op [] (h_world h))) as P.
    destruct (session_close s (begin_op [] (h_world h))) as [r w']. cbn [snd h_world] in *.
    eapply R_trans; [apply begin_op_R | exact P].
  - pose proof (pres_factory_close f (begin_op [] (h_world h))) as P.
    destruct (factory_close f (begin_op [] (h_world h))) as [r w']. cbn [snd h_world] in *.
    eapply R_trans; [apply begin_op_R | exact P].
Qed.

End Frame.
