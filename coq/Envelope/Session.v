(* Model of session.go and session_cache.go (used sequentially), and the history runner that the
   correspondence check and the property theorems quantify over. *)
From Asherah Require Export Envelope.Envelope.

Definition get_factory (f : nat) : M factory :=
  fs <- gets w_factories ;; match nth_error fs f with Some x => ret x | None => fail ErrPanic end.
Definition put_factory (f : nat) (x : factory) : M unit := upd (fun w => with_factories (set_nth f x (w_factories w)) w).
Definition get_session (s : nat) : M session :=
  ss <- gets w_sessions ;; match nth_error ss s with Some x => ret x | None => fail ErrPanic end.
Definition put_session (s : nat) (x : session) : M unit := upd (fun w => with_sessions (set_nth s x (w_sessions w)) w).

(* CryptoPolicy.useSharedIntermediateKeyCache *)
Definition use_shared_ik (p : policy) : bool := p_cache_ik p && p_shared_ik p.

(* NewSessionFactory *)
Definition new_factory (p : policy) (svc prod : str) (suffix : option str) : M nat :=
  sk <- (if p_cache_sk p then c <- new_keycache (p_sk_pol p) ;; ret (Some c) else ret None) ;;
  ik <- (if use_shared_ik p then c <- new_keycache (p_ik_pol p) ;; ret (Some c) else ret None) ;;
  let sc := if p_cache_sessions p
            then Some (new_cache {| c_kind := p_sess_kind p; c_cap := p_sess_cap p;
                                    c_expiry := if p_sess_dur p >? 0 then p_sess_dur p else 0 |})
            else None in
  fs <- gets w_factories ;;
  upd (fun w => with_factories (w_factories w ++ [{| fa_policy := p; fa_svc := svc; fa_prod := prod; fa_suffix := suffix;
                                                     fa_sk := sk; fa_ik := ik; fa_scache := sc |}]) w) ;;;
  ret (length fs).

(* newSession *)
Definition new_session (f : nat) (id : str) (cached : bool) : M nat :=
  fa <- get_factory f ;;
  let p := fa_policy fa in
  ikown <- (if use_shared_ik p then ret (fa_ik fa, false)
            else if p_cache_ik p then c <- new_keycache (p_ik_pol p) ;; ret (Some c, true)
            else ret (None, true)) ;;
  ss <- gets w_sessions ;;
  upd (fun w => with_sessions (w_sessions w ++ [{| ss_factory := f; ss_part := new_partition id (fa_svc fa) (fa_prod fa) (fa_suffix fa);
                                                   ss_ik := fst ikown; ss_own_ik := snd ikown; ss_cached := cached;
                                                   ss_usage := 0; ss_evicted := false; ss_torn := false |}]) w) ;;;
  ret (length ss).

Definition session_env (s : nat) : M env :=
  x <- get_session s ;; fa <- get_factory (ss_factory x) ;;
  ret {| en_part := ss_part x; en_pol := fa_policy fa; en_sk := fa_sk fa; en_ik := ss_ik x |}.

(* envelopeEncryption.Close *)
Definition envelope_close (s : nat) : M unit :=
  x <- get_session s ;;
  put_session s {| ss_factory := ss_factory x; ss_part := ss_part x; ss_ik := ss_ik x; ss_own_ik := ss_own_ik x;
                   ss_cached := ss_cached x; ss_usage := ss_usage x; ss_evicted := ss_evicted x; ss_torn := true |} ;;;
  if ss_own_ik x then kc_close (ss_ik x) else ret tt.

(* sharedEncryption.Remove, run to completion once no holder is left *)
Definition try_remove (s : nat) : M unit :=
  x <- get_session s ;;
  if ss_evicted x && negb (ss_torn x) && (ss_usage x <=? 0) then envelope_close s else ret tt.

Definition mark_evicted (s : nat) : M unit :=
  x <- get_session s ;;
  put_session s {| ss_factory := ss_factory x; ss_part := ss_part x; ss_ik := ss_ik x; ss_own_ik := ss_own_ik x;
                   ss_cached := ss_cached x; ss_usage := ss_usage x; ss_evicted := true; ss_torn := ss_torn x |} ;;;
  try_remove s.

Definition evictions (l : list (str * nat)) : M unit :=
  fold_right (fun kv acc => mark_evicted (snd kv) ;;; acc) (ret tt) l.

Definition add_usage (s : nat) (d : Z) : M unit :=
  x <- get_session s ;;
  put_session s {| ss_factory := ss_factory x; ss_part := ss_part x; ss_ik := ss_ik x; ss_own_ik := ss_own_ik x;
                   ss_cached := ss_cached x; ss_usage := ss_usage x + d; ss_evicted := ss_evicted x; ss_torn := ss_torn x |}.

Definition set_scache (f : nat) (c : Generic.cache str nat) : M unit :=
  fa <- get_factory f ;;
  put_factory f {| fa_policy := fa_policy fa; fa_svc := fa_svc fa; fa_prod := fa_prod fa; fa_suffix := fa_suffix fa;
                   fa_sk := fa_sk fa; fa_ik := fa_ik fa; fa_scache := Some c |}.

(* SessionFactory.GetSession; None = refused *)
Definition factory_get_session (f : nat) (id : str) : M (option nat) :=
  if negb (get_session_ok id) then ret None
  else
    fa <- get_factory f ;;
    match fa_scache fa with
    | None => s <- new_session f id false ;; ret (Some s)
    | Some c =>
        now <- get_now ;;
        (* cacheWrapper.Get: getOrAdd, then incrementSharedSessionUsage *)
        match Generic.step str_eqb c now [] (OGet id) with
        | (c1, RGet (Some s), ev1) =>
            set_scache f c1 ;;; evictions ev1 ;;; add_usage s 1 ;;; ret (Some s)
        | (c1, _, ev1) =>
            set_scache f c1 ;;; evictions ev1 ;;;
            s <- new_session f id true ;;
            fa' <- get_factory f ;;
            match fa_scache fa' with
            | Some c2 =>
                match Generic.step str_eqb c2 now [] (OSet id s) with
                | (c3, _, ev3) => set_scache f c3 ;;; evictions ev3 ;;; add_usage s 1 ;;; ret (Some s)
                end
            | None => fail ErrPanic
            end
        end
    end.

(* Session.Close *)
Definition session_close (s : nat) : M unit :=
  x <- get_session s ;;
  if ss_cached x then add_usage s (-1) ;;; try_remove s
  else envelope_close s.

(* SessionFactory.Close *)
Definition factory_close (f : nat) : M unit :=
  fa <- get_factory f ;;
  (match fa_scache fa with
   | Some c =>
       now <- get_now ;;
       match Generic.step str_eqb c now [] OClose with
       | (c', _, ev) => set_scache f c' ;;; evictions ev
       end
   | None => ret tt
   end) ;;;
  (if use_shared_ik (fa_policy fa) then kc_close (fa_ik fa) else ret tt) ;;;
  kc_close (fa_sk fa).

(* ---- histories ---------------------------------------------------------------------------------- *)

Inductive rmut :=
| MutData | MutKey                     (* any modification of Data / of the encrypted key *)
| DataFrom (j : nat) | KeyFrom (j : nat) | ParentFrom (j : nat)   (* splice from genuine record j *)
| ParentCreated (c : Z) | ParentId (id : str) | KeyCreated (c : Z)
| NilKey | NilParent.

Inductive hop :=
| HNewFactory (p : policy) (svc prod : str) (suffix : option str)
| HGetSession (f : nat) (id : str)
| HEncrypt (s : nat) (payload : nat) (faults : list (nat * fault))
| HDecrypt (s : nat) (rec : nat) (muts : list rmut) (faults : list (nat * fault))   (* rec: n-th successful encrypt *)
| HCloseSession (s : nat)
| HCloseFactory (f : nat)
| HAdvance (d : Z)
| HRevoke (id : str) (created : Z)
| HInsert (id : str) (created : Z) (r : ekr)
| HDropParent (id : str) (created : Z)          (* corrupt a row: remove ParentKeyMeta *)
| HCorruptKey (id : str) (created : Z).         (* corrupt a row: modify EncryptedKey *)

Inductive ores :=
| OUnit
| OFactory (f : nat)
| OSession (s : nat)
| ORefused
| OEnc (parent : keymeta) (created : Z)
| ODec (payload : option nat)      (* Some p: payload p; None: any other bytes *)
| OErr
| OPanic.

Definition dummy_ekr : ekr := {| e_revoked := false; e_created := 0; e_key := CJunk 0; e_parent := None |}.

Definition apply_mut (recs : list drr) (r : drr) (m : rmut) : drr :=
  let key := match d_key r with Some k => k | None => dummy_ekr end in
  let other j := nth j recs r in
  let okey j := match d_key (other j) with Some k => k | None => dummy_ekr end in
  match m with
  | MutData => {| d_key := d_key r; d_data := CMut (d_data r) 0 |}
  | MutKey => {| d_key := Some {| e_revoked := e_revoked key; e_created := e_created key; e_key := CMut (e_key key) 0; e_parent := e_parent key |}; d_data := d_data r |}
  | DataFrom j => {| d_key := d_key r; d_data := d_data (other j) |}
  | KeyFrom j => {| d_key := Some {| e_revoked := e_revoked key; e_created := e_created key; e_key := e_key (okey j); e_parent := e_parent key |}; d_data := d_data r |}
  | ParentFrom j => {| d_key := Some {| e_revoked := e_revoked key; e_created := e_created key; e_key := e_key key; e_parent := e_parent (okey j) |}; d_data := d_data r |}
  | ParentCreated c =>
      {| d_key := Some {| e_revoked := e_revoked key; e_created := e_created key; e_key := e_key key;
                          e_parent := match e_parent key with Some pm => Some {| km_id := km_id pm; km_created := c |} | None => None end |};
         d_data := d_data r |}
  | ParentId id =>
      {| d_key := Some {| e_revoked := e_revoked key; e_created := e_created key; e_key := e_key key;
                          e_parent := match e_parent key with Some pm => Some {| km_id := id; km_created := km_created pm |} | None => None end |};
         d_data := d_data r |}
  | KeyCreated c => {| d_key := Some {| e_revoked := e_revoked key; e_created := c; e_key := e_key key; e_parent := e_parent key |}; d_data := d_data r |}
  | NilKey => {| d_key := None; d_data := d_data r |}
  | NilParent => {| d_key := Some {| e_revoked := e_revoked key; e_created := e_created key; e_key := e_key key; e_parent := None |}; d_data := d_data r |}
  end.


Definition row_edit (id : str) (created : Z) (g : ekr -> ekr) (s : list row) : list row :=
  map (fun x : row => let '(i, c, r) := x in if str_eqb i id && (c =? created) then (i, c, g r) else x) s.

(* state carried by the runner besides the world: genuine records produced so far *)
Record hstate := { h_world : world; h_recs : list drr }.

Definition empty_world : world :=
  {| w_now := 0; w_store := []; w_secrets := []; w_kobjs := []; w_nonce := 0; w_calls := 0; w_faults := []; w_trace := [];
     w_caches := []; w_sessions := []; w_factories := [] |}.

Definition begin_op (faults : list (nat * fault)) (w : world) : world :=
  with_trace [] (with_calls 0 (with_faults faults w)).

Definition outcome {A} (r : err + A) (ok : A -> ores) : ores :=
  match r with inr a => ok a | inl ErrPanic => OPanic | inl _ => OErr end.

(* one history step: result, boundary events in order, new state *)
Definition hstep (h : hstate) (o : hop) : ores * list event * hstate :=
  let w := h_world h in
  match o with
  | HNewFactory p svc prod suf =>
      let '(r, w') := new_factory p svc prod suf (begin_op [] w) in
      (outcome r OFactory, rev (w_trace w'), {| h_world := w'; h_recs := h_recs h |})
  | HGetSession f id =>
      let '(r, w') := factory_get_session f id (begin_op [] w) in
      (outcome r (fun x => match x with Some s => OSession s | None => ORefused end), rev (w_trace w'),
       {| h_world := w'; h_recs := h_recs h |})
  | HEncrypt s payload faults =>
      let '(r, w') := (e <- session_env s ;; encrypt_payload e (PPayload payload)) (begin_op faults w) in
      (outcome r (fun d => match d_key d with
                           | Some k => match e_parent k with Some pm => OEnc pm (e_created k) | None => OPanic end
                           | None => OPanic end),
       rev (w_trace w'),
       {| h_world := w'; h_recs := match r with inr d => h_recs h ++ [d] | inl _ => h_recs h end |})
  | HDecrypt s rec muts faults =>
      match nth_error (h_recs h) rec with
      | None => (OErr, [], h)
      | Some r0 =>
          let r1 := fold_left (apply_mut (h_recs h)) muts r0 in
          let '(r, w') := (e <- session_env s ;; decrypt_data_row_record e r1) (begin_op faults w) in
          (outcome r (fun p => match p with PPayload n => ODec (Some n) | _ => ODec None end), rev (w_trace w'),
           {| h_world := w'; h_recs := h_recs h |})
      end
  | HCloseSession s =>
      let '(r, w') := session_close s (begin_op [] w) in
      (outcome r (fun _ => OUnit), rev (w_trace w'), {| h_world := w'; h_recs := h_recs h |})
  | HCloseFactory f =>
      let '(r, w') := factory_close f (begin_op [] w) in
      (outcome r (fun _ => OUnit), rev (w_trace w'), {| h_world := w'; h_recs := h_recs h |})
  | HAdvance d => (OUnit, [], {| h_world := with_now (w_now w + d) w; h_recs := h_recs h |})
  | HRevoke id created =>
      (OUnit, [], {| h_world := with_store (row_edit id created (fun r => {| e_revoked := true; e_created := e_created r; e_key := e_key r; e_parent := e_parent r |}) (w_store w)) w;
                     h_recs := h_recs h |})
  | HInsert id created r =>
      (OUnit, [], {| h_world := (match store_find id created (w_store w) with
                                 | Some _ => w
                                 | None => with_store (w_store w ++ [(id, created, r)]) w end);
                     h_recs := h_recs h |})
  | HDropParent id created =>
      (OUnit, [], {| h_world := with_store (row_edit id created (fun r => {| e_revoked := e_revoked r; e_created := e_created r; e_key := e_key r; e_parent := None |}) (w_store w)) w;
                     h_recs := h_recs h |})
  | HCorruptKey id created =>
      (OUnit, [], {| h_world := with_store (row_edit id created (fun r => {| e_revoked := e_revoked r; e_created := e_created r; e_key := CMut (e_key r) 1; e_parent := e_parent r |}) (w_store w)) w;
                     h_recs := h_recs h |})
  end.

Fixpoint hrun (h : hstate) (ops : list hop) : list (ores * list event) * hstate :=
  match ops with
  | [] => ([], h)
  | o :: r =>
      let '(res, ev, h') := hstep h o in
      let '(rest, hf) := hrun h' r in
      ((res, ev) :: rest, hf)
  end.

Definition hinit (t0 : Z) : hstate := {| h_world := with_now t0 empty_world; h_recs := [] |}.
