(* Model of go/securememory/protectedmemory/secret.go (and the memguard variant's access protocol): one secret's pages
   driven through the memcall primitives under an arbitrary fault plan; the reader-count / closing / closed state machine.
   Sequential semantics here; the interleaving of readers and closers is in SecretConc.v. *)
From Coq Require Import List ZArith Bool Arith.
Import ListNotations.
Open Scope Z_scope.

Inductive prot := PNone | PRO | PRW.

(* the pages behind one secret, as the kernel sees them *)
Record pages := {
  pg_mapped : bool;
  pg_locked : bool;
  pg_prot : prot;
  pg_secret : bool      (* true: still holds secret (or partially random) bytes; false: zeroed *)
}.

Inductive mcall := CAlloc | CLock | CProtect (p : prot) | CUnlock | CFree | CRand.

(* one primitive call as observed: which, whether it succeeded, and whether the region still held secret bytes *)
Record mevent := { me_call : mcall; me_ok : bool; me_dirty : bool }.

Record sstate := {
  st_pages : pages;
  st_counter : Z;        (* accessCounter *)
  st_closing : bool;
  st_closed : bool;
  st_calls : nat;        (* primitive calls made so far by the current operation *)
  st_trace : list mevent (* newest first *)
}.

Definition fault_plan := list nat.       (* indices (within the operation) of primitive calls that fail *)

Definition fails (plan : fault_plan) (n : nat) : bool := existsb (Nat.eqb n) plan.

Definition with_pages (s : sstate) (p : pages) : sstate :=
  {| st_pages := p; st_counter := st_counter s; st_closing := st_closing s; st_closed := st_closed s; st_calls := st_calls s; st_trace := st_trace s |}.

(* perform one primitive: returns success; a failing primitive changes nothing in the kernel *)
Definition prim (plan : fault_plan) (s : sstate) (c : mcall) : bool * sstate :=
  let ok := negb (fails plan (st_calls s)) in
  let p := st_pages s in
  let p' := if ok then
              match c with
              | CAlloc => {| pg_mapped := true; pg_locked := false; pg_prot := PRW; pg_secret := false |}
              | CLock => {| pg_mapped := pg_mapped p; pg_locked := true; pg_prot := pg_prot p; pg_secret := pg_secret p |}
              | CProtect x => {| pg_mapped := pg_mapped p; pg_locked := pg_locked p; pg_prot := x; pg_secret := pg_secret p |}
              | CUnlock => {| pg_mapped := pg_mapped p; pg_locked := false; pg_prot := pg_prot p; pg_secret := pg_secret p |}
              | CFree => {| pg_mapped := false; pg_locked := false; pg_prot := PNone; pg_secret := pg_secret p |}
              | CRand => {| pg_mapped := pg_mapped p; pg_locked := pg_locked p; pg_prot := pg_prot p; pg_secret := true |}
              end
            else match c with
                 | CRand => {| pg_mapped := pg_mapped p; pg_locked := pg_locked p; pg_prot := pg_prot p; pg_secret := true |}  (* a short read still wrote bytes *)
                 | _ => p
                 end in
  (ok, {| st_pages := p'; st_counter := st_counter s; st_closing := st_closing s; st_closed := st_closed s;
          st_calls := S (st_calls s); st_trace := {| me_call := c; me_ok := ok; me_dirty := pg_secret p |} :: st_trace s |}).

(* direct writes by the Go code (not primitives): copying the secret in, core.Wipe *)
Definition write_secret (s : sstate) : sstate :=
  with_pages s {| pg_mapped := pg_mapped (st_pages s); pg_locked := pg_locked (st_pages s); pg_prot := pg_prot (st_pages s); pg_secret := true |}.
Definition wipe (s : sstate) : sstate :=
  with_pages s {| pg_mapped := pg_mapped (st_pages s); pg_locked := pg_locked (st_pages s); pg_prot := pg_prot (st_pages s); pg_secret := false |}.

Definition fresh : sstate :=
  {| st_pages := {| pg_mapped := false; pg_locked := false; pg_prot := PNone; pg_secret := false |};
     st_counter := 0; st_closing := false; st_closed := false; st_calls := 0; st_trace := [] |}.

Definition begin (s : sstate) : sstate :=
  {| st_pages := st_pages s; st_counter := st_counter s; st_closing := st_closing s; st_closed := st_closed s; st_calls := 0; st_trace := [] |}.

Inductive res := ROk | RErr | RClosed | RInvalid.

(* memcall.Clean: Unlock then Free, both attempted *)
Definition clean (plan : fault_plan) (s : sstate) : sstate :=
  let '(_, s1) := prim plan s CUnlock in
  let '(_, s2) := prim plan s1 CFree in s2.

(* newSecret *)
Definition new_secret (plan : fault_plan) (size : Z) (s : sstate) : res * sstate :=
  if size <? 1 then (RInvalid, s)
  else
    let '(ok1, s1) := prim plan s CAlloc in
    if negb ok1 then (RErr, s1)
    else
      let '(ok2, s2) := prim plan s1 CLock in
      if negb ok2 then let '(_, s3) := prim plan s2 CFree in (RErr, s3)
      else (ROk, s2).

(* SecretFactory.New *)
Definition op_new (plan : fault_plan) (size : Z) : res * sstate :=
  match new_secret plan size fresh with
  | (ROk, s1) =>
      let s2 := write_secret s1 in
      let '(ok, s3) := prim plan s2 (CProtect PNone) in
      if ok then (ROk, s3) else (RErr, clean plan (wipe s3))
  | (r, s1) => (r, s1)
  end.

(* SecretFactory.createRandom: the random source is primitive CRand *)
Definition op_create_random (plan : fault_plan) (size : Z) : res * sstate :=
  match new_secret plan size fresh with
  | (ROk, s1) =>
      let '(okr, s2) := prim plan s1 CRand in
      if negb okr then (RErr, clean plan (wipe s2))
      else
        let '(ok, s3) := prim plan s2 (CProtect PNone) in
        if ok then (ROk, s3)
        else let s4 := wipe s3 in (RErr, clean plan s4)
  | (r, s1) => (r, s1)
  end.

Definition set_counter (s : sstate) (c : Z) : sstate :=
  {| st_pages := st_pages s; st_counter := c; st_closing := st_closing s; st_closed := st_closed s; st_calls := st_calls s; st_trace := st_trace s |}.

(* access *)
Definition access (plan : fault_plan) (s : sstate) : res * sstate :=
  if st_closing s || st_closed s then (RClosed, s)
  else if st_counter s =? 0 then
    let '(ok, s1) := prim plan s (CProtect PRO) in
    if ok then (ROk, set_counter s1 (st_counter s1 + 1)) else (RErr, s1)
  else (ROk, set_counter s (st_counter s + 1)).

(* release *)
Definition release (plan : fault_plan) (s : sstate) : res * sstate :=
  let s1 := set_counter s (st_counter s - 1) in
  if st_counter s1 =? 0 then
    let '(ok, s2) := prim plan s1 (CProtect PNone) in ((if ok then ROk else RErr), s2)
  else (ROk, s1).

(* WithBytes with [depth] nested readers; the innermost action fails iff act_err.
   Also reports whether every callback ran with the pages readable and holding the secret. *)
Fixpoint with_bytes (plan : fault_plan) (depth : nat) (act_err : bool) (s : sstate) : res * bool * sstate :=
  match access plan s with
  | (ROk, s1) =>
      let readable := match pg_prot (st_pages s1) with PRO | PRW => pg_mapped (st_pages s1) && pg_secret (st_pages s1) | PNone => false end in
      let '(r_in, ok_in, s2) :=
        match depth with
        | O => ((if act_err then RErr else ROk), true, s1)
        | S d => with_bytes plan d act_err s1
        end in
      let '(r_rel, s3) := release plan s2 in
      ((match r_in with ROk => r_rel | x => x end), readable && ok_in, s3)
  | (r, s1) => (r, true, s1)
  end.

(* close() *)
Definition close_inner (plan : fault_plan) (s : sstate) : res * sstate :=
  let '(ok1, s1) := prim plan s (CProtect PRW) in
  if negb ok1 then (RErr, s1)
  else
    let s2 := wipe s1 in
    let '(ok2, s3) := prim plan s2 CUnlock in
    if negb ok2 then (RErr, s3)
    else
      let '(ok3, s4) := prim plan s3 CFree in
      if negb ok3 then (RErr, s4)
      else (ROk, {| st_pages := st_pages s4; st_counter := st_counter s4; st_closing := st_closing s4; st_closed := true;
                    st_calls := st_calls s4; st_trace := st_trace s4 |}).

(* Close with no reader inside (sequentially the reader count is zero between operations) *)
Definition op_close (plan : fault_plan) (s : sstate) : res * sstate :=
  let s1 := {| st_pages := st_pages s; st_counter := st_counter s; st_closing := true; st_closed := st_closed s;
               st_calls := st_calls s; st_trace := st_trace s |} in
  if st_closed s1 then (ROk, s1)
  else if st_counter s1 =? 0 then close_inner plan s1
  else (RErr, s1).   (* would wait for readers: not reachable sequentially *)

Inductive sop := SWithBytes (depth : nat) (act_err : bool) | SClose | SIsClosed.

Definition step (plan : fault_plan) (s : sstate) (o : sop) : res * bool * sstate :=
  match o with
  | SWithBytes d e => with_bytes plan d e (begin s)
  | SClose => let '(r, s') := op_close plan (begin s) in (r, true, s')
  | SIsClosed => ((if st_closed s then RClosed else ROk), true, begin s)
  end.
