(* C11, concurrent clause: any number of readers and closers on one secret, any schedule.  Each block below is what
   runs under the secret's rw lock between two synchronisation points (access / release / the Close loop body). *)
From Asherah Require Import Base.Conc SecureMem.Secret.
From Coq Require Import List Arith ZArith Lia Bool.
Import ListNotations.
Open Scope Z_scope.
Arguments Z.add : simpl never.
Arguments Z.sub : simpl never.

Inductive tpc :=
| RStart | RIn | RUsed | RDone (ok : bool)      (* reader: before access / inside the callback / callback ran / returned *)
| CStart | CWait | CDone.                        (* closer: before Close / waiting on the condition / returned *)

Record shared := {
  g_cnt : Z; g_closing : bool; g_closed : bool;
  g_prot : prot; g_mapped : bool; g_secret : bool;
  g_fault : bool;      (* a callback touched pages that were unmapped, no-access or wiped: SIGSEGV / wrong bytes *)
  g_closes : Z }.      (* how many times close() ran to completion *)

Definition do_close (g : shared) : shared :=
  {| g_cnt := g_cnt g; g_closing := true; g_closed := true; g_prot := PNone; g_mapped := false; g_secret := false;
     g_fault := g_fault g; g_closes := g_closes g + 1 |}.

Definition tstep (g : shared) (l : tpc) : shared * tpc :=
  match l with
  | RStart =>
      if g_closing g || g_closed g then (g, RDone false)
      else ({| g_cnt := g_cnt g + 1; g_closing := g_closing g; g_closed := g_closed g;
               g_prot := if g_cnt g =? 0 then PRO else g_prot g; g_mapped := g_mapped g; g_secret := g_secret g;
               g_fault := g_fault g; g_closes := g_closes g |}, RIn)
  | RIn =>   (* the callback reads the bytes *)
      let bad := negb (g_mapped g) || negb (g_secret g) || match g_prot g with PNone => true | _ => false end in
      ({| g_cnt := g_cnt g; g_closing := g_closing g; g_closed := g_closed g; g_prot := g_prot g; g_mapped := g_mapped g;
          g_secret := g_secret g; g_fault := g_fault g || bad; g_closes := g_closes g |}, RUsed)
  | RUsed => (* release *)
      ({| g_cnt := g_cnt g - 1; g_closing := g_closing g; g_closed := g_closed g;
          g_prot := if g_cnt g - 1 =? 0 then PNone else g_prot g; g_mapped := g_mapped g; g_secret := g_secret g;
          g_fault := g_fault g; g_closes := g_closes g |}, RDone true)
  | RDone b => (g, RDone b)
  | CStart | CWait =>
      let g1 := {| g_cnt := g_cnt g; g_closing := true; g_closed := g_closed g; g_prot := g_prot g; g_mapped := g_mapped g;
                   g_secret := g_secret g; g_fault := g_fault g; g_closes := g_closes g |} in
      if g_closed g1 then (g1, CDone)
      else if g_cnt g1 =? 0 then (do_close g1, CDone)
      else (g1, CWait)
  | CDone => (g, CDone)
  end.

Definition inside (l : tpc) : bool := match l with RIn | RUsed => true | _ => false end.

Record CInv (g : shared) (ls : list tpc) : Prop := {
  ci_cnt : g_cnt g = sumf inside ls;
  ci_fault : g_fault g = false;
  ci_open : g_closed g = false -> g_mapped g = true /\ g_secret g = true /\ (0 < g_cnt g -> g_prot g = PRO) /\ (g_cnt g = 0 -> g_prot g = PNone);
  ci_closed : g_closed g = true -> g_cnt g = 0 /\ g_mapped g = false /\ g_closes g = 1;
  ci_once : g_closed g = false -> g_closes g = 0 }.

Definition g0 : shared :=
  {| g_cnt := 0; g_closing := false; g_closed := false; g_prot := PNone; g_mapped := true; g_secret := true; g_fault := false; g_closes := 0 |}.

Lemma CInv_init ls : (forall l, In l ls -> l = RStart \/ l = CStart) -> CInv g0 ls.
Proof.
  intro H. constructor; cbn; try reflexivity; try discriminate; try (intros; repeat split; intros; try reflexivity; try lia).
  induction ls as [|l t IH]; [reflexivity|]. cbn [sumf]. rewrite <- IH by (intros; apply H; right; assumption).
  destruct (H l (or_introl eq_refl)) as [->| ->]; reflexivity.
Qed.

Lemma CInv_step g ls i l g' l' :
  CInv g ls -> nth_error ls i = Some l -> tstep g l = (g', l') -> CInv g' (set_nth i l' ls).
Proof.
  intros [Ic If Io Icl I1] Hn Hs.
  pose proof (sumf_set_nth tpc inside i l l' ls Hn) as SS.
  pose proof (sumf_nonneg tpc inside ls) as NN.
  assert (Hin : In l ls) by (eapply nth_error_In; eauto).
  destruct l; cbn [tstep] in Hs.
  - (* RStart *)
    destruct (g_closing g || g_closed g) eqn:CC; inversion Hs; subst; clear Hs.
    + constructor; try assumption. rewrite SS. cbn [inside cz]. lia.
    + apply orb_false_iff in CC as [C1 C2]. destruct (Io C2) as [M [S [P1 P2]]].
      constructor; cbn [g_cnt g_fault g_closed g_mapped g_secret g_prot g_closes]; try assumption.
      * rewrite SS. cbn [inside cz]. lia.
      * intros _. split; [exact M|]. split; [exact S|]. split; [|intro; lia].
        intros _. destruct (g_cnt g =? 0) eqn:Z0; [reflexivity|]. apply Z.eqb_neq in Z0. apply P1. lia.
      * intro C. congruence.
  - (* RIn: the callback *)
    inversion Hs; subst; clear Hs.
    pose proof (sumf_in tpc inside ls RIn Hin eq_refl) as POS.
    assert (OP : g_closed g = false).
    { destruct (g_closed g) eqn:E; [|reflexivity]. destruct (Icl eq_refl) as [Z0 _]. lia. }
    destruct (Io OP) as [M [S [P1 P2]]].
    constructor; cbn [g_cnt g_fault g_closed g_mapped g_secret g_prot g_closes]; try assumption.
    + rewrite SS. cbn [inside cz]. lia.
    + rewrite If, M, S, (P1 ltac:(lia)). reflexivity.
  - (* RUsed: release *)
    inversion Hs; subst; clear Hs.
    pose proof (sumf_in tpc inside ls RUsed Hin eq_refl) as POS.
    assert (OP : g_closed g = false).
    { destruct (g_closed g) eqn:E; [|reflexivity]. destruct (Icl eq_refl) as [Z0 _]. lia. }
    destruct (Io OP) as [M [S [P1 P2]]].
    constructor; cbn [g_cnt g_fault g_closed g_mapped g_secret g_prot g_closes]; try assumption.
    + rewrite SS. cbn [inside cz]. lia.
    + intros _. split; [exact M|]. split; [exact S|]. split.
      * intro H. destruct (g_cnt g - 1 =? 0) eqn:Z0; [apply Z.eqb_eq in Z0; lia | apply P1; lia].
      * intro H. apply Z.eqb_eq in H. rewrite H. reflexivity.
    + intro C. congruence.
  - (* RDone *)
    inversion Hs; subst. constructor; try assumption. rewrite SS. cbn [inside cz]. lia.
  - (* CStart *)
    destruct (g_closed g) eqn:CL; cbn [g_closed] in Hs.
    + inversion Hs; subst; clear Hs. constructor; cbn [g_cnt g_fault g_closed g_mapped g_secret g_prot g_closes]; try assumption; try congruence.
      rewrite SS. cbn [inside cz]. lia.
    + cbn [g_cnt] in Hs. destruct (g_cnt g =? 0) eqn:Z0; inversion Hs; subst; clear Hs.
      * apply Z.eqb_eq in Z0. unfold do_close. constructor; cbn [g_cnt g_fault g_closed g_mapped g_secret g_prot g_closes]; try assumption; try discriminate.
        -- rewrite SS. cbn [inside cz]. lia.
        -- intros _. rewrite (I1 eq_refl). repeat split; try reflexivity; exact Z0.
      * constructor; cbn [g_cnt g_fault g_closed g_mapped g_secret g_prot g_closes]; try assumption; try congruence.
        rewrite SS. cbn [inside cz]. lia.
  - (* CWait *)
    destruct (g_closed g) eqn:CL; cbn [g_closed] in Hs.
    + inversion Hs; subst; clear Hs. constructor; cbn [g_cnt g_fault g_closed g_mapped g_secret g_prot g_closes]; try assumption; try congruence.
      rewrite SS. cbn [inside cz]. lia.
    + cbn [g_cnt] in Hs. destruct (g_cnt g =? 0) eqn:Z0; inversion Hs; subst; clear Hs.
      * apply Z.eqb_eq in Z0. unfold do_close. constructor; cbn [g_cnt g_fault g_closed g_mapped g_secret g_prot g_closes]; try assumption; try discriminate.
        -- rewrite SS. cbn [inside cz]. lia.
        -- intros _. rewrite (I1 eq_refl). repeat split; try reflexivity; exact Z0.
      * constructor; cbn [g_cnt g_fault g_closed g_mapped g_secret g_prot g_closes]; try assumption; try congruence.
        rewrite SS. cbn [inside cz]. lia.
  - (* CDone *)
    inversion Hs; subst. constructor; try assumption. rewrite SS. cbn [inside cz]. lia.
Qed.

(* any number of readers and closers, any schedule: no callback ever touches unmapped, no-access or wiped pages, the
   pages are no-access whenever no reader is inside, read-only while one is, and close() runs at most once *)
Theorem readers_and_closers_never_fault ls sched :
  (forall l, In l ls -> l = RStart \/ l = CStart) ->
  let '(g, ls') := run tstep sched g0 ls in
  g_fault g = false /\ g_closes g <= 1 /\
  (g_closed g = false -> (g_cnt g = 0 -> g_prot g = PNone) /\ (0 < g_cnt g -> g_prot g = PRO) /\ g_mapped g = true) /\
  (g_closed g = true -> g_mapped g = false /\ g_cnt g = 0).
Proof.
  intro H. pose proof (inv_run tpc shared tstep CInv CInv_step sched g0 ls (CInv_init ls H)) as I.
  destruct (run tstep sched g0 ls) as [g ls']. cbn [fst snd] in I. destruct I as [Ic If Io Icl I1].
  split; [exact If|]. split.
  - destruct (g_closed g) eqn:E; [destruct (Icl eq_refl) as [_ [_ X]]; lia | rewrite (I1 eq_refl); lia].
  - split.
    + intro C. destruct (Io C) as [M [S [P1 P2]]]. repeat split; assumption.
    + intro C. destruct (Icl C) as [Z0 [M _]]. split; assumption.
Qed.
