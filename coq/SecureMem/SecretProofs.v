(* C11 (sequential part) and C12: the secret protocol under every fault plan. *)
From Asherah Require Import SecureMem.Secret.
From Coq Require Import List ZArith Bool Arith Lia.
Import ListNotations.
Open Scope Z_scope.

(* secret bytes are zeroed before their pages are unlocked or released: every Unlock / Free saw clean pages *)
Definition clean_event (e : mevent) : bool :=
  match me_call e with CUnlock | CFree => negb (me_dirty e) | _ => true end.
Definition clean_trace (s : sstate) : Prop := forallb clean_event (st_trace s) = true.

(* a usable secret: mapped, locked, holding the bytes, no-access exactly when nobody reads, read-only otherwise *)
Record Live (s : sstate) : Prop := {
  lv_mapped : pg_mapped (st_pages s) = true;
  lv_locked : pg_locked (st_pages s) = true;
  lv_secret : pg_secret (st_pages s) = true;
  lv_open : st_closed s = false;
  lv_count : 0 <= st_counter s;
  lv_idle : st_counter s = 0 -> pg_prot (st_pages s) = PNone;
  lv_busy : 0 < st_counter s -> pg_prot (st_pages s) = PRO }.

Definition failed_call (s : sstate) (c : mcall) : Prop := In {| me_call := c; me_ok := false; me_dirty := false |} (st_trace s) \/
                                                          In {| me_call := c; me_ok := false; me_dirty := true |} (st_trace s).

(* what a failed creation leaves behind *)
Definition Scrubbed (s : sstate) : Prop :=
  pg_secret (st_pages s) = false /\
  (pg_locked (st_pages s) = true -> failed_call s CUnlock \/ failed_call s CFree) /\
  (pg_mapped (st_pages s) = true -> failed_call s CFree).

Ltac crunch plan :=
  repeat (match goal with
          | |- context [fails plan ?n] => let E := fresh "F" in destruct (fails plan n) eqn:E
          end; cbn).

Theorem create_new_all_faults plan size r s :
  op_new plan size = (r, s) ->
  clean_trace s /\
  match r with
  | ROk => Live s /\ st_counter s = 0 /\ st_closing s = false
  | RInvalid => size < 1 /\ s = fresh
  | _ => Scrubbed s
  end.
Proof.
  unfold op_new, new_secret. destruct (size <? 1) eqn:SZ.
  - intro H. inversion H; subst. split; [reflexivity|]. split; [apply Z.ltb_lt; exact SZ | reflexivity].
  - unfold prim, clean, wipe, write_secret, with_pages, fresh, clean_trace, Scrubbed, failed_call. cbn.
    crunch plan; cbn; intro H; inversion H; subst; cbn; (split; [reflexivity|]);
      try (split; [constructor; cbn; try reflexivity; try lia; intros; try reflexivity; try lia | split; reflexivity]);
      try (split; [reflexivity | split; intro X; try discriminate X; auto 10]).
Qed.

Theorem create_random_all_faults plan size r s :
  op_create_random plan size = (r, s) ->
  clean_trace s /\
  match r with
  | ROk => Live s /\ st_counter s = 0 /\ st_closing s = false
  | RInvalid => size < 1 /\ s = fresh
  | _ => Scrubbed s
  end.
Proof.
  unfold op_create_random, new_secret. destruct (size <? 1) eqn:SZ.
  - intro H. inversion H; subst. split; [reflexivity|]. split; [apply Z.ltb_lt; exact SZ | reflexivity].
  - unfold prim, clean, wipe, write_secret, with_pages, fresh, clean_trace, Scrubbed, failed_call. cbn.
    crunch plan; cbn; intro H; inversion H; subst; cbn; (split; [reflexivity|]);
      try (split; [constructor; cbn; try reflexivity; try lia; intros; try reflexivity; try lia | split; reflexivity]);
      try (split; [reflexivity | split; intro X; try discriminate X; auto 10]).
Qed.

(* ---- access under faults: a failed attempt to open the secret changes neither the reader count nor the pages ---- *)

Theorem access_failure_changes_nothing plan s s' :
  Live s -> st_closing s = false -> access plan s = (RErr, s') ->
  st_counter s' = st_counter s /\ st_pages s' = st_pages s /\ Live s' /\ st_closing s' = false.
Proof.
  intros L NC. unfold access. rewrite NC, (lv_open s L). cbn [orb].
  destruct (st_counter s =? 0) eqn:Z0.
  - unfold prim. destruct (fails plan (st_calls s)) eqn:F; cbn [negb]; intro H; inversion H; subst; cbn.
    split; [reflexivity|]. split; [reflexivity|]. split; [|exact NC].
    destruct L as [a b c d e f g]. constructor; cbn; assumption.
  - intro H. discriminate H.
Qed.

(* without faults, readers (nested to any depth) see the secret read-only and leave the pages inaccessible *)
Lemma with_bytes_no_faults depth : forall e s,
  Live s -> st_closing s = false ->
  let '(r, seen, s') := with_bytes [] depth e s in
  seen = true /\ Live s' /\ st_counter s' = st_counter s /\ st_closing s' = false /\ st_closed s' = false /\
  r = (if e then RErr else ROk) /\ st_pages s' = st_pages s.
Proof.
  induction depth as [|d IH]; intros e s L NC; cbn [with_bytes].
  - unfold access. rewrite NC, (lv_open s L). cbn [orb]. destruct (st_counter s =? 0) eqn:Z0.
    + apply Z.eqb_eq in Z0. unfold prim, release, set_counter. cbn. rewrite Z0. cbn.
      destruct L as [a b c d0 e0 f g]. rewrite a, c. cbn.
      split; [reflexivity|]. split; [constructor; cbn; try assumption; try lia; intros; try reflexivity; lia|].
      split; [reflexivity|]. split; [exact NC|]. split; [exact d0|]. split; [destruct e; reflexivity|].
      specialize (f Z0). destruct (st_pages s); cbn in *. subst. reflexivity.
    + apply Z.eqb_neq in Z0. pose proof (lv_count s L) as C0. assert (P : 0 < st_counter s) by lia.
      unfold release, set_counter. cbn. replace (st_counter s + 1 - 1) with (st_counter s) by lia.
      apply Z.eqb_neq in Z0. rewrite Z0. rewrite (lv_busy s L P), (lv_mapped s L), (lv_secret s L). cbn.
      split; [reflexivity|]. split.
      { destruct L as [a b c d0 e0 f g]. constructor; cbn; assumption. }
      split; [reflexivity|]. split; [exact NC|]. split; [exact (lv_open s L)|]. split; [destruct e; reflexivity | reflexivity].
  - unfold access at 1. rewrite NC, (lv_open s L). cbn [orb].
    (* after access the secret is Live with one more reader and readable *)
    assert (exists s1, (if st_counter s =? 0
                        then let '(ok, s1) := prim [] s (CProtect PRO) in if ok then (ROk, set_counter s1 (st_counter s1 + 1)) else (RErr, s1)
                        else (ROk, set_counter s (st_counter s + 1))) = (ROk, s1) /\
                       Live s1 /\ st_counter s1 = st_counter s + 1 /\ st_closing s1 = false /\ pg_prot (st_pages s1) = PRO /\
                       pg_mapped (st_pages s1) = true /\ pg_secret (st_pages s1) = true /\ st_closed s1 = false) as [s1 [E [L1 [C1 [N1 [P1 [M1 [S1 O1]]]]]]]].
    { destruct (st_counter s =? 0) eqn:Z0.
      - apply Z.eqb_eq in Z0. unfold prim, set_counter. cbn. eexists. split; [reflexivity|]. cbn.
        destruct L as [a b c d0 e0 f g]. rewrite Z0.
        split; [constructor; cbn; try assumption; try lia; intros; try reflexivity; lia|].
        split; [reflexivity|]. split; [exact NC|]. split; [reflexivity|]. split; [exact a|]. split; [exact c | exact d0].
      - apply Z.eqb_neq in Z0. pose proof (lv_count s L). assert (P : 0 < st_counter s) by lia. unfold set_counter. eexists. split; [reflexivity|]. cbn.
        destruct L as [a b c d0 e0 f g].
        split; [constructor; cbn; try assumption; try lia; intros; try lia; apply g; exact P|].
        split; [reflexivity|]. split; [exact NC|]. split; [apply g; exact P|]. split; [exact a|]. split; [exact c | exact d0]. }
    rewrite E. rewrite P1, M1, S1. cbn [andb].
    specialize (IH e s1 L1 N1). destruct (with_bytes [] d e s1) as [[r_in ok_in] s2]. destruct IH as [I1 [I2 [I3 [I4 [I5 [I6 I7]]]]]].
    unfold release, set_counter. cbn. rewrite I3, C1. replace (st_counter s + 1 - 1) with (st_counter s) by lia.
    destruct (st_counter s =? 0) eqn:Z0.
    + apply Z.eqb_eq in Z0. unfold prim. cbn. subst ok_in. cbn.
      split; [reflexivity|]. destruct I2 as [a b c d0 e0 f g]. split.
      { constructor; cbn; try assumption; try lia; intros; try reflexivity; lia. }
      split; [reflexivity|]. split; [exact I4|]. split; [exact I5|]. split; [rewrite I6; destruct e; reflexivity|].
      rewrite I7. clear - L Z0 E.
      assert (PN : pg_prot (st_pages s) = PNone) by (apply (lv_idle s L); exact Z0).
      unfold prim, set_counter in E. cbn in E. inversion E; subst. cbn.
      destruct (st_pages s); cbn in *. subst. reflexivity.
    + subst ok_in. cbn. split; [reflexivity|]. destruct I2 as [a b c d0 e0 f g]. split.
      { apply Z.eqb_neq in Z0. pose proof (lv_count s L). constructor; cbn; try assumption; try lia; intros; try lia. apply g. lia. }
      split; [reflexivity|]. split; [exact I4|]. split; [exact I5|]. split; [rewrite I6; destruct e; reflexivity|].
      rewrite I7. inversion E; subst. reflexivity.
Qed.

Theorem readers_see_secret_and_leave_no_access depth e s :
  Live s -> st_counter s = 0 -> st_closing s = false ->
  let '(r, seen, s') := with_bytes [] depth e s in
  seen = true /\ Live s' /\ st_counter s' = 0 /\ pg_prot (st_pages s') = PNone /\ r = (if e then RErr else ROk).
Proof.
  intros L C NC. pose proof (with_bytes_no_faults depth e s L NC) as H.
  destruct (with_bytes [] depth e s) as [[r seen] s']. destruct H as [H1 [H2 [H3 [_ [_ [H6 _]]]]]].
  split; [exact H1|]. split; [exact H2|]. split; [congruence|]. split; [apply (lv_idle s' H2); congruence | exact H6].
Qed.

(* ---- Close under faults ----------------------------------------------------------------------------------------- *)

Definition Gone (s : sstate) : Prop :=
  st_closed s = true /\ pg_mapped (st_pages s) = false /\ pg_locked (st_pages s) = false /\ pg_secret (st_pages s) = false.

(* whatever fails, pages are wiped before they are unlocked or released; success means closed, unlocked, unmapped;
   a failed Close leaves the secret not closed and a retry without faults completes it *)
Theorem close_all_faults plan s r s' :
  Live s -> st_counter s = 0 -> op_close plan (begin s) = (r, s') ->
  clean_trace s' /\
  match r with
  | ROk => Gone s'
  | _ => st_closed s' = false /\ st_counter s' = 0 /\ exists s'', op_close [] (begin s') = (ROk, s'') /\ Gone s'' /\ clean_trace s''
  end.
Proof.
  intros L C. unfold op_close, begin, close_inner. cbn. rewrite (lv_open s L), C. cbn.
  unfold prim, wipe, with_pages, clean_trace, Gone. cbn.
  destruct L as [a b c d0 e0 f g]. rewrite c.
  crunch plan; intro H; inversion H; subst; clear H; cbn; (split; [reflexivity|]);
    first [ solve [repeat split; reflexivity]
          | (split; [first [exact d0 | reflexivity] | split; [first [exact C | reflexivity]|]]);
            unfold op_close, begin, close_inner, prim, wipe, with_pages; cbn; try rewrite d0; try rewrite C; cbn;
            eexists; (split; [reflexivity|]); cbn; split; [repeat split; reflexivity | reflexivity] ].
Qed.

(* after Close every access reports the closed error and touches no page *)
Theorem closed_secret_rejects_access plan depth e s :
  st_closed s = true \/ st_closing s = true ->
  with_bytes plan depth e (begin s) = (RClosed, true, begin s).
Proof.
  intro H. destruct depth; cbn [with_bytes]; unfold access, begin; cbn;
    destruct H as [H|H]; rewrite H; try rewrite orb_true_r; reflexivity.
Qed.

(* fault-free corollaries used by C11 *)
Theorem created_secret_is_locked_and_inaccessible size r s :
  op_new [] size = (r, s) -> 1 <= size -> r = ROk /\ Live s /\ pg_prot (st_pages s) = PNone /\ clean_trace s.
Proof.
  intros H Hs. unfold op_new, new_secret in H. destruct (size <? 1) eqn:SZ; [apply Z.ltb_lt in SZ; lia|].
  cbn in H. inversion H; subst. split; [reflexivity|]. split.
  - constructor; cbn; try reflexivity; try lia; intros; try reflexivity; lia.
  - split; reflexivity.
Qed.

Theorem close_wipes_unlocks_unmaps s r s' :
  Live s -> st_counter s = 0 -> op_close [] (begin s) = (r, s') -> r = ROk /\ Gone s' /\ clean_trace s'.
Proof.
  intros L C H. destruct (close_all_faults [] s r s' L C H) as [CT R].
  unfold op_close, begin, close_inner in H. cbn in H. rewrite (lv_open s L), C in H. cbn in H. inversion H; subst.
  split; [reflexivity|]. split; [exact R | exact CT].
Qed.
