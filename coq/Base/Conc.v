(* Interleaving semantics shared by the concurrency theorems (C08, C11, C16): N threads, each with a local program
   counter, stepping atomically on shared state under an arbitrary schedule; counting lemmas for invariants of the
   form "shared counter = number of threads in such-and-such states". *)
From Coq Require Import List Arith ZArith Lia Bool.
Import ListNotations.
Open Scope Z_scope.

Definition cz (b : bool) : Z := if b then 1 else 0.

Fixpoint set_nth {A} (n : nat) (x : A) (l : list A) : list A :=
  match l, n with
  | [], _ => []
  | _ :: r, O => x :: r
  | y :: r, S n' => y :: set_nth n' x r
  end.

Section Count.
Variable L : Type.

Fixpoint sumf (f : L -> bool) (ls : list L) : Z :=
  match ls with [] => 0 | l :: t => cz (f l) + sumf f t end.

Lemma sumf_nonneg f ls : 0 <= sumf f ls.
Proof. induction ls as [|l t IH]; cbn [sumf]; [lia|]. unfold cz; destruct (f l); lia. Qed.

Lemma sumf_in f ls l : In l ls -> f l = true -> 1 <= sumf f ls.
Proof.
  induction ls as [|h t IH]; cbn [sumf In]; [tauto|]. intros [->|Hin] Hf.
  - rewrite Hf; unfold cz. pose proof (sumf_nonneg f t). lia.
  - specialize (IH Hin Hf). unfold cz; destruct (f h); lia.
Qed.

Lemma sumf_set_nth f i l l' ls :
  nth_error ls i = Some l -> sumf f (set_nth i l' ls) = sumf f ls - cz (f l) + cz (f l').
Proof.
  revert i; induction ls as [|h t IH]; intros [|i]; cbn; try discriminate.
  - intros [= ->]. lia.
  - intros H. rewrite (IH _ H). lia.
Qed.

Lemma sumf_zero_none f ls : sumf f ls = 0 -> forall l, In l ls -> f l = false.
Proof.
  intros H l Hin. destruct (f l) eqn:E; [|reflexivity]. pose proof (sumf_in f ls l Hin E). lia.
Qed.

Lemma in_set_nth i (v x : L) ls : In x (set_nth i v ls) -> x = v \/ In x ls.
Proof.
  revert i; induction ls as [|h t IH]; intros [|i]; cbn; try tauto.
  - intros [<-|H]; auto.
  - intros [<-|H]; auto. destruct (IH _ H); auto.
Qed.

(* one system: shared state G, a step of thread-local state l on shared g *)
Variable G : Type.
Variable step : G -> L -> G * L.

Fixpoint run (sched : list nat) (g : G) (ls : list L) : G * list L :=
  match sched with
  | [] => (g, ls)
  | i :: r =>
      match nth_error ls i with
      | Some l => let '(g', l') := step g l in run r g' (set_nth i l' ls)
      | None => run r g ls
      end
  end.

Theorem inv_run (Inv : G -> list L -> Prop) :
  (forall g ls i l g' l', Inv g ls -> nth_error ls i = Some l -> step g l = (g', l') -> Inv g' (set_nth i l' ls)) ->
  forall sched g ls, Inv g ls -> Inv (fst (run sched g ls)) (snd (run sched g ls)).
Proof.
  intros Hstep sched. induction sched as [|i r IH]; intros g ls I; [exact I|].
  cbn [run]. destruct (nth_error ls i) as [l|] eqn:E; [|apply IH; exact I].
  destruct (step g l) as [g' l'] eqn:S. apply IH. eapply Hstep; eauto.
Qed.

End Count.
Arguments sumf {L} f ls.
Arguments run {L G} step sched g ls.
