(* Facts about decimal rendering and about cache keys of the form  id ++ itoa created :
   itoa is injective, and two keys  A ++ T ++ itoa c = A' ++ T ++ itoa c'  with a common non-numeric
   separator T coincide only if A = A' and c = c'. *)
From Asherah Require Import Base.Str.
From Coq Require Import Lia.

Open Scope N_scope.

Definition dval (a : N) (ch : ascii) : N := 10 * a + (N_of_ascii ch - 48).
Definition val (s : str) (a : N) : N := fold_left dval s a.

(* characters itoa can produce *)
Definition ichar (ch : ascii) : Prop := (exists d, d < 10 /\ ch = digit d) \/ ch = "-"%char.

Lemma digit_code d : d < 10 -> N_of_ascii (digit d) = 48 + d.
Proof. intro H. unfold digit. apply N_ascii_embedding. lia. Qed.

Lemma itoa_fuel_val f : forall n acc a, n < 10 ^ N.of_nat (S f) ->
  exists k, val (itoa_pos_fuel (S f) n acc) a = val acc (a * 10 ^ k + n).
Proof.
  induction f as [|f IH]; intros n acc a Hn.
  - cbn [itoa_pos_fuel]. change (N.of_nat 1) with 1 in Hn. rewrite N.pow_1_r in Hn.
    assert (E : n / 10 = 0) by (apply N.div_small; exact Hn). rewrite E. cbn [N.eqb].
    exists 1. unfold val. cbn [fold_left]. f_equal. unfold dval. rewrite digit_code by (apply N.mod_lt; lia).
    rewrite (N.mod_small n 10) by exact Hn. rewrite N.pow_1_r. lia.
  - remember (S f) as f1 eqn:Ef. cbn [itoa_pos_fuel].
    destruct (n / 10 =? 0) eqn:E.
    + apply N.eqb_eq in E. exists 1. unfold val. cbn [fold_left]. f_equal. unfold dval.
      rewrite digit_code by (apply N.mod_lt; lia).
      assert (n < 10) by (destruct (N.lt_ge_cases n 10) as [L|G]; [exact L|]; exfalso;
                          assert (1 <= n / 10) by (apply N.div_le_lower_bound; lia); lia).
      rewrite (N.mod_small n 10) by assumption. rewrite N.pow_1_r. lia.
    + subst f1.
      assert (Hd : n / 10 < 10 ^ N.of_nat (S f)).
      { apply N.div_lt_upper_bound; [lia|]. rewrite Nat2N.inj_succ in Hn. rewrite N.pow_succ_r' in Hn. exact Hn. }
      destruct (IH (n / 10) (digit (n mod 10) :: acc) a Hd) as [k Hk]. exists (k + 1). rewrite Hk.
      unfold val. cbn [fold_left]. f_equal. unfold dval. rewrite digit_code by (apply N.mod_lt; lia).
      rewrite N.pow_add_r, N.pow_1_r. pose proof (N.div_mod n 10 ltac:(lia)) as DM. set (X := 10 ^ k) in *. set (q := n / 10) in *. set (r := n mod 10) in *. nia.
Qed.

Lemma itoa_N_val n : val (itoa_N n) 0 = n.
Proof.
  unfold itoa_N.
  assert (H : n < 10 ^ N.of_nat (S (N.to_nat (N.log2 n)))).
  { rewrite Nat2N.inj_succ, N2Nat.id. destruct n as [|p].
    - cbn. lia.
    - pose proof (N.log2_spec (N.pos p) (eq_refl)) as [_ L].
      eapply N.lt_le_trans; [exact L|]. apply N.pow_le_mono_l. lia. }
  destruct (itoa_fuel_val _ n [] 0 H) as [k Hk]. rewrite Hk. unfold val. cbn [fold_left]. lia.
Qed.

Lemma itoa_N_inj n m : itoa_N n = itoa_N m -> n = m.
Proof. intro H. rewrite <- (itoa_N_val n), <- (itoa_N_val m), H. reflexivity. Qed.

Lemma itoa_fuel_chars f : forall n acc, Forall ichar acc -> Forall ichar (itoa_pos_fuel f n acc).
Proof.
  induction f as [|f IH]; intros n acc Ha; cbn [itoa_pos_fuel]; [exact Ha|].
  assert (Hd : Forall ichar (digit (n mod 10) :: acc)).
  { constructor; [|exact Ha]. left. exists (n mod 10). split; [apply N.mod_lt; lia | reflexivity]. }
  destruct (n / 10 =? 0); [exact Hd | apply IH; exact Hd].
Qed.

Lemma itoa_N_digits n : Forall (fun ch => exists d, d < 10 /\ ch = digit d) (itoa_N n).
Proof.
  unfold itoa_N. generalize (S (N.to_nat (N.log2 n))) as f. intro f. generalize (@nil ascii) as acc, n, (Forall_nil (fun ch => exists d, d < 10 /\ ch = digit d)).
  induction f as [|f IH]; intros acc m Ha; cbn [itoa_pos_fuel]; [exact Ha|].
  assert (Hd : Forall (fun ch => exists d, d < 10 /\ ch = digit d) (digit (m mod 10) :: acc)).
  { constructor; [|exact Ha]. exists (m mod 10). split; [apply N.mod_lt; lia | reflexivity]. }
  destruct (m / 10 =? 0); [exact Hd | apply IH; exact Hd].
Qed.

Lemma minus_not_digit d : d < 10 -> "-"%char <> digit d.
Proof.
  intros H E. apply (f_equal N_of_ascii) in E. rewrite digit_code in E by exact H.
  change (N_of_ascii "-") with 45%N in E. lia.
Qed.

Lemma itoa_chars z : Forall ichar (itoa z).
Proof.
  destruct z as [|p|p]; cbn [itoa].
  - constructor; [|constructor]. left. exists 0. split; [lia | reflexivity].
  - eapply Forall_impl; [|apply itoa_N_digits]. intros ch H. left. exact H.
  - constructor; [right; reflexivity|]. eapply Forall_impl; [|apply itoa_N_digits]. intros ch H. left. exact H.
Qed.

Lemma itoa_zero : itoa 0%Z = itoa_N 0.
Proof. reflexivity. Qed.

Lemma itoa_inj z z' : itoa z = itoa z' -> z = z'.
Proof.
  assert (NoMinus : forall n s, "-"%char :: s = itoa_N n -> False).
  { intros n s E. pose proof (itoa_N_digits n) as F. rewrite <- E in F. inversion F as [|? ? [d [Hd Ed]] _]; subst.
    exact (minus_not_digit d Hd Ed). }
  destruct z as [|p|p], z' as [|q|q]; cbn [itoa]; intro H; try reflexivity.
  - change (s "0") with (itoa_N 0) in H. apply itoa_N_inj in H. discriminate.
  - change (s "0") with (itoa_N 0) in H. symmetry in H. exfalso. eapply NoMinus; exact H.
  - change (s "0") with (itoa_N 0) in H. apply itoa_N_inj in H. discriminate.
  - apply itoa_N_inj in H. congruence.
  - symmetry in H. exfalso. eapply NoMinus; exact H.
  - change (s "0") with (itoa_N 0) in H. exfalso. eapply NoMinus; exact H.
  - exfalso. eapply NoMinus; exact H.
  - inversion H as [H1]. apply itoa_N_inj in H1. congruence.
Qed.

Close Scope N_scope.

(* ---- the conjugacy argument ---------------------------------------------------------------------- *)

Definition starts_ichar (x : str) : Prop := exists t rest, x = t :: rest /\ ichar t.

Lemma conj_claim (l : str) : l <> [] -> Forall ichar l ->
  forall n (m X Y : str), List.length m <= n -> Y ++ m ++ l = X ++ m -> starts_ichar (m ++ l).
Proof.
  intros Hl Fl. induction n as [|n IH]; intros m X Y Hlen E.
  - destruct m; [|cbn in Hlen; lia]. cbn [app]. destruct l as [|t r]; [congruence|].
    exists t, r. split; [reflexivity | inversion Fl; assumption].
  - rewrite app_assoc in E. apply app_eq_app in E as [q [[E1 E2]|[E1 E2]]].
    + (* m = q ++ l *)
      assert (Lq : List.length q <= n).
      { rewrite E2, app_length in Hlen. destruct l; [congruence|]. cbn in Hlen. lia. }
      rewrite E2 in E1. rewrite app_assoc in E1.
      assert (E1' : Y ++ q ++ l = X ++ q) by (rewrite app_assoc; exact E1).
      destruct (IH q X Y Lq E1') as [t [rest [Eq It]]].
      exists t, (rest ++ l). split; [|exact It]. rewrite E2, Eq. reflexivity.
    + (* l = q ++ m *)
      destruct m as [|t m'].
      * cbn [app]. destruct l as [|t r]; [congruence|]. exists t, r. split; [reflexivity | inversion Fl; assumption].
      * exists t, (m' ++ l). split; [reflexivity|]. rewrite E2 in Fl. apply Forall_app in Fl as [_ Fm]. inversion Fm; assumption.
Qed.

Lemma tail_conj (T l X Y : str) t0 T' :
  T = t0 :: T' -> ~ ichar t0 -> Forall ichar l -> X ++ T = (Y ++ T) ++ l -> l = [].
Proof.
  intros ET Nt Fl E. destruct l as [|c l'] eqn:El; [reflexivity|]. exfalso. rewrite <- El in *.
  assert (Hl : l <> []) by (rewrite El; discriminate).
  apply app_eq_app in E as [m [[E1 E2]|[E1 E2]]].
  - (* l = m ++ T *) rewrite E2 in Fl. apply Forall_app in Fl as [_ FT]. rewrite ET in FT. inversion FT. contradiction.
  - (* T = m ++ l, Y ++ T = X ++ m *)
    rewrite E2 in E1.
    destruct (conj_claim l Hl Fl (List.length m) m X Y (le_n _) E1) as [t [rest [Eq It]]].
    rewrite <- E2, ET in Eq. inversion Eq; subst. contradiction.
Qed.

(* two keys with a common separator T whose first character cannot occur in a rendered integer *)
Lemma sep_key_inj (T A A' : str) (c c' : Z) t0 T' :
  T = t0 :: T' -> ~ ichar t0 -> A ++ T ++ itoa c = A' ++ T ++ itoa c' -> A = A' /\ c = c'.
Proof.
  intros ET Nt E. rewrite !app_assoc in E.
  apply app_eq_app in E as [l [[E1 E2]|[E1 E2]]].
  - assert (Fl : Forall ichar l).
    { pose proof (itoa_chars c') as F. rewrite E2 in F. apply Forall_app in F as [F _]. exact F. }
    pose proof (tail_conj T l A A' t0 T' ET Nt Fl E1) as L. subst l. rewrite app_nil_r in E1. cbn [app] in E2.
    apply app_inv_tail in E1. split; [exact E1 | symmetry; apply itoa_inj; exact E2].
  - assert (Fl : Forall ichar l).
    { pose proof (itoa_chars c) as F. rewrite E2 in F. apply Forall_app in F as [F _]. exact F. }
    pose proof (tail_conj T l A' A t0 T' ET Nt Fl E1) as L. subst l. rewrite app_nil_r in E1. cbn [app] in E2.
    apply app_inv_tail in E1. split; [symmetry; exact E1 | apply itoa_inj; exact E2].
Qed.

Lemma underscore_not_ichar : ~ ichar "_"%char.
Proof.
  intros [[d [Hd E]]|E]; [|discriminate E].
  apply (f_equal N_of_ascii) in E. rewrite digit_code in E by exact Hd.
  change (N_of_ascii "_") with 95%N in E. lia.
Qed.
