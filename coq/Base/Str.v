(* Byte strings as lists of ascii characters; the helpers the models share. *)
From Coq Require Export List Ascii String Bool Arith ZArith NArith Lia.
Export ListNotations.

Definition str := list ascii.
Definition s (x : string) : str := list_ascii_of_string x.

Fixpoint str_eqb (a b : str) : bool :=
  match a, b with
  | [], [] => true
  | x :: a', y :: b' => Ascii.eqb x y && str_eqb a' b'
  | _, _ => false
  end.

Fixpoint prefixb (p x : str) : bool :=
  match p, x with
  | [], _ => true
  | c :: p', d :: x' => Ascii.eqb c d && prefixb p' x'
  | _ :: _, [] => false
  end.

(* decimal rendering of an integer, as strconv.FormatInt(_, 10) / fmt %d *)
Definition digit (n : N) : ascii := ascii_of_N (48 + n).

Fixpoint itoa_pos_fuel (fuel : nat) (n : N) (acc : str) : str :=
  match fuel with
  | O => acc
  | S f => let acc' := digit (n mod 10) :: acc in
           if (n / 10 =? 0)%N then acc' else itoa_pos_fuel f (n / 10) acc'
  end.

Definition itoa_N (n : N) : str := itoa_pos_fuel (S (N.to_nat (N.log2 n))) n [].

Definition itoa (z : Z) : str :=
  match z with
  | Z0 => s "0"
  | Zpos p => itoa_N (Npos p)
  | Zneg p => "-"%char :: itoa_N (Npos p)
  end.
