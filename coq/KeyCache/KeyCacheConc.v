(* Interleaving model of keyCache.GetOrLoad (read-locked fast path, write-locked load with eviction of an ARBITRARY set of
   other entries - every policy and capacity >= 1), cachedCryptoKey reference counting, and users holding / closing keys.
   [safe = true] is the order in the current tree (reference taken under the read lock); [safe = false] is the order before
   fix 8f60ea4 and is refuted by a concrete schedule. *)
From Coq Require Import List Arith ZArith Lia Bool.
Import ListNotations.
Open Scope Z_scope.

Definition obj := nat. Definition name := nat.

Record G := mkG { refs : obj -> Z; dead : obj -> bool; cache : name -> option obj;
                  wr : bool; rd : nat; nextobj : obj }.

Inductive pc :=
| Idle | RLocked (n : name) | RGot (n : name) (o : obj) | RCounted (o : obj)
| Holding (o : obj) | WWait (n : name) | WLocked (n : name) | WCounted (o : obj) | Done
| Violated.

(* choices carried by the schedule: a name, a use/close bit, an eviction list *)
Record choice := { c_name : name; c_close : bool; c_evict : list name }.

Definition upd {A} (f : nat -> A) (k : nat) (v : A) : nat -> A := fun x => if Nat.eqb x k then v else f x.

Definition decr (g : G) (o : obj) : G :=
  let r := refs g o - 1 in
  mkG (upd (refs g) o r) (if r <=? 0 then upd (dead g) o true else dead g) (cache g) (wr g) (rd g) (nextobj g).

Definition incr (g : G) (o : obj) : G :=
  mkG (upd (refs g) o (refs g o + 1)) (dead g) (cache g) (wr g) (rd g) (nextobj g).

Definition evict1 (keep : name) (g : G) (m : name) : G :=
  if Nat.eqb m keep then g else
  match cache g m with
  | None => g
  | Some x => decr (mkG (refs g) (dead g) (upd (cache g) m None) (wr g) (rd g) (nextobj g)) x
  end.

(* [safe]: the repaired GetOrLoad counts under the read lock; [safe=false]: the pinned order *)
Definition step (safe : bool) (c : choice) (g : G) (l : pc) : option (G * pc) :=
  match l with
  | Idle => if wr g then None else Some (mkG (refs g) (dead g) (cache g) false (S (rd g)) (nextobj g), RLocked (c_name c))
  | RLocked n =>
      match cache g n with
      | Some o => Some (g, RGot n o)
      | None => Some (mkG (refs g) (dead g) (cache g) (wr g) (pred (rd g)) (nextobj g), WWait n)
      end
  | RGot n o =>
      if safe then Some (incr g o, RCounted o)
      else (* pinned code: unlock first, count later (modelled as one extra state reuse: Holding after late incr) *)
        Some (mkG (refs g) (dead g) (cache g) (wr g) (pred (rd g)) (nextobj g), RCounted o)
  | RCounted o =>
      if safe then Some (mkG (refs g) (dead g) (cache g) (wr g) (pred (rd g)) (nextobj g), Holding o)
      else Some (incr g o, Holding o)
  | Holding o =>
      if c_close c then Some (decr g o, Done)
      else if dead g o then Some (g, Violated) else Some (g, Holding o)
  | WWait n => if wr g || negb (Nat.eqb (rd g) 0) then None
               else Some (mkG (refs g) (dead g) (cache g) true (rd g) (nextobj g), WLocked n)
  | WLocked n =>
      match cache g n with
      | Some o => Some (incr g o, WCounted o)
      | None =>
          let o := nextobj g in
          let g1 := mkG (upd (refs g) o 2) (dead g) (upd (cache g) n (Some o)) (wr g) (rd g) (S o) in
          Some (fold_left (evict1 n) (c_evict c) g1, WCounted o)
      end
  | WCounted o => Some (mkG (refs g) (dead g) (cache g) false (rd g) (nextobj g), Holding o)
  | Done => None
  | Violated => None
  end.

Fixpoint set_nth {A} (i : nat) (v : A) (l : list A) : list A :=
  match l, i with
  | [], _ => []
  | _ :: t, O => v :: t
  | h :: t, S i' => h :: set_nth i' v t
  end.

Definition sched := list (nat * choice).

Fixpoint run (safe : bool) (s : sched) (g : G) (ls : list pc) : G * list pc :=
  match s with
  | [] => (g, ls)
  | (i, c) :: s' =>
      match nth_error ls i with
      | None => run safe s' g ls
      | Some l => match step safe c g l with
                  | None => run safe s' g ls
                  | Some (g', l') => run safe s' g' (set_nth i l' ls)
                  end
      end
  end.

Definition g0 := mkG (fun _ => 0) (fun _ => false) (fun _ => None) false 0%nat 0%nat.

(* the pinned order is refuted by a concrete 2-thread schedule with a capacity-1 style eviction *)
Definition ch n cl ev := {| c_name := n; c_close := cl; c_evict := ev |}.
Definition bad_sched : sched :=
  [ (0%nat, ch 0%nat false []); (0%nat, ch 0%nat false []); (0%nat, ch 0%nat false []); (0%nat, ch 0%nat false []); (0%nat, ch 0%nat false []); (0%nat, ch 0%nat true []);   (* thread 0 loads name 0, closes *)
    (1%nat, ch 0%nat false []); (1%nat, ch 0%nat false []); (1%nat, ch 0%nat false []);   (* thread 1: RLock, lookup, RUnlock (uncounted) *)
    (2%nat, ch 1%nat false []); (2%nat, ch 1%nat false []); (2%nat, ch 1%nat false []); (2%nat, ch 1%nat false [0%nat]); (* thread 2 loads name 1, evicting name 0 *)
    (1%nat, ch 0%nat false []); (1%nat, ch 0%nat false []) ].  (* thread 1 counts late and uses *)
Example pinned_order_refuted : In Violated (snd (run false bad_sched g0 [Idle; Idle; Idle])).
Proof. vm_compute. tauto. Qed.
Example repaired_order_same_schedule : ~ In Violated (snd (run true bad_sched g0 [Idle; Idle; Idle])).
Proof. vm_compute. intuition discriminate. Qed.
