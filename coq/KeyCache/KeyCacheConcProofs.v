From Coq Require Import List Arith ZArith Lia Bool.
Import ListNotations.
From Asherah Require Import KeyCache.KeyCacheConc.
Open Scope Z_scope.
Arguments Z.add : simpl never.
Arguments Z.sub : simpl never.
Arguments Z.leb : simpl never.
Arguments Z.of_nat : simpl never.
Arguments Z.le : simpl never.

Definition cz (b : bool) : Z := if b then 1 else 0.
Definition counted (o : obj) (l : pc) : bool :=
  match l with RCounted o' | Holding o' | WCounted o' => Nat.eqb o' o | _ => false end.
Definition isR (l : pc) : bool := match l with RLocked _ | RGot _ _ | RCounted _ => true | _ => false end.
Definition isW (l : pc) : bool := match l with WLocked _ | WCounted _ => true | _ => false end.
Definition mentions (l : pc) (o : obj) : Prop :=
  match l with RGot _ o' | RCounted o' | Holding o' | WCounted o' => o' = o | _ => False end.

Fixpoint sumf (f : pc -> bool) (ls : list pc) : Z :=
  match ls with [] => 0 | l :: t => cz (f l) + sumf f t end.

Lemma sumf_nonneg f ls : 0 <= sumf f ls.
Proof. induction ls as [|l t IH]; cbn [sumf]; [lia|]. unfold cz; destruct (f l); lia. Qed.

Lemma sumf_in f ls l : In l ls -> f l = true -> 1 <= sumf f ls.
Proof.
  induction ls as [|h t IH]; cbn [sumf In]; [tauto|]. intros [->|Hin] Hf.
  - rewrite Hf; unfold cz. pose proof (sumf_nonneg f t). lia.
  - specialize (IH Hin Hf). unfold cz; destruct (f h); lia.
Qed.

Lemma sumf_set_nth f i l l' ls :
  nth_error ls i = Some l -> sumf f (set_nth i l' ls) = sumf f ls - cz (f l) + cz (f l').
Proof.
  revert i; induction ls as [|h t IH]; intros [|i]; cbn; try discriminate.
  - intros [= ->]. lia.
  - intros H. rewrite (IH _ H). lia.
Qed.

Lemma in_set_nth {A} i (v x : A) ls : In x (set_nth i v ls) -> x = v \/ In x ls.
Proof.
  revert i; induction ls as [|h t IH]; intros [|i]; cbn; try tauto.
  - intros [<-|H]; auto.
  - intros [<-|H]; auto. destruct (IH _ H); auto.
Qed.

Lemma in_set_nth_old {A} i (v x l : A) ls :
  nth_error ls i = Some l -> In x ls -> x = l \/ In x (set_nth i v ls).
Proof.
  revert i; induction ls as [|h t IH]; intros [|i]; cbn; try discriminate; try tauto.
  - intros [= ->] [->|H]; auto.
  - intros Hn [->|H]; auto. destruct (IH _ Hn H); auto.
Qed.

Record Inv (g : G) (ls : list pc) : Prop := {
  i_refs_c : forall o n, cache g n = Some o -> refs g o = 1 + sumf (counted o) ls;
  i_refs_u : forall o, (forall n, cache g n <> Some o) -> refs g o = sumf (counted o) ls;
  i_refs_ge : forall o, sumf (counted o) ls <= refs g o;
  i_inj : forall o n m, cache g n = Some o -> cache g m = Some o -> n = m;
  i_dead : forall o, dead g o = true -> refs g o <= 0;
  i_rd : Z.of_nat (rd g) = sumf isR ls;
  i_wr : cz (wr g) = sumf isW ls;
  i_excl : wr g = true -> rd g = 0%nat;
  i_got : forall n o, In (RGot n o) ls -> cache g n = Some o;
  i_fresh_c : forall n o, cache g n = Some o -> (o < nextobj g)%nat;
  i_fresh_l : forall l o, In l ls -> mentions l o -> (o < nextobj g)%nat;
  i_fresh_d : forall o, (nextobj g <= o)%nat -> dead g o = false;
  i_noviol : ~ In Violated ls }.

Lemma upd_same {A} (f : nat -> A) k v : upd f k v k = v.
Proof. unfold upd. now rewrite Nat.eqb_refl. Qed.
Lemma upd_other {A} (f : nat -> A) k v x : x <> k -> upd f k v x = f x.
Proof. unfold upd. intros H. destruct (Nat.eqb_spec x k); congruence. Qed.

Lemma counted_fresh g ls o : Inv g ls -> (nextobj g <= o)%nat -> sumf (counted o) ls = 0.
Proof.
  intros I Ho. pose proof (i_fresh_l _ _ I) as F. clear I.
  induction ls as [|l t IH]; cbn; [reflexivity|].
  rewrite IH by (intros; eapply F; eauto; now right).
  assert (counted o l = false) as ->; [|reflexivity].
  destruct (counted o l) eqn:E; [|reflexivity]. exfalso.
  assert (mentions l o) as M by (destruct l; cbn in *; try discriminate; apply Nat.eqb_eq in E; auto).
  specialize (F l o (or_introl eq_refl) M). lia.
Qed.

Lemma no_reader g ls l : Inv g ls -> wr g = true -> In l ls -> isR l = false.
Proof.
  intros I Hw Hin. destruct (isR l) eqn:E; [|reflexivity]. exfalso.
  pose proof (sumf_in isR ls l Hin E). rewrite <- (i_rd _ _ I), (i_excl _ _ I Hw) in H. cbn in H; lia.
Qed.

(* eviction of one name under the write lock preserves the invariant *)
Lemma evict1_inv keep g ls m : Inv g ls -> wr g = true -> Inv (evict1 keep g m) ls /\ wr (evict1 keep g m) = true
  /\ nextobj (evict1 keep g m) = nextobj g /\ cache (evict1 keep g m) keep = cache g keep.
Proof.
  intros I Hw. unfold evict1. destruct (Nat.eqb_spec m keep) as [->|Hmk].
  { split; [exact I|repeat split; auto]. }
  destruct (cache g m) as [x|] eqn:Hc.
  2:{ split; [exact I|repeat split; auto]. }
  assert (Hx : refs g x = 1 + sumf (counted x) ls) by (eapply i_refs_c; eauto).
  split.
  2:{ unfold decr; cbn. repeat split; auto. rewrite upd_other; auto. }
  unfold decr; cbn. constructor; cbn.
  - intros o n Hn. unfold upd in Hn. destruct (Nat.eqb_spec n m) as [E|Hnm]; [discriminate|].
    assert (o <> x) by (intros ->; apply Hnm; eapply i_inj; eauto).
    rewrite upd_other by auto. eapply i_refs_c; eauto.
  - intros o Hno. destruct (Nat.eq_dec o x) as [->|Hox].
    + rewrite upd_same. lia.
    + rewrite upd_other by auto. apply (i_refs_u _ _ I). intros n Hn.
      destruct (Nat.eq_dec n m) as [->|Hnm]; [congruence|].
      apply (Hno n). now rewrite upd_other.
  - intros o. destruct (Nat.eq_dec o x) as [->|Hox].
    + rewrite upd_same. lia.
    + rewrite upd_other by auto. apply (i_refs_ge _ _ I).
  - intros o n n' Hn Hn'. unfold upd in *.
    destruct (Nat.eqb n m); [discriminate|]. destruct (Nat.eqb n' m); [discriminate|]. eapply i_inj; eauto.
  - intros o Hd. destruct (Nat.eq_dec o x) as [->|Hox].
    + rewrite upd_same. destruct (Z.leb_spec (refs g x - 1) 0); [lia|].
      pose proof (i_dead _ _ I x Hd). lia.
    + rewrite upd_other by auto. apply (i_dead _ _ I).
      destruct (refs g x - 1 <=? 0); [rewrite upd_other in Hd by auto|]; auto.
  - apply (i_rd _ _ I).
  - apply (i_wr _ _ I).
  - apply (i_excl _ _ I).
  - intros n o Hin. exfalso. pose proof (no_reader _ _ _ I Hw Hin). discriminate.
  - intros n o Hn. unfold upd in Hn. destruct (Nat.eqb n m); [discriminate|]. eapply i_fresh_c; eauto.
  - apply (i_fresh_l _ _ I).
  - intros o Ho. assert (o <> x) by (pose proof (i_fresh_c _ _ I _ _ Hc); lia).
    destruct (refs g x - 1 <=? 0); [rewrite upd_other by auto|]; apply (i_fresh_d _ _ I); auto.
  - apply (i_noviol _ _ I).
Qed.

Lemma evicts_inv keep ev : forall g ls, Inv g ls -> wr g = true ->
  let g' := fold_left (evict1 keep) ev g in
  Inv g' ls /\ wr g' = true /\ nextobj g' = nextobj g /\ cache g' keep = cache g keep.
Proof.
  induction ev as [|m ev IH]; cbn; intros g ls I Hw; [split; [exact I|repeat split; auto]|].
  destruct (evict1_inv keep g ls m I Hw) as (I1 & W1 & N1 & K1).
  destruct (IH _ _ I1 W1) as (I2 & W2 & N2 & K2). split; [exact I2|repeat split; auto; congruence].
Qed.

Ltac inv_fields I :=
  pose proof (i_refs_c _ _ I) as Hrc; pose proof (i_refs_u _ _ I) as Hru; pose proof (i_refs_ge _ _ I) as Hge; pose proof (i_inj _ _ I) as Hinj;
  pose proof (i_dead _ _ I) as Hdead; pose proof (i_rd _ _ I) as Hrd; pose proof (i_wr _ _ I) as Hwr;
  pose proof (i_excl _ _ I) as Hex; pose proof (i_got _ _ I) as Hgot; pose proof (i_fresh_c _ _ I) as Hfc;
  pose proof (i_fresh_l _ _ I) as Hfl; pose proof (i_fresh_d _ _ I) as Hfd; pose proof (i_noviol _ _ I) as Hnv.

(* steps that leave refs/dead/cache/nextobj alone and do not change what the thread counts *)
Lemma frame g g' ls i l l' :
  Inv g ls -> nth_error ls i = Some l ->
  refs g' = refs g -> dead g' = dead g -> cache g' = cache g -> nextobj g' = nextobj g ->
  (forall o, counted o l' = counted o l) ->
  (forall o, mentions l' o -> mentions l o \/ exists n, cache g n = Some o) ->
  (forall n o, l' = RGot n o -> cache g n = Some o) ->
  l' <> Violated ->
  Z.of_nat (rd g') = Z.of_nat (rd g) - cz (isR l) + cz (isR l') ->
  cz (wr g') = cz (wr g) - cz (isW l) + cz (isW l') ->
  (wr g' = true -> rd g' = 0%nat) ->
  Inv g' (set_nth i l' ls).
Proof.
  intros I Hn Er Ed Ec En Hcnt Hmen Hg Hv Hr Hw Hx. pose proof (nth_error_In _ _ Hn) as Hin. inv_fields I.
  assert (SN : forall f, sumf f (set_nth i l' ls) = sumf f ls - cz (f l) + cz (f l')) by (intros; now apply sumf_set_nth).
  assert (INS : forall x, In x (set_nth i l' ls) -> x = l' \/ In x ls) by (intros x Hx'; now apply in_set_nth in Hx').
  constructor; rewrite ?Er, ?Ed, ?Ec, ?En.
  - intros o n H. rewrite SN, Hcnt, (Hrc _ _ H). lia.
  - intros o H. rewrite SN, Hcnt, (Hru _ H). lia.
  - intros o. rewrite SN, Hcnt. pose proof (Hge o). lia.
  - exact Hinj.
  - exact Hdead.
  - rewrite SN. lia.
  - rewrite SN. lia.
  - exact Hx.
  - intros n o H. destruct (INS _ H) as [E|]; [symmetry in E; eauto|eauto].
  - exact Hfc.
  - intros x o H M. destruct (INS _ H) as [->|H'].
    + destruct (Hmen _ M) as [M'|[n Hc]]; eauto.
    + eauto.
  - exact Hfd.
  - intros H. destruct (INS _ H) as [E|]; [congruence|auto].
Qed.

(* thread i starts counting a cached object o *)
Lemma incr_inv g ls i l l' o n :
  Inv g ls -> nth_error ls i = Some l -> cache g n = Some o ->
  (forall o', counted o' l = false) -> l' <> Violated -> (forall n' o', l' <> RGot n' o') ->
  (forall o', counted o' l' = Nat.eqb o o') -> (forall o', mentions l' o' -> o' = o) ->
  isR l' = isR l -> isW l' = isW l ->
  Inv (incr g o) (set_nth i l' ls).
Proof.
  intros I Hn Hc Hl Hv Hng Hl' Hm ER EW. pose proof (nth_error_In _ _ Hn) as Hin. inv_fields I.
  assert (SN : forall f, sumf f (set_nth i l' ls) = sumf f ls - cz (f l) + cz (f l')) by (intros; now apply sumf_set_nth).
  assert (INS : forall x, In x (set_nth i l' ls) -> x = l' \/ In x ls) by (intros x Hx'; now apply in_set_nth in Hx').
  unfold incr. constructor; cbn [refs dead cache wr rd nextobj].
  - intros o0 n0 H. rewrite SN, Hl, Hl'. destruct (Nat.eq_dec o0 o) as [->|Hne].
    + rewrite upd_same, Nat.eqb_refl, (Hrc _ _ Hc). unfold cz. lia.
    + rewrite upd_other by auto. destruct (Nat.eqb_spec o o0); [congruence|]. rewrite (Hrc _ _ H). unfold cz in *; lia.
  - intros o0 H. rewrite SN, Hl, Hl'. destruct (Nat.eq_dec o0 o) as [->|Hne]; [exfalso; eapply H; eauto|].
    rewrite upd_other by auto. destruct (Nat.eqb_spec o o0); [congruence|]. rewrite (Hru _ H). unfold cz in *; lia.
  - intros o0. rewrite SN, Hl, Hl'. pose proof (Hge o0). destruct (Nat.eq_dec o0 o) as [->|Hne].
    + rewrite upd_same, Nat.eqb_refl. unfold cz in *; lia.
    + rewrite upd_other by auto. destruct (Nat.eqb_spec o o0); [congruence|]. unfold cz in *; lia.
  - exact Hinj.
  - intros o0 H. destruct (Nat.eq_dec o0 o) as [->|Hne].
    + rewrite upd_same. pose proof (Hdead _ H). rewrite (Hrc _ _ Hc) in H0.
      pose proof (sumf_nonneg (counted o) ls). lia.
    + rewrite upd_other by auto. auto.
  - rewrite SN, ER. lia.
  - rewrite SN, EW. lia.
  - exact Hex.
  - intros n0 o0 H. destruct (INS _ H) as [E|]; [exfalso; eapply Hng; eauto|eauto].
  - exact Hfc.
  - intros x o0 H M. destruct (INS _ H) as [->|H']; [rewrite (Hm _ M); eauto|eauto].
  - exact Hfd.
  - intros H. destruct (INS _ H) as [E|]; [congruence|auto].
Qed.

(* one step of the repaired order preserves the invariant, for any thread, any choice *)
Theorem step_inv g ls i l c g' l' :
  Inv g ls -> nth_error ls i = Some l -> step true c g l = Some (g', l') -> Inv g' (set_nth i l' ls).
Proof.
  intros I Hn Hs. pose proof (nth_error_In _ _ Hn) as Hin. inv_fields I.
  destruct l; cbn [step] in Hs.
  - (* Idle *)
    destruct (wr g) eqn:Hw; [discriminate|]. injection Hs as <- <-.
    eapply frame; eauto; cbn; try reflexivity; try tauto; try discriminate; try rewrite Hw; unfold cz in *; try lia.
  - (* RLocked *)
    destruct (cache g n) as [o|] eqn:Hc; injection Hs as <- <-.
    + eapply frame; eauto; cbn; try reflexivity; try discriminate; try rewrite Hw; unfold cz in *; try lia.
      * intros o' <-. eauto.
      * intros n' o' [= <- <-]. exact Hc.
    + assert (1 <= sumf isR ls) by (eapply sumf_in; eauto).
      eapply frame; eauto; cbn; try reflexivity; try tauto; try discriminate; try rewrite Hw; unfold cz in *; try lia.
      intros Hw. rewrite (Hex Hw) in Hrd. cbn in Hrd. lia.
  - (* RGot n o : count under the read lock *)
    injection Hs as <- <-. pose proof (Hgot _ _ Hin) as Hc.
    eapply incr_inv; eauto; cbn; try reflexivity; try discriminate; auto.
  - (* RCounted: drop the read lock *)
    injection Hs as <- <-. assert (1 <= sumf isR ls) by (eapply sumf_in; eauto).
    eapply frame; eauto; cbn; try reflexivity; try tauto; try discriminate; try rewrite Hw; unfold cz in *; try lia.
    intros Hw. rewrite (Hex Hw) in Hrd. cbn in Hrd. lia.
  - (* Holding: use or close *)
    assert (Hcnt : 1 <= sumf (counted o) ls) by (eapply sumf_in; eauto; cbn; apply Nat.eqb_refl).
    assert (Hlive : 1 <= refs g o) by (pose proof (Hge o); lia).
    destruct (c_close c).
    + injection Hs as <- <-. unfold decr.
      assert (SN : forall f, sumf f (set_nth i Done ls) = sumf f ls - cz (f (Holding o)) + cz (f Done)) by (intros; now apply sumf_set_nth).
      assert (INS : forall x, In x (set_nth i Done ls) -> x = Done \/ In x ls) by (intros x Hx'; now apply in_set_nth in Hx').
      constructor; cbn [refs dead cache wr rd nextobj].
      * intros o0 n0 H. rewrite SN. cbn [counted]. destruct (Nat.eq_dec o0 o) as [->|Hne].
        -- rewrite upd_same, Nat.eqb_refl, (Hrc _ _ H). unfold cz in *; lia.
        -- rewrite upd_other by auto. destruct (Nat.eqb_spec o o0); [congruence|]. rewrite (Hrc _ _ H). unfold cz in *; lia.
      * intros o0 H. rewrite SN. cbn [counted]. destruct (Nat.eq_dec o0 o) as [->|Hne].
        -- rewrite upd_same, Nat.eqb_refl, (Hru _ H). unfold cz in *; lia.
        -- rewrite upd_other by auto. destruct (Nat.eqb_spec o o0); [congruence|]. rewrite (Hru _ H). unfold cz in *; lia.
      * intros o0. rewrite SN. cbn [counted]. pose proof (Hge o0). destruct (Nat.eq_dec o0 o) as [->|Hne].
        -- rewrite upd_same, Nat.eqb_refl. unfold cz in *; lia.
        -- rewrite upd_other by auto. destruct (Nat.eqb_spec o o0); [congruence|]. unfold cz in *; lia.
      * exact Hinj.
      * intros o0 H. destruct (Nat.eq_dec o0 o) as [->|Hne].
        -- rewrite upd_same. destruct (Z.leb_spec (refs g o - 1) 0); [lia|]. pose proof (Hdead _ H). lia.
        -- rewrite upd_other by auto. apply Hdead. destruct (refs g o - 1 <=? 0); [rewrite upd_other in H by auto|]; auto.
      * rewrite SN. cbn [isR]. unfold cz in *; lia.
      * rewrite SN. cbn [isW]. unfold cz in *; lia.
      * exact Hex.
      * intros n0 o0 H. destruct (INS _ H) as [E|]; [discriminate|eauto].
      * exact Hfc.
      * intros x o0 H M. destruct (INS _ H) as [->|H']; [contradiction|eauto].
      * intros o0 Ho. assert (o0 <> o) by (pose proof (Hfl _ o Hin eq_refl); lia).
        destruct (refs g o - 1 <=? 0); [rewrite upd_other by auto|]; auto.
      * intros H. destruct (INS _ H); [discriminate|auto].
    + destruct (dead g o) eqn:Hd; [pose proof (Hdead _ Hd); lia|].
      injection Hs as <- <-.
      eapply frame; eauto; cbn; try reflexivity; try tauto; try discriminate; try rewrite Hw; unfold cz in *; try lia.
  - (* WWait: take the write lock *)
    destruct (wr g) eqn:Hw; [discriminate|]. destruct (Nat.eqb_spec (rd g) 0) as [Hr0|]; [|discriminate]. cbn in Hs.
    injection Hs as <- <-.
    eapply frame; eauto; cbn; try reflexivity; try tauto; try discriminate; try rewrite Hw; unfold cz in *; try lia.
  - (* WLocked: hit under the write lock, or load + arbitrary evictions *)
    assert (Hw : wr g = true).
    { destruct (wr g); [reflexivity|]. assert (1 <= sumf isW ls) by (eapply sumf_in; eauto). cbn in Hwr; lia. }
    destruct (cache g n) as [o|] eqn:Hc.
    + injection Hs as <- <-.
      eapply incr_inv; eauto; cbn; try reflexivity; try discriminate; auto.
    + injection Hs as <- <-.
      set (o := nextobj g).
      set (g1 := mkG (upd (refs g) o 2) (dead g) (upd (cache g) n (Some o)) (wr g) (rd g) (S o)).
      assert (Z0 : sumf (counted o) ls = 0) by (eapply counted_fresh; eauto).
      assert (Hnc : forall m, cache g m <> Some o) by (intros m Hm; pose proof (Hfc _ _ Hm); unfold o in *; lia).
      assert (SN : forall f, sumf f (set_nth i (WCounted o) ls) = sumf f ls - cz (f (WLocked n)) + cz (f (WCounted o))) by (intros; now apply sumf_set_nth).
      assert (INS : forall x, In x (set_nth i (WCounted o) ls) -> x = WCounted o \/ In x ls) by (intros x Hx'; now apply in_set_nth in Hx').
      assert (I1 : Inv g1 (set_nth i (WCounted o) ls)).
      { constructor; cbn [refs dead cache wr rd nextobj g1].
        - intros o0 n0 H. rewrite SN. cbn [counted]. unfold upd in H. destruct (Nat.eqb_spec n0 n) as [E|Hne].
          + injection H as <-. rewrite upd_same, Nat.eqb_refl, Z0. unfold cz in *; lia.
          + assert (o0 <> o) by (intros ->; eapply Hnc; eauto).
            rewrite upd_other by auto. destruct (Nat.eqb_spec o o0); [congruence|]. rewrite (Hrc _ _ H). unfold cz in *; lia.
        - intros o0 H. rewrite SN. cbn [counted].
          assert (o0 <> o) by (intros ->; apply (H n); apply upd_same).
          rewrite upd_other by auto. destruct (Nat.eqb_spec o o0); [congruence|].
          rewrite Hru; [unfold cz in *; lia|]. intros m Hm. destruct (Nat.eq_dec m n) as [->|]; [congruence|].
          apply (H m). now rewrite upd_other.
        - intros o0. rewrite SN. cbn [counted]. pose proof (Hge o0). destruct (Nat.eq_dec o0 o) as [->|Hne].
          + rewrite upd_same, Nat.eqb_refl, Z0. unfold cz in *; lia.
          + rewrite upd_other by auto. destruct (Nat.eqb_spec o o0); [congruence|]. unfold cz in *; lia.
        - intros o0 n0 m H H0. unfold upd in H, H0.
          destruct (Nat.eqb_spec n0 n) as [->|]; destruct (Nat.eqb_spec m n) as [->|]; auto.
          + injection H as <-. exfalso; eapply Hnc; eauto.
          + injection H0 as <-. exfalso; eapply Hnc; eauto.
          + eapply Hinj; eauto.
        - intros o0 H. destruct (Nat.eq_dec o0 o) as [->|Hne].
          + rewrite (Hfd o) in H by (unfold o; lia). discriminate.
          + rewrite upd_other by auto. auto.
        - rewrite SN. cbn [isR]. unfold cz in *; lia.
        - rewrite SN. cbn [isW]. unfold cz in *; lia.
        - exact Hex.
        - intros n0 o0 H. destruct (INS _ H) as [E|H']; [discriminate|]. exfalso.
          pose proof (no_reader _ _ _ I Hw H'). discriminate.
        - intros n0 o0 H. unfold upd in H. destruct (Nat.eqb n0 n); [injection H as <-; lia|]. pose proof (Hfc _ _ H). lia.
        - intros x o0 H M. destruct (INS _ H) as [->|H']; [cbn in M; subst; lia|]. pose proof (Hfl _ _ H' M). lia.
        - intros o0 Ho. apply Hfd. unfold o in *. lia.
        - intros H. destruct (INS _ H); [discriminate|auto]. }
      destruct (evicts_inv n (c_evict c) g1 _ I1 Hw) as (I2 & _). exact I2.
  - (* WCounted: drop the write lock *)
    assert (Hw : wr g = true).
    { destruct (wr g); [reflexivity|]. assert (1 <= sumf isW ls) by (eapply sumf_in; eauto). cbn in Hwr; lia. }
    injection Hs as <- <-.
    eapply frame; eauto; cbn; try reflexivity; try tauto; try discriminate; try rewrite Hw; unfold cz in *; try lia.
  - discriminate.
  - discriminate.
Qed.

Lemma inv0 n : Inv g0 (repeat Idle n).
Proof.
  assert (S0 : forall f, f Idle = false -> sumf f (repeat Idle n) = 0).
  { intros f Hf. induction n; cbn; [reflexivity|]. rewrite Hf, IHn. reflexivity. }
  assert (IN : forall x, In x (repeat Idle n) -> x = Idle) by (intros x H; now apply repeat_spec in H).
  constructor; cbn; intros; rewrite ?S0 by reflexivity; try discriminate; try reflexivity; try lia.
  - apply IN in H. discriminate.
  - apply IN in H. subst. contradiction.
  - intros H. apply IN in H. discriminate.
Qed.

Lemma set_nth_length {A} i (v : A) ls : length (set_nth i v ls) = length ls.
Proof. revert i; induction ls; intros [|i]; cbn; auto. Qed.

(* every reachable state, any number of threads, any schedule, any evictions *)
Theorem run_inv s : forall g ls, Inv g ls -> Inv (fst (run true s g ls)) (snd (run true s g ls)).
Proof.
  induction s as [|[i c] s IH]; cbn; intros g ls I; [exact I|].
  destruct (nth_error ls i) as [l|] eqn:Hn; [|auto].
  destruct (step true c g l) as [[g' l']|] eqn:Hs; [|auto].
  apply IH. eapply step_inv; eauto.
Qed.

Theorem no_use_after_destroy n s : ~ In Violated (snd (run true s g0 (repeat Idle n))).
Proof. apply (i_noviol _ _ (run_inv s _ _ (inv0 n))). Qed.


(* what the invariant gives besides safety: an object's reference count is exactly the cache's reference (if cached)
   plus the holders', and destruction happens only at zero *)
Theorem refcount_accounting n s :
  let st := run true s g0 (repeat Idle n) in
  (forall o m, cache (fst st) m = Some o -> refs (fst st) o = 1 + sumf (counted o) (snd st)) /\
  (forall o, (forall m, cache (fst st) m <> Some o) -> refs (fst st) o = sumf (counted o) (snd st)) /\
  (forall o, dead (fst st) o = true -> refs (fst st) o <= 0).
Proof.
  cbv zeta. pose proof (run_inv s _ _ (inv0 n)) as I.
  split; [exact (i_refs_c _ _ I) | split; [exact (i_refs_u _ _ I) | exact (i_dead _ _ I)]].
Qed.
