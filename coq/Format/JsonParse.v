(* A reader written from the documented JSON shape (Format/Json.v), and the round trip: it recovers every key record and every data row
   record from what the documented-shape printer emits - which, by the byte-for-byte correspondence, is what the SDK emits.  The reader
   accepts exactly the printer's layout (field order, no white space); ids are arbitrary byte strings. *)
From Asherah Require Import Base.Str Base.StrLemmas Format.Base64 Format.Json.
From Coq Require Import List NArith ZArith Ascii String Lia.
Import ListNotations.

(* ---- literals ------------------------------------------------------------------------------------------------------------------ *)
Fixpoint strip (p x : str) : option str :=
  match p, x with
  | [], _ => Some x
  | c :: p', d :: x' => if Ascii.eqb c d then strip p' x' else None
  | _ :: _, [] => None
  end.
Lemma strip_app p r : strip p (p ++ r) = Some r.
Proof. induction p as [|c p IH]; cbn [strip app]; [reflexivity|]. rewrite Ascii.eqb_refl. exact IH. Qed.

(* ---- integers -------------------------------------------------------------------------------------------------------------------- *)
Definition is_digit (c : ascii) : bool := let n := N_of_ascii c in ((48 <=? n) && (n <=? 57))%N.
Fixpoint span_digits (x : str) : str * str :=
  match x with
  | c :: t => if is_digit c then let (d, r) := span_digits t in (c :: d, r) else ([], x)
  | [] => ([], [])
  end.
Definition parse_nat (x : str) : option (N * str) :=
  let (d, r) := span_digits x in match d with [] => None | _ => Some (val d 0, r) end.
Definition parse_int (x : str) : option (Z * str) :=
  match x with
  | "-"%char :: t => match parse_nat t with Some (n, r) => Some ((- Z.of_N n)%Z, r) | None => None end
  | _ => match parse_nat x with Some (n, r) => Some (Z.of_N n, r) | None => None end
  end.

(* what may follow a number: anything but a digit *)
Definition no_digit_head (r : str) : Prop := match r with c :: _ => is_digit c = false | [] => True end.

Lemma is_digit_digit d : (d < 10)%N -> is_digit (digit d) = true.
Proof. intro H. unfold is_digit. rewrite digit_code by exact H. cbn zeta. apply andb_true_intro. split; apply N.leb_le; lia. Qed.

Lemma span_digits_app d r : Forall (fun ch => exists k, (k < 10)%N /\ ch = digit k) d -> no_digit_head r -> span_digits (d ++ r) = (d, r).
Proof.
  intros Hd Hr. induction Hd as [|c d [k [Hk ->]] _ IH]; cbn [app span_digits].
  - destruct r as [|c t]; [reflexivity|]. unfold no_digit_head in Hr. cbn [span_digits]. rewrite Hr. reflexivity.
  - rewrite is_digit_digit by exact Hk. rewrite IH. reflexivity.
Qed.

Lemma itoa_fuel_nonempty f n acc : acc <> [] -> itoa_pos_fuel f n acc <> [].
Proof.
  revert n acc. induction f as [|f IH]; intros n acc Ha; cbn [itoa_pos_fuel]; [exact Ha|].
  destruct (n / 10 =? 0)%N; [discriminate | apply IH; discriminate].
Qed.
Lemma itoa_N_nonempty n : itoa_N n <> [].
Proof. unfold itoa_N. cbn [itoa_pos_fuel]. destruct (n / 10 =? 0)%N; [discriminate | apply itoa_fuel_nonempty; discriminate]. Qed.

Lemma parse_nat_itoa n r : no_digit_head r -> parse_nat (itoa_N n ++ r) = Some (n, r).
Proof.
  intro Hr. unfold parse_nat. rewrite (span_digits_app _ r (itoa_N_digits n) Hr).
  pose proof (itoa_N_nonempty n) as NE. destruct (itoa_N n) as [|c t] eqn:E; [contradiction|]. rewrite <- E, itoa_N_val. reflexivity.
Qed.

Lemma itoa_N_head_not_minus n t : itoa_N n = "-"%char :: t -> False.
Proof.
  intro E. pose proof (itoa_N_digits n) as F. rewrite E in F. inversion F as [|? ? [d [Hd Ed]] _]; subst. exact (minus_not_digit d Hd Ed).
Qed.

Lemma parse_int_nonminus x : (forall t, x <> "-"%char :: t) ->
  parse_int x = match parse_nat x with Some (n, r) => Some (Z.of_N n, r) | None => None end.
Proof.
  intro H. destruct x as [|c t]; [reflexivity|].
  destruct c as [[|] [|] [|] [|] [|] [|] [|] [|]]; try reflexivity. exfalso. eapply H. reflexivity.
Qed.

Lemma itoa_N_app_not_minus n r t : itoa_N n ++ r <> "-"%char :: t.
Proof.
  intro E. destruct (itoa_N n) as [|c' t'] eqn:E0; [exact (itoa_N_nonempty n E0)|]. cbn in E. injection E as -> _.
  exact (itoa_N_head_not_minus n t' E0).
Qed.

Theorem parse_int_itoa z r : no_digit_head r -> parse_int (itoa z ++ r) = Some (z, r).
Proof.
  intro Hr. destruct z as [|p|p].
  - rewrite itoa_zero. rewrite parse_int_nonminus by (intro t; apply itoa_N_app_not_minus). rewrite (parse_nat_itoa 0 r Hr). reflexivity.
  - cbn [itoa]. rewrite parse_int_nonminus by (intro t; apply itoa_N_app_not_minus). rewrite (parse_nat_itoa _ r Hr). reflexivity.
  - cbn [itoa app]. unfold parse_int. rewrite (parse_nat_itoa _ r Hr). reflexivity.
Qed.

(* ---- strings ------------------------------------------------------------------------------------------------------------------- *)
Definition hexval (c : ascii) : option N :=
  let n := N_of_ascii c in
  if ((48 <=? n) && (n <=? 57))%N then Some (n - 48)%N
  else if ((97 <=? n) && (n <=? 102))%N then Some (n - 87)%N else None.

Definition quote : ascii := """"%char.
Definition bslash : ascii := "\"%char.

(* one (possibly escaped) character of a string body; None at the closing quote or on a malformed escape *)
Definition parse_char (x : str) : option (ascii * str) :=
  match x with
  | c :: t =>
      if Ascii.eqb c quote then None
      else if Ascii.eqb c bslash then
        match t with
        | e :: t' =>
            if Ascii.eqb e quote then Some (quote, t')
            else if Ascii.eqb e bslash then Some (bslash, t')
            else if Ascii.eqb e "n"%char then Some (ascii_of_N 10, t')
            else if Ascii.eqb e "r"%char then Some (ascii_of_N 13, t')
            else if Ascii.eqb e "t"%char then Some (ascii_of_N 9, t')
            else if Ascii.eqb e "u"%char then
              match t' with
              | z1 :: z2 :: h1 :: h2 :: t'' =>
                  if Ascii.eqb z1 "0"%char && Ascii.eqb z2 "0"%char then
                    match hexval h1, hexval h2 with
                    | Some a, Some b => Some (ascii_of_N (16 * a + b), t'')
                    | _, _ => None
                    end
                  else None
              | _ => None
              end
            else None
        | [] => None
        end
      else Some (c, t)
  | [] => None
  end.

Fixpoint parse_body (fuel : nat) (x : str) : option (str * str) :=
  match fuel with
  | O => None
  | S f =>
      match x with
      | c :: t =>
          if Ascii.eqb c quote then Some ([], t)
          else match parse_char x with
               | Some (d, t') => match parse_body f t' with Some (r, t'') => Some (d :: r, t'') | None => None end
               | None => None
               end
      | [] => None
      end
  end.

Definition parse_string (x : str) : option (str * str) :=
  match x with
  | c :: t => if Ascii.eqb c quote then parse_body (S (List.length t)) t else None
  | [] => None
  end.

(* every character, escaped the way Go escapes it, reads back as itself, whatever follows; and an escape never starts with a quote *)
Lemma parse_char_esc c r : parse_char (esc_char c ++ r) = Some (c, r).
Proof. destruct c as [[|] [|] [|] [|] [|] [|] [|] [|]]; vm_compute; reflexivity. Qed.

Lemma esc_head_not_quote c r : exists h t, esc_char c ++ r = h :: t /\ Ascii.eqb h quote = false.
Proof. destruct c as [[|] [|] [|] [|] [|] [|] [|] [|]]; vm_compute; eexists; eexists; split; reflexivity. Qed.

Lemma parse_body_esc x r : forall fuel, (List.length x < fuel)%nat -> parse_body fuel (flat_map esc_char x ++ quote :: r) = Some (x, r).
Proof.
  induction x as [|c x IH]; intros fuel Hf.
  - destruct fuel as [|f]; [lia|]. cbn [flat_map app parse_body]. unfold quote at 2. rewrite Ascii.eqb_refl. reflexivity.
  - destruct fuel as [|f]; [cbn in Hf; lia|]. cbn [flat_map]. rewrite <- app_assoc.
    destruct (esc_head_not_quote c (flat_map esc_char x ++ quote :: r)) as [h [t [E Hh]]].
    cbn [parse_body]. rewrite E. rewrite Hh. rewrite <- E. rewrite parse_char_esc. rewrite IH by (cbn in Hf; lia). reflexivity.
Qed.

Lemma flat_map_esc_length x : (List.length x <= List.length (flat_map esc_char x))%nat.
Proof.
  induction x as [|c x IH]; [cbn; lia|]. cbn [flat_map]. rewrite app_length.
  destruct (esc_head_not_quote c []) as [h [t [E _]]]. rewrite app_nil_r in E. rewrite E.
  change (List.length (c :: x)) with (S (List.length x)). change (List.length (h :: t)) with (S (List.length t)). lia.
Qed.

Theorem parse_string_json x r : parse_string (json_string x ++ r) = Some (x, r).
Proof.
  unfold json_string. change (s """") with [quote]. cbn [app parse_string]. unfold quote at 1. rewrite Ascii.eqb_refl.
  rewrite <- app_assoc. cbn [app]. apply parse_body_esc.
  rewrite app_length. pose proof (flat_map_esc_length x). change (List.length (quote :: r)) with (S (List.length r)). lia.
Qed.

(* ---- base64 byte fields ------------------------------------------------------------------------------------------------------ *)
Fixpoint span_to_quote (x : str) : option (str * str) :=
  match x with
  | [] => None
  | c :: t => if Ascii.eqb c quote then Some ([], t)
              else match span_to_quote t with Some (a, r) => Some (c :: a, r) | None => None end
  end.
Definition parse_bytes (x : str) : option (list N * str) :=
  match x with
  | c :: t =>
      if Ascii.eqb c quote then
        match span_to_quote t with
        | Some (a, r) => match decode (map N_of_ascii a) with Some b => Some (b, r) | None => None end
        | None => None
        end
      else None
  | [] => None
  end.

Lemma enc_char_ok x : (enc_char x <> 34 /\ enc_char x < 256)%N.
Proof.
  unfold enc_char. destruct (x <? 26)%N eqn:A; [apply N.ltb_lt in A; lia|]. destruct (x <? 52)%N eqn:B; [apply N.ltb_lt in B; apply N.ltb_ge in A; lia|].
  destruct (x <? 62)%N eqn:C; [apply N.ltb_lt in C; apply N.ltb_ge in B; lia|]. destruct (x =? 62)%N; lia.
Qed.
Lemma encode_ok : forall l, Forall (fun n => n <> 34 /\ n < 256)%N (encode l).
Proof.
  fix IH 1. intro l. destruct l as [|a [|b [|c r]]]; cbn [encode]; repeat constructor; try apply enc_char_ok; try (unfold pad; lia). apply IH.
Qed.

Lemma span_to_quote_app l r : Forall (fun n => n <> 34 /\ n < 256)%N l -> span_to_quote (bytes_to_str l ++ quote :: r) = Some (bytes_to_str l, r).
Proof.
  intro H. induction H as [|n l [Hn Hb] _ IH]; cbn [bytes_to_str map app span_to_quote].
  - unfold quote. rewrite Ascii.eqb_refl. reflexivity.
  - fold (bytes_to_str l). rewrite IH.
    assert (Ascii.eqb (ascii_of_N n) quote = false) as ->; [|reflexivity].
    apply Ascii.eqb_neq. intro E. apply (f_equal N_of_ascii) in E. rewrite N_ascii_embedding in E by exact Hb. apply Hn. exact E.
Qed.
Lemma codes_back l : Forall (fun n => n <> 34 /\ n < 256)%N l -> map N_of_ascii (bytes_to_str l) = l.
Proof.
  intro H. induction H as [|n l [_ Hb] _ IH]; [reflexivity|]. cbn [bytes_to_str map]. fold (bytes_to_str l). rewrite IH, N_ascii_embedding by exact Hb. reflexivity.
Qed.

Theorem parse_bytes_json b r : Forall byte_ok b -> parse_bytes (json_bytes b ++ r) = Some (b, r).
Proof.
  intro Hb. unfold json_bytes. change (s """") with [quote]. cbn [app parse_bytes]. unfold quote at 1. rewrite Ascii.eqb_refl.
  rewrite <- app_assoc. cbn [app]. rewrite (span_to_quote_app _ r (encode_ok b)). rewrite (codes_back _ (encode_ok b)).
  rewrite (decode_encode b Hb). reflexivity.
Qed.

(* ---- records -------------------------------------------------------------------------------------------------------------------- *)
Definition bind {A B} (o : option A) (f : A -> option B) : option B := match o with Some a => f a | None => None end.

Definition parse_meta (x : str) : option (jmeta * str) :=
  bind (strip (s "{""KeyId"":") x) (fun x =>
  bind (parse_string x) (fun '(id, x) =>
  bind (strip (s ",""Created"":") x) (fun x =>
  bind (parse_int x) (fun '(c, x) =>
  bind (strip (s "}") x) (fun x => Some ({| jm_id := id; jm_created := c |}, x)))))).

Definition parse_ekr (x : str) : option (jekr * str) :=
  bind (strip (s "{") x) (fun x =>
  let '(rev, x) := match strip (s """Revoked"":true,") x with Some x' => (true, x') | None => (false, x) end in
  bind (strip (s """Created"":") x) (fun x =>
  bind (parse_int x) (fun '(c, x) =>
  bind (strip (s ",""Key"":") x) (fun x =>
  bind (parse_bytes x) (fun '(k, x) =>
  match strip (s ",""ParentKeyMeta"":") x with
  | Some x' => bind (parse_meta x') (fun '(m, x) =>
               bind (strip (s "}") x) (fun x => Some ({| je_revoked := rev; je_created := c; je_key := k; je_parent := Some m |}, x)))
  | None => bind (strip (s "}") x) (fun x => Some ({| je_revoked := rev; je_created := c; je_key := k; je_parent := None |}, x))
  end))))).

Definition parse_drr (x : str) : option (jdrr * str) :=
  bind (strip (s "{""Key"":") x) (fun x =>
  bind (match strip (s "null") x with
        | Some x' => Some (None, x')
        | None => bind (parse_ekr x) (fun '(k, x) => Some (Some k, x))
        end) (fun '(k, x) =>
  bind (strip (s ",""Data"":") x) (fun x =>
  bind (match strip (s "null") x with
        | Some x' => Some (None, x')
        | None => bind (parse_bytes x) (fun '(d, x) => Some (Some d, x))
        end) (fun '(d, x) =>
  bind (strip (s "}") x) (fun x => Some ({| jd_key := k; jd_data := d |}, x)))))).

Definition ekr_ok (r : jekr) : Prop := Forall byte_ok (je_key r).
Definition drr_ok (d : jdrr) : Prop :=
  match jd_key d with Some k => ekr_ok k | None => True end /\ match jd_data d with Some b => Forall byte_ok b | None => True end.

Theorem parse_print_meta m r : parse_meta (print_meta m ++ r) = Some (m, r).
Proof.
  unfold print_meta, parse_meta. rewrite <- !app_assoc. rewrite strip_app. cbn [bind]. rewrite parse_string_json. cbn [bind].
  rewrite strip_app. cbn [bind]. rewrite parse_int_itoa by (cbn; reflexivity). cbn [bind]. rewrite strip_app. cbn [bind]. destruct m; reflexivity.
Qed.

Lemma strip_mismatch p c d x y : Ascii.eqb c d = false -> strip (p ++ c :: x) (p ++ d :: y) = None.
Proof. intro H. induction p as [|a p IH]; cbn [app strip]; [rewrite H; reflexivity | rewrite Ascii.eqb_refl; exact IH]. Qed.

Theorem parse_print_ekr k r : ekr_ok k -> parse_ekr (print_ekr k ++ r) = Some (k, r).
Proof.
  intro Hk. unfold ekr_ok in Hk. destruct k as [rev c key par]. cbn [je_key] in Hk.
  unfold print_ekr, parse_ekr. cbn [je_revoked je_created je_key je_parent].
  rewrite <- ?app_assoc. rewrite strip_app. cbn [bind].
  destruct rev.
  - rewrite <- ?app_assoc. rewrite strip_app. rewrite strip_app. cbn [bind]. rewrite parse_int_itoa by (cbn; reflexivity). cbn [bind].
    rewrite strip_app. cbn [bind]. rewrite (parse_bytes_json key _ Hk). cbn [bind].
    destruct par as [m|].
    + rewrite <- ?app_assoc. rewrite strip_app. rewrite parse_print_meta. cbn [bind]. rewrite strip_app. reflexivity.
    + cbn [app]. change (strip (s ",""ParentKeyMeta"":") (s "}" ++ r)) with (@None str). cbv iota. rewrite strip_app. reflexivity.
  - cbn [app]. change (strip (s """Revoked"":true,") (s """Created"":" ++ itoa c ++ s ",""Key"":" ++ json_bytes key ++ (match par with Some m => s ",""ParentKeyMeta"":" ++ print_meta m | None => [] end) ++ s "}" ++ r))
      with (strip ([quote] ++ "R"%char :: s "evoked"":true,") ([quote] ++ "C"%char :: s "reated"":" ++ itoa c ++ s ",""Key"":" ++ json_bytes key ++ (match par with Some m => s ",""ParentKeyMeta"":" ++ print_meta m | None => [] end) ++ s "}" ++ r)).
    rewrite strip_mismatch by reflexivity. rewrite strip_app. cbn [bind]. rewrite parse_int_itoa by (cbn; reflexivity). cbn [bind].
    rewrite strip_app. cbn [bind]. rewrite (parse_bytes_json key _ Hk). cbn [bind].
    destruct par as [m|].
    + rewrite <- ?app_assoc. rewrite strip_app. rewrite parse_print_meta. cbn [bind]. rewrite strip_app. reflexivity.
    + cbn [app]. change (strip (s ",""ParentKeyMeta"":") (s "}" ++ r)) with (@None str). cbv iota. rewrite strip_app. reflexivity.
Qed.

Lemma print_ekr_head k : exists t, print_ekr k = "{"%char :: t.
Proof. unfold print_ekr. eexists. reflexivity. Qed.
Lemma json_bytes_head b : exists t, json_bytes b = quote :: t.
Proof. unfold json_bytes. eexists. reflexivity. Qed.

Theorem parse_print_drr d r : drr_ok d -> parse_drr (print_drr d ++ r) = Some (d, r).
Proof.
  intros [Hk Hd]. destruct d as [key data]. cbn [jd_key jd_data] in *.
  unfold print_drr, parse_drr. cbn [jd_key jd_data]. rewrite <- ?app_assoc. rewrite strip_app. cbn [bind].
  destruct key as [k|].
  - destruct (print_ekr_head k) as [t Et].
    assert (strip (s "null") (print_ekr k ++ s ",""Data"":" ++ (match data with Some b => json_bytes b | None => s "null" end) ++ s "}" ++ r) = None) as ->.
    { rewrite Et. reflexivity. }
    rewrite (parse_print_ekr k _ Hk). cbn [bind]. rewrite strip_app. cbn [bind].
    destruct data as [b|].
    + destruct (json_bytes_head b) as [t2 Et2].
      assert (strip (s "null") (json_bytes b ++ s "}" ++ r) = None) as -> by (rewrite Et2; reflexivity).
      rewrite (parse_bytes_json b _ Hd). cbn [bind]. rewrite strip_app. reflexivity.
    + rewrite strip_app. cbn [bind]. rewrite strip_app. reflexivity.
  - rewrite strip_app. cbn [bind]. rewrite strip_app. cbn [bind].
    destruct data as [b|].
    + destruct (json_bytes_head b) as [t2 Et2].
      assert (strip (s "null") (json_bytes b ++ s "}" ++ r) = None) as -> by (rewrite Et2; reflexivity).
      rewrite (parse_bytes_json b _ Hd). cbn [bind]. rewrite strip_app. reflexivity.
    + rewrite strip_app. cbn [bind]. rewrite strip_app. reflexivity.
Qed.

(* whole documents *)
Definition read_ekr (x : str) : option jekr := match parse_ekr x with Some (k, []) => Some k | _ => None end.
Definition read_drr (x : str) : option jdrr := match parse_drr x with Some (d, []) => Some d | _ => None end.

Theorem read_print_ekr k : ekr_ok k -> read_ekr (print_ekr k) = Some k.
Proof. intro H. unfold read_ekr. rewrite <- (app_nil_r (print_ekr k)). rewrite (parse_print_ekr k [] H). reflexivity. Qed.
Theorem read_print_drr d : drr_ok d -> read_drr (print_drr d) = Some d.
Proof. intro H. unfold read_drr. rewrite <- (app_nil_r (print_drr d)). rewrite (parse_print_drr d [] H). reflexivity. Qed.

(* hence the documented shape is unambiguous: two records with the same JSON are the same record *)
Corollary print_drr_inj d d' : drr_ok d -> drr_ok d' -> print_drr d = print_drr d' -> d = d'.
Proof. intros H H' E. pose proof (read_print_drr d H) as R. rewrite E, (read_print_drr d' H') in R. injection R as ->. reflexivity. Qed.
Corollary print_ekr_inj k k' : ekr_ok k -> ekr_ok k' -> print_ekr k = print_ekr k' -> k = k'.
Proof. intros H H' E. pose proof (read_print_ekr k H) as R. rewrite E, (read_print_ekr k' H') in R. injection R as ->. reflexivity. Qed.

(* a record with every optional part, ids with quotes, backslashes, control characters and HTML-sensitive characters, negative stamps *)
Example read_print_example :
  let m := {| jm_id := s "_SK_a""b\<c>&" ++ [ascii_of_N 1; ascii_of_N 10; ascii_of_N 127]; jm_created := (-5)%Z |} in
  let k := {| je_revoked := true; je_created := 1790000000%Z; je_key := [0; 255; 7; 200]%N; je_parent := Some m |} in
  let d := {| jd_key := Some k; jd_data := Some [1; 2]%N |} in
  read_drr (print_drr d) = Some d /\ read_drr (print_drr {| jd_key := None; jd_data := None |}) = Some {| jd_key := None; jd_data := None |}.
Proof. split; vm_compute; reflexivity. Qed.
