(* The AES-256-GCM ciphertext layout: ciphertext || 16-byte tag || 12-byte nonce. *)
From Coq Require Import List Arith Lia.
Import ListNotations.

Definition tag_size : nat := 16.
Definition nonce_size : nat := 12.

Definition join {A} (ct tag nonce : list A) : list A := ct ++ tag ++ nonce.

(* what an independent reader does with a blob: the last 12 bytes are the nonce, the 16 before them the tag *)
Definition split {A} (blob : list A) : option (list A * list A * list A) :=
  let n := length blob in
  if n <? tag_size + nonce_size then None
  else
    let body := firstn (n - nonce_size) blob in
    Some (firstn (n - nonce_size - tag_size) body, skipn (n - nonce_size - tag_size) body, skipn (n - nonce_size) blob).

Lemma firstn_exact {A} (a b : list A) : firstn (length a) (a ++ b) = a.
Proof. induction a as [|x a IH]; cbn; [destruct b; reflexivity | f_equal; exact IH]. Qed.

Lemma skipn_exact {A} (a b : list A) : skipn (length a) (a ++ b) = b.
Proof. induction a as [|x a IH]; cbn; [reflexivity | exact IH]. Qed.

Theorem split_join {A} (ct tag nonce : list A) :
  length tag = tag_size -> length nonce = nonce_size -> split (join ct tag nonce) = Some (ct, tag, nonce).
Proof.
  intros Ht Hn. unfold split, join. rewrite !app_length, Ht, Hn.
  destruct (length ct + (tag_size + nonce_size) <? tag_size + nonce_size) eqn:E; [apply Nat.ltb_lt in E; lia|].
  replace (length ct + (tag_size + nonce_size) - nonce_size) with (length (ct ++ tag)) by (rewrite app_length, Ht; lia).
  rewrite app_assoc. rewrite firstn_exact, skipn_exact.
  replace (length (ct ++ tag) - tag_size) with (length ct) by (rewrite app_length, Ht; lia).
  rewrite firstn_exact, skipn_exact. reflexivity.
Qed.

(* a blob shorter than tag + nonce is not a ciphertext; the empty plaintext is exactly 28 bytes and IS one *)
Theorem split_empty_plaintext {A} (tag nonce : list A) :
  length tag = tag_size -> length nonce = nonce_size -> split (join [] tag nonce) = Some ([], tag, nonce).
Proof. intros. apply split_join; assumption. Qed.
