(* Standard base64 (RFC 4648, with padding) over bytes represented as N < 256; round trip proved for all byte lists. *)
From Coq Require Import List ZArith NArith Bool Lia ZifyN ZifyBool.
Import ListNotations.
Open Scope N_scope.
Ltac Zify.zify_post_hook ::= Z.div_mod_to_equations.

Definition byte_ok (b : N) : Prop := b < 256.

(* sextet -> character code *)
Definition enc_char (s : N) : N :=
  if s <? 26 then 65 + s                 (* A-Z *)
  else if s <? 52 then 97 + (s - 26)     (* a-z *)
  else if s <? 62 then 48 + (s - 52)     (* 0-9 *)
  else if s =? 62 then 43                (* + *)
  else 47.                               (* / *)

Definition dec_char (c : N) : option N :=
  if (65 <=? c) && (c <=? 90) then Some (c - 65)
  else if (97 <=? c) && (c <=? 122) then Some (c - 97 + 26)
  else if (48 <=? c) && (c <=? 57) then Some (c - 48 + 52)
  else if c =? 43 then Some 62
  else if c =? 47 then Some 63
  else None.

Definition pad : N := 61.   (* '=' *)

Fixpoint encode (l : list N) : list N :=
  match l with
  | a :: b :: c :: r =>
      let n := a * 65536 + b * 256 + c in
      enc_char (n / 262144) :: enc_char ((n / 4096) mod 64) :: enc_char ((n / 64) mod 64) :: enc_char (n mod 64) :: encode r
  | [a; b] =>
      let n := a * 65536 + b * 256 in
      [enc_char (n / 262144); enc_char ((n / 4096) mod 64); enc_char ((n / 64) mod 64); pad]
  | [a] =>
      let n := a * 65536 in
      [enc_char (n / 262144); enc_char ((n / 4096) mod 64); pad; pad]
  | [] => []
  end.

Fixpoint decode (l : list N) : option (list N) :=
  match l with
  | [] => Some []
  | c1 :: c2 :: c3 :: c4 :: r =>
      match dec_char c1, dec_char c2 with
      | Some s1, Some s2 =>
          if (c3 =? pad) && (c4 =? pad) then
            match r with [] => Some [(s1 * 262144 + s2 * 4096) / 65536] | _ => None end
          else if c4 =? pad then
            match dec_char c3, r with
            | Some s3, [] => let n := s1 * 262144 + s2 * 4096 + s3 * 64 in Some [n / 65536; (n / 256) mod 256]
            | _, _ => None
            end
          else
            match dec_char c3, dec_char c4, decode r with
            | Some s3, Some s4, Some rest =>
                let n := s1 * 262144 + s2 * 4096 + s3 * 64 + s4 in
                Some (n / 65536 :: (n / 256) mod 256 :: n mod 256 :: rest)
            | _, _, _ => None
            end
      | _, _ => None
      end
  | _ => None
  end.

Lemma dec_enc_char s : s < 64 -> dec_char (enc_char s) = Some s.
Proof.
  intro H. unfold enc_char, dec_char.
  destruct (s <? 26) eqn:A; [replace ((65 <=? 65 + s) && (65 + s <=? 90)) with true by lia; f_equal; lia|].
  destruct (s <? 52) eqn:B.
  { replace ((65 <=? 97 + (s - 26)) && (97 + (s - 26) <=? 90)) with false by lia.
    replace ((97 <=? 97 + (s - 26)) && (97 + (s - 26) <=? 122)) with true by lia. f_equal. lia. }
  destruct (s <? 62) eqn:C.
  { replace ((65 <=? 48 + (s - 52)) && (48 + (s - 52) <=? 90)) with false by lia.
    replace ((97 <=? 48 + (s - 52)) && (48 + (s - 52) <=? 122)) with false by lia.
    replace ((48 <=? 48 + (s - 52)) && (48 + (s - 52) <=? 57)) with true by lia. f_equal. lia. }
  destruct (s =? 62) eqn:D; cbn; f_equal; lia.
Qed.

Lemma enc_char_not_pad s : s < 64 -> enc_char s =? pad = false.
Proof.
  intro H. unfold enc_char, pad. destruct (s <? 26) eqn:A; [lia|]. destruct (s <? 52) eqn:B; [lia|].
  destruct (s <? 62) eqn:C; [lia|]. destruct (s =? 62); reflexivity.
Qed.

Theorem decode_encode : forall l, Forall byte_ok l -> decode (encode l) = Some l.
Proof.
  fix IH 1. intros l H. destruct l as [|a [|b [|c r]]].
  - reflexivity.
  - inversion H as [|? ? Ha _]; subst. unfold byte_ok in Ha. cbn [encode decode].
    rewrite !dec_enc_char by lia. replace (pad =? pad) with true by reflexivity. cbn [andb]. f_equal. f_equal. lia.
  - inversion H as [|? ? Ha H1]; subst. inversion H1 as [|? ? Hb _]; subst. unfold byte_ok in *. cbn [encode decode].
    rewrite !dec_enc_char by lia. rewrite enc_char_not_pad by lia. cbn [andb]. replace (pad =? pad) with true by reflexivity.
    f_equal. f_equal; [lia|]. f_equal. lia.
  - inversion H as [|? ? Ha H1]; subst. inversion H1 as [|? ? Hb H2]; subst. inversion H2 as [|? ? Hc H3]; subst. unfold byte_ok in *.
    cbn [encode decode]. rewrite !dec_enc_char by lia. rewrite !enc_char_not_pad by lia. cbn [andb].
    rewrite (IH r H3). f_equal. f_equal; [lia|]. f_equal; [lia|]. f_equal. lia.
Qed.

(* the encoding only uses the 64 alphabet characters and '=' *)
Lemma encode_length l : N.of_nat (length (encode l)) = 4 * ((N.of_nat (length l) + 2) / 3).
Proof.
  revert l. fix IH 1. intro l. destruct l as [|a [|b [|c r]]]; try reflexivity.
  cbn [encode length]. specialize (IH r). lia.
Qed.
