(* The documented JSON shape of key records and data row records, as Go's encoding/json prints the SDK's structs
   (field order, omitempty, base64 for byte slices, HTML-safe string escaping) - for ASCII key ids. *)
From Asherah Require Import Base.Str Format.Base64.
From Coq Require Import List NArith ZArith Ascii String.
Import ListNotations.

Definition bytes_to_str (l : list N) : str := map ascii_of_N l.

Definition hex_digit (n : N) : ascii := ascii_of_N (if (n <? 10)%N then 48 + n else 87 + n)%N.

(* one character inside a JSON string, Go's encoder with HTML escaping on *)
Definition esc_char (c : ascii) : str :=
  let n := N_of_ascii c in
  if (n =? 34)%N then s "\""" else
  if (n =? 92)%N then s "\\" else
  if (n =? 10)%N then s "\n" else
  if (n =? 13)%N then s "\r" else
  if (n =? 9)%N then s "\t" else
  if ((n <? 32) || (n =? 60) || (n =? 62) || (n =? 38))%N%bool
  then s "\u00" ++ [hex_digit (n / 16); hex_digit (n mod 16)]
  else [c].

Definition json_string (x : str) : str := s """" ++ flat_map esc_char x ++ s """".

Definition json_bytes (b : list N) : str := s """" ++ bytes_to_str (encode b) ++ s """".

Record jmeta := { jm_id : str; jm_created : Z }.
Record jekr := { je_revoked : bool; je_created : Z; je_key : list N; je_parent : option jmeta }.
Record jdrr := { jd_key : option jekr; jd_data : option (list N) }.      (* None = Go nil *)

Definition print_meta (m : jmeta) : str :=
  s "{""KeyId"":" ++ json_string (jm_id m) ++ s ",""Created"":" ++ itoa (jm_created m) ++ s "}".

Definition print_ekr (r : jekr) : str :=
  s "{" ++ (if je_revoked r then s """Revoked"":true," else []) ++
  s """Created"":" ++ itoa (je_created r) ++ s ",""Key"":" ++ json_bytes (je_key r) ++
  (match je_parent r with Some m => s ",""ParentKeyMeta"":" ++ print_meta m | None => [] end) ++ s "}".

Definition print_drr (d : jdrr) : str :=
  s "{""Key"":" ++ (match jd_key d with Some k => print_ekr k | None => s "null" end) ++
  s ",""Data"":" ++ (match jd_data d with Some b => json_bytes b | None => s "null" end) ++ s "}".

(* "Revoked" appears exactly when the flag is set *)
Fixpoint contains (needle hay : str) : bool :=
  match hay with
  | [] => match needle with [] => true | _ => false end
  | _ :: t => prefixb needle hay || contains needle t
  end.
