#!/bin/bash
# usage: tools/regress_seeds.sh [seed-name ...]     (default: every directory under seeded/)
# For each seeded change: apply it to /repo, run the check of the property it targets (quick tier), undo it, and record whether the
# check reported a VIOLATION with a failing input ("input"), only a broken obligation ("corr"), or nothing ("MISSED").
# Writes seeded/RESULTS.json.  /repo is always restored (git checkout -- .) before the next seed.
cd /verif
seeds="$@"
[ -z "$seeds" ] && seeds=$(ls seeded | grep -v RESULTS)
tmp=$(mktemp)
echo "{" > $tmp
first=1
for s in $seeds; do
  [ -f seeded/$s/patch.diff ] || continue
  prop=${s%%-*}
  git -C /repo checkout -- . 2>/dev/null
  if ! git -C /repo apply /verif/seeded/$s/patch.diff 2>/dev/null; then res="patch-does-not-apply"; else
    out=$(timeout 1500 ./check $prop 2>&1); rc=$?
    line=$(echo "$out" | grep "^VIOLATION" | head -1)
    if [ -z "$line" ]; then res="MISSED(rc=$rc)"; elif echo "$line" | grep -q "no-failing-input-found"; then res="corr"; else res="input"; fi
  fi
  git -C /repo checkout -- .
  [ $first = 1 ] || echo "," >> $tmp
  first=0
  printf ' "%s": {"check": "%s", "result": "%s"}' "$s" "$prop" "$res" >> $tmp
  echo "$s $prop $res"
done
echo "" >> $tmp; echo "}" >> $tmp
if [ $# -eq 0 ]; then mv $tmp seeded/RESULTS.json; else cat $tmp; rm -f $tmp; fi
git -C /repo status --short | head -3
