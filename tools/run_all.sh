#!/bin/sh
# run every quick check on the current tree; print one line per property
cd "$(dirname "$0")/.."
git -C /repo status --short | grep -q . && { echo "WARNING: /repo has uncommitted changes"; git -C /repo status --short | head -3; }
tier=${1:-quick}
for i in 01 02 03 04 05 06 07 08 09 10 11 12 13 14 15 16 17 18 19 20; do
  p=C$i
  s=$(date +%s)
  out=$(timeout 3000 ./check $p $tier 2>&1); rc=$?
  e=$(date +%s)
  v=$(echo "$out" | grep -c "^VIOLATION")
  k=$(echo "$out" | grep -c "^KNOWN-FINDING")
  echo "$p rc=$rc violations=$v known=$k $((e-s))s"
  [ $v -gt 0 ] && echo "$out" | grep "^VIOLATION"
done
