#!/bin/bash
# usage: tools/try_refactors.sh [R01 ...] : apply each behaviour-preserving refactoring to /repo, run ALL quick checks, undo; any VIOLATION is a false alarm
cd "$(dirname "$0")/.."
rs="$@"; [ -z "$rs" ] && rs=$(ls seeded/refactors)
for r in $rs; do
  git -C /repo checkout -- . 2>/dev/null
  git -C /repo apply $(pwd)/seeded/refactors/$r/patch.diff || { echo "$r patch-does-not-apply"; continue; }
  for i in 01 02 03 04 05 06 07 08 09 10 11 12 13 14 15 16 17 18 19 20; do
    out=$(timeout 1500 ./check C$i 2>&1); rc=$?
    v=$(echo "$out" | grep "^VIOLATION" | head -1)
    echo "$r C$i rc=$rc $v"
  done
  git -C /repo checkout -- .
done
git -C /repo status --short | head -3
