#!/bin/bash
# usage: tools/confirm_seed.sh <seed-dir-name>
# Confirms a seeded change independently in a scratch worktree: patch applies, module builds, the existing tests of the touched
# module pass with it, the demonstration fails with it and passes without it.  Writes seeded/<name>/confirm.json.
set -u
name=$1
sd=/verif/seeded/$name
wt=/tmp/confirm-$name
export GOPROXY=off GOSUMDB=off GOTOOLCHAIN=local
git -C /repo worktree remove --force $wt 2>/dev/null; rm -rf $wt
git -C /repo worktree add -q --detach $wt HEAD || exit 2
res() { python3 - "$sd/confirm.json" "$@" <<'PY'
import json,sys
p=sys.argv[1]; kv=dict(a.split('=',1) for a in sys.argv[2:])
try: d=json.load(open(p))
except Exception: d={}
d.update(kv); json.dump(d,open(p,'w'),indent=1)
PY
}
res name=$name repo_head=$(git -C /repo rev-parse --short HEAD)
if ! git -C $wt apply $sd/patch.diff; then res applies=no; git -C /repo worktree remove --force $wt; exit 1; fi
res applies=yes
files=$(git -C $wt diff --name-only)
mod=go/appencryption; flag=""
case "$files" in *go/securememory*) mod=go/securememory; flag="-mod=mod";; *server/go*) mod=server/go; flag="-mod=mod";; esac
pkgs=$(for f in $files; do d=$(dirname $f); echo "./${d#$mod/}"; done | sed 's#^\./'"$mod"'$#.#' | sort -u | tr '\n' ' ')
( cd $wt/$mod && go build $flag ./... ) >/tmp/confirm-$name.build 2>&1 && res builds=yes || { res builds=no; }
# existing tests of the touched packages and of the module root
skip=""; [ "$mod" = go/securememory ] && skip="-skip MemLockLimit"
( cd $wt/$mod && timeout 1500 go test $flag -vet=off -count=1 $skip $pkgs . 2>&1 | tail -15 ) >/tmp/confirm-$name.tests 2>&1
if grep -q "^FAIL\|^--- FAIL\|panic:" /tmp/confirm-$name.tests; then res existing_tests=FAIL; else res existing_tests=pass; fi
# demonstration
demo=$(ls $sd/*_test.go 2>/dev/null | head -1)
if [ -n "$demo" ]; then
  dest=$(python3 -c "import json;print((json.load(open('$sd/meta.json')).get('demo_path_in_repo','') or '').split(' ')[0])" 2>/dev/null)
  [ -n "$dest" ] && [ -f "$sd/$(basename $dest)" ] && demo=$sd/$(basename $dest)
  [ -z "$dest" ] && dest=$mod/$(basename $demo)
  case "$dest" in /*) dest=${dest#/tmp/wt/*/};; esac
  ddir=$(dirname $dest)
  mkdir -p $wt/$ddir && cp $demo $wt/$ddir/
  dmod=go/appencryption; dflag=""
  case "$ddir" in go/securememory*) dmod=go/securememory; dflag="-mod=mod";; server/go*) dmod=server/go; dflag="-mod=mod";; esac
  rel="./${ddir#$dmod}"; rel=${rel%/}; [ "$rel" = "." ] || rel="./${ddir#$dmod/}"
  [ "$ddir" = "$dmod" ] && rel="."
  ( cd $wt/$dmod && timeout 900 go test $dflag -vet=off -count=1 -run 'Demo|C[0-9][0-9]' $rel 2>&1 | tail -5 ) >/tmp/confirm-$name.demo1 2>&1
  grep -q "^ok" /tmp/confirm-$name.demo1 && res demo_with_change=pass || res demo_with_change=FAIL
  git -C $wt apply -R $sd/patch.diff
  ( cd $wt/$dmod && timeout 900 go test $dflag -vet=off -count=1 -run 'Demo|C[0-9][0-9]' $rel 2>&1 | tail -5 ) >/tmp/confirm-$name.demo2 2>&1
  grep -q "^ok" /tmp/confirm-$name.demo2 && res demo_without_change=pass || res demo_without_change=FAIL
else
  res demo=none
fi
git -C /repo worktree remove --force $wt
rm -f /tmp/confirm-$name.*
cat $sd/confirm.json
