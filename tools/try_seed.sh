#!/bin/sh
# usage: tools/try_seed.sh <seed-dir-name> <prop> [<prop>...]  : apply seeded patch to /repo, run checks, undo
seed=$1; shift
cd /verif
git -C /repo apply /verif/seeded/$seed/patch.diff || { echo "patch does not apply"; exit 2; }
for p in "$@"; do
  echo "== $seed vs $p"
  timeout 900 ./check $p 2>&1 | grep -v "^KNOWN-FINDING" | tail -3
  echo "exit=$?"
done
git -C /repo checkout -- .
git -C /repo status --short | head -3
