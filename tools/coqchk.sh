#!/bin/bash
# usage: tools/coqchk.sh        Re-check every compiled property file (and everything it depends on) with the independent checker
# and list the axioms the whole development relies on.  Writes coqchk/REPORT.txt.  Takes 10-30 minutes.
cd "$(dirname "$0")/../coq"
mkdir -p ../coqchk
mods=$(ls Properties/*.v | sed 's#/#.#; s#\.v$##; s#^#Asherah.#' | tr '\n' ' ')
( time timeout 7200 coqchk -silent -o -Q . Asherah $mods ) > ../coqchk/REPORT.txt 2>&1
tail -30 ../coqchk/REPORT.txt
