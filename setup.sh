#!/bin/sh
# MANIFEST.setup_cmd: build everything from files on disk, offline.
set -e
cd "$(dirname "$0")"
export GOFLAGS=-mod=mod GOPROXY=off GOSUMDB=off GOTOOLCHAIN=local GOWORK=off
mkdir -p .build evidence
( cd coq && coq_makefile -f _CoqProject -o Makefile >/dev/null && timeout 3000 make -j16 >../.build/coq-make.log 2>&1 ) || { tail -40 .build/coq-make.log; exit 1; }
# warm the Go build cache for the harness (the checks rebuild against /repo's current tree with the overlay)
python3 - <<'PY'
import sys
sys.path.insert(0, "lib")
import vlib, os
b, ok, log = vlib.go_build("vrun")
if os.path.exists(b):
    os.remove(b)
if not ok:
    print(log[-4000:])
    sys.exit(1)
# ... and the race-detector build of the free-running harness (C08)
b, ok, log = vlib.go_build("vstress", race=True)
if os.path.exists(b):
    os.remove(b)
if not ok:
    print(log[-4000:])
    sys.exit(1)
PY
echo setup ok
