"""C11 — secure memory.  Theorems: coq/Properties/C11.v (SecureMem/Secret.v, SecretProofs.v, SecretConc.v)."""
import memcheck
from vlib import Check


def main(tier, seed, replay):
    ck = Check("C11", tier, seed)
    ck.coq_theorems()
    memcheck.run(ck, "C11", tier, seed, replay)
    return ck.finish()
