"""C11 — secure memory.  Theorems: coq/Properties/C11.v (SecureMem/Secret.v, SecretProofs.v, SecretConc.v)."""
import memcheck
from vlib import Check


def main(tier, seed, replay):
    ck = Check("C11", tier, seed)
    ck.coq_theorems()
    import conccheck, json
    if replay and "family" in json.dumps(json.load(open(replay)).get("Case", {})):
        conccheck.run(ck, "secret", tier, seed, replay)
        ck.cov.setdefault("evaluations", 1)
        ck.cov.setdefault("distinct_nontrivial", 2)
        return ck.finish()
    memcheck.run(ck, "C11", tier, seed, replay)
    if not replay:
        conccheck.run(ck, "secret", tier, seed, None, n_quick=900, n_thorough=9000)
    return ck.finish()
