"""C05 — see coq/Properties/C05.v (theorems) and lib/envcheck.py (tie + monitor)."""
import json
import envcheck
from vlib import Check

RUNS = {
    "C01": lambda seed, n: [["-seed", str(seed), "-n", str(n)], ["-seed", str(seed + 1), "-n", str(n // 3), "-x", "nofault"]],
    "C02": lambda seed, n: [["-seed", str(seed), "-n", str(n)]],
    "C03": lambda seed, n: [["-seed", str(seed), "-n", str(n), "-x", "leak"]],
    "C04": lambda seed, n: [["-seed", str(seed), "-n", str(n)]],
    "C05": lambda seed, n: [["-seed", str(seed), "-n", str(n)]],
    "C07": lambda seed, n: [["-seed", str(seed), "-n", str(n), "-x", "malformed"]],
    "C09": lambda seed, n: [["-seed", str(seed), "-n", str(n)], ["-seed", str(seed + 1), "-n", str(n // 3), "-x", "malformed"]],
    "C10": lambda seed, n: [["-seed", str(seed), "-n", str(n)]],
    "C20": lambda seed, n: [["-seed", str(seed), "-n", str(n), "-x", "norevoke"]],
}

RULE = ("random histories over 14 configurations (default, minute precision, RevokeCheckInterval 0, no cache, SK-only, shared LRU-2, shared simple, SK LRU-1, IK SLRU-1, IK LFU-2, "
        "tinylfu, session cache 2, session cache 1 with expiry, no-cache+shared): 1-2 factories sharing one metastore, 1-3 partitions, encrypt/decrypt "
        "(25% with 1-2 injected faults: err / false duplicate / error-after-write on any boundary call), clock advances drawn from boundary values "
        "(+-1ns around RCI, expiry, precision), revocation of latest/older IK/SK, session close/reopen, factory restart, final decrypt of every record "
        "and full teardown; non-trivial = distinct history that reached the property's interesting state (envcheck.nontrivial)")


def main(tier, seed, replay):
    prop = "C05"
    ck = Check(prop, tier, seed)
    ck.coq_theorems()
    n = 240 if tier == "quick" else 2400
    # what the bound rests on at the metastore: a Revoked flag an operator sets in the table is visible to the very next Load / LoadLatest
    # of every implementation (SQL x3, DynamoDB v1/v2 over fakes in which a read without strong consistency lags one write behind)
    meta_replay = bool(replay) and '"impl"' in open(replay).read()[:3000]
    if not replay or meta_replay:
        mcases = envcheck.run_harness(ck, "meta", [["-replay", replay]] if replay else [["-seed", str(seed + 13), "-n", "600" if tier == "quick" else "6000", "-x", "revoke"]])
        if mcases is None:
            return ck.finish()
        stale = [c for c in mcases if any("Revoked flag" in v for v in c.get("viol") or [])]
        ck.oblige(not stale, "every metastore implementation shows a Revoked flag set in the table to the next read (%d op sequences with operator revocations)" % len(mcases),
                  json.dumps(stale[:1])[:3000])
        ck.cov["metastore_sequences_with_revocations"] = len(mcases)
        ck.cov["revocations_applied"] = sum(1 for c in mcases for o, b in zip(c["ops"], c["obs"]) if o["k"] == "revoke" and b["r"] == "true")
        if stale:
            v = dict(stale[0])
            v["viol"] = [x for x in v["viol"] if "Revoked flag" in x]
            ck.violation(ck.replay_file("metastore", {"what": v["viol"][0], "Case": v}))
        if meta_replay:
            ck.cov.update({"evaluations": len(mcases), "distinct_nontrivial": len(mcases), "rule": "replay"})
            return ck.finish()
    runs = [["-replay", replay]] if replay else RUNS[prop](seed, n)
    cases = envcheck.run_harness(ck, "env", runs)
    if cases is None:
        return ck.finish()
    return envcheck.finish_env(ck, prop, cases, RULE)
