"""C12 — secure memory.  Theorems: coq/Properties/C12.v (SecureMem/Secret.v, SecretProofs.v, SecretConc.v)."""
import memcheck
from vlib import Check


def main(tier, seed, replay):
    ck = Check("C12", tier, seed)
    ck.coq_theorems()
    memcheck.run(ck, "C12", tier, seed, replay)
    return ck.finish()
