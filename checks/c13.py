"""C13 — every metastore is an insert-only, read-your-writes key table.  Theorems: coq/Properties/C13.v.  Tie: the in-memory, SQL
(mysql/postgres/oracle placeholder dialects) and both DynamoDB metastores are run over semantic fakes (SQL engine enforcing the
documented schema and placeholder style; DynamoDB where a non-consistent read sees the state before the last write and an
unconditional put overwrites) and compared with the specification inside Coq."""
import json
import vlib, envcheck
from vlib import Check


def z(n):
    return "(%d)" % n


def rec_term(r):
    par = "None" if r["pid"] < 0 else "(Some (%d%%nat, %s))" % (r["pid"], z(r["pc"]))
    return "{| kr_revoked := %s; kr_created := %s; kr_key := %d; kr_parent := %s |}" % ("true" if r["revoked"] else "false", z(r["created"]), max(0, r["key"]), par)


def op_term(o):
    if o["k"] == "store":
        return "MStore %d %s %s" % (o["id"], z(o["c"]), rec_term(o["rec"]))
    if o["k"] == "load":
        return "MLoad %d %s" % (o["id"], z(o["c"]))
    return "MLoadLatest %d" % o["id"]


def obs_term(o):
    r = o["r"]
    if r == "true":
        return "OBool true"
    if r == "false":
        return "OBool false"
    if r == "none":
        return "ORec None"
    if r == "some":
        return "ORec (Some %s)" % rec_term(o["rec"])
    return "OBool true"      # an error where the spec has an answer: reported by the monitor as well


PRELUDE = "From Coq Require Import List ZArith.\nImport ListNotations.\nFrom Asherah Require Import Metastore.Table Cases.C13Run.\nOpen Scope Z_scope."


def kept(c):
    """A statement the (fake) engine refused or lost, and that reported an error, is not part of the table's history."""
    return [(o, b) for o, b in zip(c["ops"], c["obs"]) if not (o.get("fault") and b["r"] == "err")]


def compare(tag, cases):
    """Indices of the op sequences on which an implementation's answers differ from the key-table specification (evaluated in Coq)."""
    terms = ["([%s], [%s])" % ("; ".join(op_term(o) for o, _ in kept(c)), "; ".join(obs_term(b) for _, b in kept(c))) for c in cases]
    return vlib.coq_mismatches(tag, PRELUDE, "list mop * list mout", terms, "mismatches_from", shard=300)


def main(tier, seed, replay):
    ck = Check("C13", tier, seed)
    ck.coq_theorems()
    runs = [["-replay", replay]] if replay and "metaconc" not in replay else [["-seed", str(seed), "-n", "1200" if tier == "quick" else "12000"]]
    cases = envcheck.run_harness(ck, "meta", runs)
    if cases is None:
        return ck.finish()
    viol = [c for c in cases if c.get("viol")]
    def kept(c):   # a statement the (fake) engine refused or lost, and that reported an error, is not part of the table's history
        return [(o, b) for o, b in zip(c["ops"], c["obs"]) if not (o.get("fault") and b["r"] == "err")]
    terms = ["([%s], [%s])" % ("; ".join(op_term(o) for o, _ in kept(c)), "; ".join(obs_term(b) for _, b in kept(c))) for c in cases]
    bad, errs, dt = vlib.coq_mismatches("c13", "From Coq Require Import List ZArith.\nImport ListNotations.\nFrom Asherah Require Import Metastore.Table Cases.C13Run.\nOpen Scope Z_scope.",
                                        "list mop * list mout", terms, "mismatches_from", shard=300)
    for e in errs:
        ck.oblige(False, "correspondence-eval", e)
    ck.oblige(not bad and not errs, "every implementation = specification on %d op sequences" % len(cases), json.dumps([cases[i] for i in bad[:2]])[:4000])
    nt = set(json.dumps([c["impl"], c["ops"]]) for c in cases if any(o["r"] == "false" for o in c["obs"]) or sum(1 for o in c["obs"] if o["r"] == "some") >= 2)
    impls = {}
    for c in cases:
        impls[c["impl"]] = impls.get(c["impl"], 0) + 1
    ck.cov.update({
        "evaluations": len(cases), "distinct_nontrivial": len(nt),
        "rule": "random sequences of Store/Load/LoadLatest over 3 key ids x 6 creation stamps (overlapping), records with binary key bytes (empty, NUL, 0xff, quotes, "
                "HTML-sensitive), revoked on/off, with/without parent meta, immediate read-after-write, per implementation: memory, sql mysql/postgres/oracle, dynamodb v1/v2 "
                "with default/custom table names and region suffix on/off; on the SQL engines one statement in six fails (refused, or the connection drops while the "
                "row is fetched, or the insert is refused): it must report an error, never 'no such record'; non-trivial = distinct sequence with a refused duplicate or at least two successful reads",
        "implementations": impls, "faulted_statements": sum(1 for c in cases for o in c["ops"] if o.get("fault")), "ops_total": sum(len(c["ops"]) for c in cases),
        "traces_validated_against_impl": len(cases) - len(bad), "samples": [cases[0], cases[4]],
    })
    ck.cov["trusted_base"] += ["real DynamoDB / SQL engines are replaced by semantic fakes written from their documentation (the fakes ARE the assumption about those services)",
                               "encoding/json, dynamodbattribute/attributevalue marshalling run for real inside the plugins"]
    # concurrency: Store is insert-if-absent as ONE atomic step (controlled schedules of goroutines on the in-memory metastore)
    cruns = [["-replay", replay]] if replay and "metaconc" in replay else [["-seed", str(seed), "-n", "120" if tier == "quick" else "1500"]]
    ccases = envcheck.run_harness(ck, "metaconc", cruns) if not (replay and "metaconc" not in replay) else []
    if ccases is None:
        return ck.finish()
    cviol = [c for c in ccases if c.get("viol")]
    ck.oblige(not cviol, "in-memory metastore: exactly one of several concurrent Stores of one key wins, under %d controlled schedules" % len(ccases),
              json.dumps(cviol[:1])[:3000])
    ck.cov["concurrent_store_schedules"] = {"evaluations": len(ccases), "threads": sorted(set(c["threads"] for c in ccases)),
                                            "distinct_schedules": len(set(json.dumps(c.get("trace")) for c in ccases)),
                                            "sample_trace": (ccases[0].get("trace") or [])[:12] if ccases else []}
    if cviol:
        v = cviol[0]
        ck.violation(ck.replay_file("metaconc", {"what": v["viol"], "Case": {k: v[k] for k in ("seed", "threads", "keys")}, "schedule": v.get("trace")}))
    elif viol:
        ck.violation(ck.replay_file("impl", {"what": viol[0]["viol"], "Case": viol[0]}))
    elif bad:
        ck.violation(ck.replay_file("corr", {"what": "implementation answers differ from the key-table specification", "Case": cases[bad[0]]}))
    elif ck.discharged != ck.obligations and not ck.violations:
        ck.violation(ck.replay_file("oblig", {"obligation": ck.cov.get("failed_obligations")}), False)
    return ck.finish()
