"""C18 — stored and wire formats.  Theorems: coq/Properties/C18.v.  Tie: the SDK's JSON for key records and data row records
(encoding/json on the SDK's own structs) compared byte for byte with the documented-shape printer inside Coq; SQL key_record =
that JSON; both DynamoDB item layouts checked against the documented attribute layout; an independent reference codec written
from the documentation decrypts what the SDK writes (through the SQL row format) and the SDK decrypts what the reference writes,
for payload sizes 0, 1, 15, 16, 17, 1000."""
import json
import vlib, envcheck
from vlib import Check, coq_str


def nlist(hexs):
    b = bytes.fromhex(hexs)
    return "[" + "; ".join(str(x) for x in b) + "]%N"


def ekr_term(e):
    par = "None"
    if e.get("parent"):
        par = "(Some {| jm_id := %s; jm_created := (%d)%%Z |})" % (coq_str(bytes.fromhex(e["parent"]["id"])), e["parent"]["created"])
    return "{| je_revoked := %s; je_created := (%d)%%Z; je_key := %s; je_parent := %s |}" % (
        "true" if e["revoked"] else "false", e["created"], nlist(e["key"]), par)


def term(c):
    out = coq_str(bytes.fromhex(c["out"]))
    if c["kind"] == "ekr":
        return "FEkr %s %s" % (ekr_term(c["ekr"]), out)
    key = "None" if c.get("nokey") else "(Some %s)" % ekr_term(c["ekr"])
    data = "None" if c.get("data") is None else "(Some %s)" % nlist(c["data"])
    return "FDrr {| jd_key := %s; jd_data := %s |} %s" % (key, data, out)


def main(tier, seed, replay):
    ck = Check("C18", tier, seed)
    ck.coq_theorems()
    # what the sidecar emits on the wire while keys rotate under open streams (protobuf data row records)
    wire_replay = bool(replay) and '"multi"' in open(replay).read()[:3000]
    if not replay or wire_replay:
        wcases = envcheck.run_harness(ck, "srv", [["-replay", replay]] if replay else [["-seed", str(seed), "-n", "1", "-x", "wire"]])
        if wcases is None:
            return ck.finish()
        wviol = [c for c in wcases if c.get("viol")]
        ck.oblige(not wviol, "sidecar wire records across three key generations on open streams: documented shape, name a key valid at the time of the encrypt, "
                  "decryptable from the record and the key table alone", json.dumps(wviol[:1])[:3000])
        ck.cov["sidecar_wire_scenarios"] = len(wcases)
        if wviol:
            ck.violation(ck.replay_file("wire", {"what": wviol[0]["viol"][0], "Case": {"multi": wviol[0]["multi"]}, "all": wviol[0]["viol"][:6]}))
        if wire_replay:
            ck.cov.update({"evaluations": len(wcases), "distinct_nontrivial": len(wcases), "rule": "replay"})
            return ck.finish()
    runs = [["-replay", replay]] if replay else [["-seed", str(seed), "-n", "640" if tier == "quick" else "6400"]]
    cases = envcheck.run_harness(ck, "fmt", runs)
    if cases is None:
        return ck.finish()
    viol = [c for c in cases if c.get("viol")]
    cmpc = [c for c in cases if c["kind"] in ("ekr", "drr") and c.get("out")]
    bad, errs, dt = vlib.coq_mismatches("c18", "From Coq Require Import List NArith ZArith.\nImport ListNotations.\nFrom Asherah Require Import Base.Str Format.Base64 Format.Json Cases.C18Run.",
                                        "fcase", [term(c) for c in cmpc], "mismatches_from", shard=200)
    for e in errs:
        ck.oblige(False, "correspondence-eval", e)
    ck.oblige(not bad and not errs, "SDK JSON = documented-shape printer, byte for byte, on %d records" % len(cmpc), json.dumps([cmpc[i] for i in bad[:2]])[:3000])
    nt = set(json.dumps([c["kind"], c.get("ekr"), c.get("data")]) for c in cases)
    ck.cov.update({
        "evaluations": len(cases), "distinct_nontrivial": len(nt),
        "rule": "key records / data row records over key bytes (empty, NUL, 0xff, 1-3 byte tails for base64 padding, 31/32/60 random bytes, HTML-sensitive), ASCII key ids incl. "
                "quotes, backslash, <>&, control characters, DEL, creation stamps incl. 0, negative and > 2^53, Revoked on/off, parent on/off, nil Key / nil Data; every 8th case "
                "is an end-to-end exchange with the documentation-side codec for 6 payload sizes; non-trivial = distinct record",
        "end_to_end_cases": sum(1 for c in cases if c["kind"] == "e2e"),
        "traces_validated_against_impl": len(cmpc) - len(bad), "samples": [cases[1], cases[4]],
    })
    ck.cov["trusted_base"] += ["encoding/json, encoding/base64, strconv and crypto/aes+cipher (the reference codec uses them directly, following the documented layout)",
                               "non-ASCII / invalid UTF-8 key ids are outside the JSON model; the Java/C# SDKs are represented by the documentation-side codec"]
    if viol:
        ck.violation(ck.replay_file("impl", {"what": viol[0]["viol"], "Case": viol[0]}))
    elif bad:
        ck.violation(ck.replay_file("corr", {"what": "SDK JSON differs from the documented shape", "Case": cmpc[bad[0]]}))
    elif ck.discharged != ck.obligations and not ck.violations:
        ck.violation(ck.replay_file("oblig", {"obligation": ck.cov.get("failed_obligations")}), False)
    return ck.finish()
