"""C16 — cached sessions are shared, stay usable while held, are torn down exactly once.  Theorems: coq/Properties/C16.v.
Tie: controlled schedules of real goroutines getting/using/closing sessions over more partitions than the session cache holds."""
import conccheck
from vlib import Check


def main(tier, seed, replay):
    ck = Check("C16", tier, seed)
    ck.coq_theorems()
    cases = conccheck.run(ck, "sesscache", tier, seed, replay)
    if cases is not None:
        s = ck.cov["schedules"]["sesscache"]
        ck.cov.update({"evaluations": s["evaluations"], "distinct_nontrivial": s["distinct_schedules"],
                       "rule": "seeded schedules of 2-4 goroutines x 2 rounds of GetSession/Encrypt/Decrypt/Close over 3 partitions with session cache capacity 1-2 (lru, slru, lfu; "
                               "one cell also with a shared LRU-1 intermediate-key cache); monitors: every operation of a holder succeeds, no key used after destruction, no secret "
                               "released twice, nothing live after the factory and all holders closed, no deadlock; non-trivial = distinct schedule with >= 8 releases",
                       "samples": [s["sample_trace"]]})
        ck.cov["trusted_base"] += ["interleavings at yield points inserted before lock acquisitions / condition waits; asynchronous Remove goroutines run uncontrolled"]
    if not ck.violations and ck.discharged != ck.obligations:
        ck.violation(ck.replay_file("oblig", {"obligation": ck.cov.get("failed_obligations")}), False)
    return ck.finish()
