"""C16 — cached sessions are shared, stay usable while held, are torn down exactly once.  Theorems: coq/Properties/C16.v.
Tie: controlled schedules of real goroutines getting/using/closing sessions over more partitions than the session cache holds."""
import conccheck
from vlib import Check


def main(tier, seed, replay):
    ck = Check("C16", tier, seed)
    ck.coq_theorems()
    env_replay = bool(replay) and '"Ops"' in open(replay).read()[:4000]
    cases = conccheck.run(ck, "sesscache", tier, seed, replay) if not env_replay else []
    if env_replay:
        ck.cov.update({"evaluations": 1, "distinct_nontrivial": 1, "rule": "replay"})
    elif cases is not None:
        s = ck.cov["schedules"]["sesscache"]
        ck.cov.update({"evaluations": s["evaluations"], "distinct_nontrivial": s["distinct_schedules"],
                       "rule": "seeded schedules of 2-4 goroutines x 2 rounds of GetSession/Encrypt/Decrypt/Close over 3 partitions with session cache capacity 1-2 (lru, slru, lfu; "
                               "one cell also with a shared LRU-1 intermediate-key cache); monitors: every operation of a holder succeeds, no key used after destruction, no secret "
                               "released twice, nothing live after the factory and all holders closed, no deadlock; non-trivial = distinct schedule with >= 8 releases",
                       "samples": [s["sample_trace"]]})
        ck.cov["trusted_base"] += ["interleavings at yield points inserted before lock acquisitions / condition waits; asynchronous Remove goroutines run uncontrolled"]
    # expiry: the session cache's entries expire under the virtual clock in the envelope harness (capacity 1 with a 5 s lifetime, capacity 2
    # with the default one); sequential histories, every secret's life recorded, compared with the model's secret bookkeeping
    if cases is not None and (not replay or env_replay):
        import json, envcheck, envterms
        runs = [["-replay", replay]] if replay else [["-seed", str(seed + 41), "-n", "120" if tier == "quick" else "1200", "-x", "sesscache"]]
        ecases = envcheck.run_harness(ck, "env", runs)
        if ecases is None:
            return ck.finish()
        viols = list(envcheck.MONITORS["C16"](ecases))
        diffs, errs, _ = envterms.eval_cases("c16", ecases)
        for e in errs:
            ck.oblige(False, "correspondence-eval", e)
        bad = {i: d for i, d in diffs.items() if d[1] & envcheck.MASK["C16"]}
        ck.oblige(not bad and not errs, "correspondence model=impl on %d session-cache histories with expiry (secret creation/release projections)" % len(ecases),
                  json.dumps([{"case": envcheck.summarize_case(ecases[i], d[0]), "first_diff_op": d[0]} for i, d in list(bad.items())[:1]])[:4000])
        ck.oblige(not viols, "session-cache histories with expiry: holders keep working, each secret released exactly once, nothing live after teardown",
                  json.dumps(viols[:2])[:2000])
        ck.cov["expiry_histories"] = {"cases": len(ecases), "ops": sum(len(c["ops"]) for c in ecases),
                                      "with_expired_entry": sum(1 for c in ecases if c.get("cfg") == "sesscache1-exp" and
                                                                sum(o.get("d", 0) for o in c["ops"] if o["k"] == "advance") > 5 * 10**9),
                                      "torn_down": sum(1 for c in ecases if c.get("torn_down"))}
        if viols:
            v = viols[0]
            ck.violation(ck.replay_file("expiry", {"what": v["what"], "failing_op": v["op"], "Case": envcheck.shrink_ops(ecases[v["case"]], v["op"]),
                                                   "observed": ecases[v["case"]]["obs"][v["op"]]}))
        elif bad:
            i, d = next(iter(bad.items()))
            ck.violation(ck.replay_file("corr", {"obligation": "C16 correspondence on session-cache histories (Cases/EnvRun.case_diff)", "first_diff_op": d[0],
                                                 "Case": envcheck.shrink_ops(ecases[i], d[0]), "observed": ecases[i]["obs"][d[0]]}), False)
    if not ck.violations and ck.discharged != ck.obligations:
        ck.violation(ck.replay_file("oblig", {"obligation": ck.cov.get("failed_obligations")}), False)
    return ck.finish()
