"""C07 — see coq/Properties/C07.v (theorems) and lib/envcheck.py (tie + monitor)."""
import json
import envcheck
from vlib import Check

RUNS = {
    "C01": lambda seed, n: [["-seed", str(seed), "-n", str(n)], ["-seed", str(seed + 1), "-n", str(n // 3), "-x", "nofault"]],
    "C02": lambda seed, n: [["-seed", str(seed), "-n", str(n)]],
    "C03": lambda seed, n: [["-seed", str(seed), "-n", str(n), "-x", "leak"]],
    "C04": lambda seed, n: [["-seed", str(seed), "-n", str(n)]],
    "C05": lambda seed, n: [["-seed", str(seed), "-n", str(n)]],
    "C07": lambda seed, n: [["-seed", str(seed), "-n", str(n), "-x", "malformed"], ["-seed", str(seed + 2), "-n", str(n // 2), "-x", "suffix"]],
    "C09": lambda seed, n: [["-seed", str(seed), "-n", str(n)], ["-seed", str(seed + 1), "-n", str(n // 3), "-x", "malformed"]],
    "C10": lambda seed, n: [["-seed", str(seed), "-n", str(n)]],
    "C20": lambda seed, n: [["-seed", str(seed), "-n", str(n), "-x", "norevoke"]],
}

RULE = ("random histories over 14 configurations (default, minute precision, RevokeCheckInterval 0, no cache, SK-only, shared LRU-2, shared simple, SK LRU-1, IK SLRU-1, IK LFU-2, "
        "tinylfu, session cache 2, session cache 1 with expiry, no-cache+shared): 1-2 factories sharing one metastore, 1-3 partitions, encrypt/decrypt "
        "(25% with 1-2 injected faults: err / false duplicate / error-after-write on any boundary call), clock advances drawn from boundary values "
        "(+-1ns around RCI, expiry, precision), revocation of latest/older IK/SK, session close/reopen, factory restart, final decrypt of every record "
        "and full teardown; non-trivial = distinct history that reached the property's interesting state (envcheck.nontrivial)")


def main(tier, seed, replay):
    prop = "C07"
    ck = Check(prop, tier, seed)
    ck.coq_theorems()
    n = 240 if tier == "quick" else 2400
    # "any corrupted key record in the metastore", in the engines' own row formats: the SQL and the two DynamoDB metastores under cold
    # sessions, the full grid implementation x (intermediate | system key row) x 23 kinds of damage
    dmg_replay = bool(replay) and '"damage"' in open(replay).read()[:2000]
    if not replay or dmg_replay:
        druns = [["-replay", replay]] if replay else [["-seed", str(seed + 31), "-n", "230" if tier == "quick" else "1150"]]
        dcases = envcheck.run_harness(ck, "metadmg", druns)
        if dcases is None:
            return ck.finish()
        dbad = [c for c in dcases if c.get("viol")]
        ck.oblige(not dbad, "damaged key rows in the SQL / DynamoDB v1 / DynamoDB v2 metastores: Load, LoadLatest, cold Decrypt and Encrypt return an error "
                  "or the original payload, never other bytes, never a panic (%d cases)" % len(dcases), json.dumps(dbad[:1])[:3000])
        ck.cov["damaged_key_rows"] = {"cases": len(dcases), "implementations": sorted(set(c["impl"] for c in dcases)),
                                      "damage_kinds": sorted(set(c["damage"] for c in dcases)),
                                      "decrypt_outcomes": {k: sum(1 for c in dcases if (c.get("decrypt") or "")[:7] == k[:7]) for k in ("payload", "err")}}
        if dbad:
            v = dbad[0]
            ck.violation(ck.replay_file("keyrow", {"what": v["viol"][0], "Case": {k: v[k] for k in ("impl", "target", "damage", "payload", "seed")}}))
        if dmg_replay:
            ck.cov.update({"evaluations": len(dcases), "distinct_nontrivial": len(dcases), "rule": "replay"})
            return ck.finish()
    runs = [["-replay", replay]] if replay else RUNS[prop](seed, n)
    cases = envcheck.run_harness(ck, "env", runs)
    if cases is None:
        return ck.finish()
    return envcheck.finish_env(ck, prop, cases, RULE)
