"""C17 — AWS KMS plugins.  Theorems: coq/Properties/C17.v (Kms/AwsKms.v).  Tie: both plugins (v1 through the ordering step
of NewAWS via an add-only hook, v2 through its Builder) over fake regional KMS clients for both SDK interfaces; wrap/unwrap
outcomes, generating region, envelope entries and the order of regional Decrypt attempts compared with the model in Coq;
monitor: preferred region first, plaintext data key wiped (C10), envelope = documented JSON, v1<->v2 exchange."""
import json
import vlib, envcheck
from vlib import Check


def b(x):
    return "true" if x else "false"


def term(c):
    w = "[" + "; ".join("{| w_id := %d; w_gen := %s; w_enc := %s |}" % (i, b(c["gen"][i]), b(c["enc"][i])) for i in c["worder"]) + "]"
    # a region whose KMS Decrypt answers with a data key that does not open the envelope is, for the model, a region that cannot decrypt
    wrong = c.get("wrong") or []
    d = "[" + "; ".join("(%d, %s)" % (i, b(c["dec"][i] and not (i < len(wrong) and wrong[i]))) for i in (c.get("dorder") or [])) + "]"
    nl = lambda l: "[" + "; ".join(str(x) for x in (l or [])) + "]"
    return ("{| k_wclients := %s; k_dclients := %s; o_wrap_ok := %s; o_gen := %d; o_entries := %s; o_unwrap_ok := %s; o_attempts := %s |}"
            % (w, d, b(c["wrapok"]), max(0, c.get("genregion", 0)), nl(c.get("entries")), b(c["unwrapok"]), nl(c.get("attempts"))))


def main(tier, seed, replay):
    ck = Check("C17", tier, seed)
    ck.coq_theorems()
    runs = [["-replay", replay]] if replay else [["-seed", str(seed), "-n", "1500" if tier == "quick" else "6000", "-tier", tier]]
    cases = envcheck.run_harness(ck, "kms", runs)
    if cases is None:
        return ck.finish()
    for c in cases:
        att, ent = c.get("attempts") or [], c.get("entries") or []
        if c["wrapok"] and att and c["pref"] in ent and att[0] != c["pref"]:
            c["viol"] = (c.get("viol") or []) + ["unwrap: the preferred region %d has an entry in the envelope but region %d was attempted first (attempts %s)" % (c["pref"], att[0], att)]
        if c["wrapok"] and c.get("genregion", -1) >= 0:
            # "includes an entry for every region that succeeded": the generating region, and every other configured region whose Encrypt works
            want = sorted(i for i in c["worder"] if i == c["genregion"] or c["enc"][i])
            if sorted(ent) != want:
                c["viol"] = (c.get("viol") or []) + ["wrap: envelope has entries for regions %s, but the regions that succeeded are %s (generated in %d, Encrypt able: %s)"
                                                     % (sorted(ent), want, c["genregion"], [i for i in c["worder"] if c["enc"][i]])]
        if c["wrapok"] and len(set(att)) != len(att):
            c["viol"] = (c.get("viol") or []) + ["unwrap: a region was attempted twice (%s)" % att]
    viol = [c for c in cases if c.get("viol")]
    bad, errs, dt = vlib.coq_mismatches("c17", "From Coq Require Import List.\nImport ListNotations.\nFrom Asherah Require Import Kms.AwsKms Cases.C17Run.",
                                        "kcase", [term(c) for c in cases], "mismatches_from", shard=600)
    for e in errs:
        ck.oblige(False, "correspondence-eval", e)
    ck.oblige(not bad and not errs, "correspondence model=impl on %d wrap/unwrap cells" % len(cases), json.dumps([cases[i] for i in bad[:3]]))
    nt = set(json.dumps([c["n"], c["pref"], c["gen"], c["enc"], c["dec"], c["wrapv"], c["unwrapv"], c["decn"]]) for c in cases if c["wrapok"] and len(c.get("attempts") or []) >= 1)
    ck.cov.update({
        "evaluations": len(cases), "distinct_nontrivial": len(nt),
        "rule": "cells = 1-4 regions x preferred region x subset able to GenerateDataKey x subset able to Encrypt x subset able to Decrypt x "
                "(wrap plugin, unwrap plugin) in {v1,v2}^2 x number of regions configured at the unwrapping side x shuffled configuration order"
                + ("; thorough: ALL cells for 1-3 regions" if tier == "thorough" else "") + "; non-trivial = distinct cell that wrapped and made at least one regional Decrypt attempt",
        "traces_validated_against_impl": len(cases) - len(bad),
        "version_pairs": {str(k): sum(1 for c in cases if (c["wrapv"], c["unwrapv"]) == k) for k in [(1, 1), (2, 2), (1, 2), (2, 1)]},
        "samples": cases[:2],
    })
    ck.cov["trusted_base"] += ["AWS KMS itself: a per-region success oracle and opaque blobs only that region can open (fake clients for the v1 and v2 SDK interfaces)",
                               "v1 is entered through an add-only verif hook calling the plugin's own sortClients (NewAWS needs a live AWS session)"]
    if viol:
        ck.violation(ck.replay_file("impl", {"what": viol[0]["viol"], "Case": viol[0]}))
    elif bad:
        ck.violation(ck.replay_file("corr", {"obligation": "C17 correspondence (Cases/C17Run.agree)", "Case": cases[bad[0]]}), False)
    elif ck.discharged != ck.obligations and not ck.violations:
        ck.violation(ck.replay_file("oblig", {"obligation": ck.cov.get("failed_obligations")}), False)
    return ck.finish()
