"""C15 — generic cache.  Theorems: coq/Properties/C15.v over Cache/Generic.v.  Tie: op sequences on the real
cache (all policies, capacities around every threshold, expiry, sync/async) compared with the model inside Coq;
property monitor (bounded, lookup, exact-once callbacks, no panic/deadlock) on the implementation alone."""
import json, os
import vlib
from vlib import Check

KIND = {"lru": "Lru", "lfu": "Lfu", "slru": "Slru", "tinylfu": "Tlfu"}


def z(n):
    return "(%d)" % n


def op_term(o):
    k = o["k"]
    a, v = o.get("a", 0), o.get("v", 0)
    if k == "set":
        return "COp (OSet %s %s)" % (z(a), z(v))
    if k == "get":
        return "COp (OGet %s)" % z(a)
    if k == "del":
        return "COp (ODelete %s)" % z(a)
    if k == "len":
        return "COp OLen"
    if k == "cap":
        return "COp OCap"
    if k == "close":
        return "COp OClose"
    if k == "adv":
        return "CAdv %s" % z(a)
    raise ValueError(k)


def obs_term(ob):
    r = ob["r"]
    v = ob.get("v", 0)
    res = {"unit": "RUnit", "hit": "RGet (Some %s)" % z(v), "miss": "RGet None", "true": "RBool true",
           "false": "RBool false", "int": "RInt %s" % z(v), "panic": "RPanic", "stuck": "RPanic"}[r]
    ev = "[" + "; ".join("(%s, %s)" % (z(e[0]), z(e[1])) for e in (ob.get("ev") or [])) + "]"
    return "(%s, %s)" % (res, ev)


def case_term(c):
    return ("{| k_kind := %s; k_cap := %s; k_expiry := %s; k_sync := %s; k_ops := [%s]; k_obs := [%s] |}" % (
        KIND[c["policy"]], z(c["cap"]), z(c["expiry"]), "true" if c["sync"] else "false",
        "; ".join(op_term(o) for o in c["ops"]), "; ".join(obs_term(o) for o in c["obs"])))


def victim_monitor(c):
    """LRU and LFU victims by DEFINITION (independent of the model's list structures): an entry evicted to make room is, at that moment,
    the least recently accessed (LRU) / one of the least frequently accessed (LFU) of the entries present.  Synchronous, non-expiring
    caches only (evictions are attributed to the operation that caused them)."""
    if c["policy"] not in ("lru", "lfu") or not c["sync"] or c["expiry"] > 0:
        return None
    cnt, last, clock, closed = {}, {}, 0, False
    for i, (o, ob) in enumerate(zip(c["ops"], c["obs"])):
        clock += 1
        k, a = o["k"], o.get("a", 0)
        if closed or k == "close":
            closed = True
            continue
        ev = ob.get("ev") or []
        if k == "set" and a in cnt:
            cnt[a] += 1
            last[a] = clock
        elif k == "get" and ob["r"] == "hit" and a in cnt:
            cnt[a] += 1
            last[a] = clock
        for e in ev:
            x = e[0]
            if x not in cnt:
                return "op %d: evicted key %d was not present" % (i, x)
            if c["policy"] == "lru" and last[x] != min(last.values()):
                return "op %d (%s %d): LRU evicted key %d although key %d was used less recently" % (i, k, a, x, min(last, key=last.get))
            if c["policy"] == "lfu" and cnt[x] != min(cnt.values()):
                y = min(cnt, key=cnt.get)
                return "op %d (%s %d): LFU evicted key %d (used %d times) although key %d was used only %d times" % (i, k, a, x, cnt[x], y, cnt[y])
            del cnt[x], last[x]
        if k == "set" and a not in cnt:
            cnt[a], last[a] = 1, clock
        elif k == "del":
            cnt.pop(a, None)
            last.pop(a, None)
    return None


def main(tier, seed, replay):
    ck = Check("C15", tier, seed)
    ck.coq_theorems()
    binp, ok, blog = vlib.go_build("vrun")
    ck.oblige(ok, "harness-build", blog)
    if not ok:
        ck.violation(ck.replay_file("build", {"obligation": "harness build against /repo failed", "log": blog[-4000:]}), False)
        return ck.finish()
    cases = []
    try:
        runs = []
        if replay:
            runs.append(["-replay", replay])
        else:
            n = 1500 if tier == "quick" else 12000
            runs.append(["-seed", str(seed), "-n", str(n)])
            runs.append(["-x", "enum", "-n", "3" if tier == "quick" else "5"])
        for extra in runs:
            outp = os.path.join(vlib.BUILD, "c15-%d.json" % os.getpid())
            rc, so, se, dt = vlib.run([binp, "cache", "-out", outp] + extra, timeout=900)
            ck.oblige(rc == 0, "harness-run " + " ".join(extra), so + se)
            if rc != 0:
                ck.violation(ck.replay_file("run", {"obligation": "harness run failed", "log": (so + se)[-4000:]}), False)
                return ck.finish()
            cases += json.load(open(outp))["cases"]
            os.remove(outp)
    finally:
        if os.path.exists(binp):
            os.remove(binp)

    conc = [c for c in cases if c.get("conc")]
    cases = [c for c in cases if not c.get("conc")]
    ck.cov["concurrent_set_during_eviction_callback_cases"] = len(conc)
    cviol = [c for c in conc if c.get("viol")]
    ck.oblige(not cviol, "capacity bound and exactly-once callbacks under a Set that arrives while an eviction callback is running (%d scenarios)" % len(conc), str(cviol[:1])[:1500])
    if cviol:
        ck.violation(ck.replay_file("conc", {"what": cviol[0]["viol"], "Case": {k: cviol[0][k] for k in ("policy", "cap", "sync", "conc")}}))
    nvict = 0
    for c in cases:
        m = victim_monitor(c)
        nvict += c["policy"] in ("lru", "lfu") and c["sync"] and c["expiry"] == 0
        if m:
            c["viol"] = (c.get("viol") or []) + ["victim: " + m]
    ck.cov["victim_definition_monitor_cases"] = nvict
    viol = [c for c in cases if c.get("viol")]
    bad, errs, dt = vlib.coq_mismatches("c15", "From Coq Require Import List ZArith.\nImport ListNotations.\nFrom Asherah Require Import Cache.Generic Cases.C15Run.\nOpen Scope Z_scope.",
                                        "ccase", [case_term(c) for c in cases], "mismatches_from", shard=300)
    for e in errs:
        ck.oblige(False, "correspondence-eval", e)
    ck.oblige(not bad and not errs, "correspondence model=impl on %d op sequences" % len(cases),
              json.dumps([cases[i] for i in bad[:2]])[:3000])
    distinct = set()
    dist = {}
    for c in cases:
        key = (c["policy"], c["cap"], c["expiry"] > 0, c["sync"])
        dist[str(key)] = dist.get(str(key), 0) + 1
        nev = sum(len(o.get("ev") or []) for o in c["obs"])
        if nev > 0:
            distinct.add(json.dumps([c["policy"], c["cap"], c["expiry"], c["sync"], c["ops"]]))
    ck.cov.update({
        "evaluations": len(cases), "distinct_nontrivial": len(distinct),
        "rule": "random op sequences (Set/Get/Delete/Len/Cap/Close/clock advance at expiry-1/expiry/expiry+1) over capacity+1..3 keys, "
                "capacities {1,2,3,4,5,6,9,10,11,99,100,101,199,200,201}, 4 policies, expiry on/off, sync/async; plus ALL sequences of "
                "length L over 8-9 symbols for capacities 1..3 x 4 policies x expiry on/off; non-trivial = distinct sequence with >=1 eviction callback",
        "ops_total": sum(len(c["ops"]) for c in cases),
        "config_cells": len(dist),
        "traces_validated_against_impl": len(cases) - len(bad),
        "samples": [{"policy": c["policy"], "cap": c["cap"], "expiry": c["expiry"], "sync": c["sync"], "ops": c["ops"][:12], "obs": c["obs"][:12]} for c in cases[:2]],
    })
    ck.cov["trusted_base"] += ["container/list, sync.RWMutex, channels modelled by functional lists / sequential steps",
                               "TinyLFU sketch/bloom filter/hash not modelled: victim choice between window candidate and main victim taken from the observed eviction (theorems hold for every choice)"]
    if viol:
        ck.violation(ck.replay_file("impl", {"what": viol[0]["viol"], "Case": viol[0]}))
    elif bad:
        ck.violation(ck.replay_file("corr", {"obligation": "C15 correspondence (Cases/C15Run.agree)", "Case": cases[bad[0]]}), False)
    elif ck.discharged != ck.obligations and not ck.violations:
        ck.violation(ck.replay_file("oblig", {"obligation": ck.cov.get("failed_obligations")}), False)
    return ck.finish()
