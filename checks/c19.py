"""C19 — gRPC sidecar stream.  Theorems: coq/Properties/C19.v (Server/Stream.v).  Tie: request sequences through the
real handler (server.NewAppEncryption, in-memory stream; exhaustive up to a length + random) compared with the model
inside Coq; monitor: one response per request, no nil response, no panic, no stream error."""
import json
import vlib, envcheck
from vlib import Check, coq_str


def req_term(sym):
    if sym == "empty":
        return "QEmpty"
    if sym.startswith("gs:"):
        return "QGetSession %s" % coq_str(sym[3:].encode())
    if sym.startswith("enc:"):
        return "QEncrypt %d" % int(sym[4:])
    _, a, b, v = sym.split(":")
    # every structurally incomplete or corrupt record is one the abstract session refuses (RBad)
    return "QDecrypt (%s)" % {"g": "RG %s %s" % (a, b), "none": "RNone"}.get(v, "RBad %s %s" % (a, b))


PART = {"a": 1, "bb": 2}


def property_monitor(c):
    """The property's own clauses on one stream (responses: 0 session-ok, 1 encrypted, 100+p decrypted payload p, 3 error)."""
    sess = None          # partition of the successful get-session
    attempted = False    # a get-session (successful or rejected) has been handled on this stream
    for i, (q, o) in enumerate(zip(c["reqs"], c["obs"])):
        if q.startswith("gs:"):
            first, attempted = not attempted, True
            if not first:
                if o != 3:
                    return "request %d: a second get-session was not answered with an error response" % i
            elif q[3:] and o == 0:
                sess = q[3:]
            elif q[3:] and o != 0:
                return "request %d: get-session for a valid partition failed" % i
            elif not q[3:] and o != 3:
                return "request %d: get-session with an empty partition id was not refused" % i
        elif q.startswith("enc:"):
            if sess is None and o != 3:
                return "request %d: encrypt before a successful get-session was not answered with an error response" % i
            if sess is not None and o != 1:
                return "request %d: encrypt on an established session failed" % i
        elif q.startswith("dec:"):
            _, a, b, v = q.split(":")
            if sess is None:
                if o != 3:
                    return "request %d: decrypt before a successful get-session was not answered with an error response" % i
            elif v == "g" and PART.get(sess) == int(a):
                if o != 100 + int(b):
                    return "request %d: a genuine record of the session's partition did not decrypt to its payload" % i
            elif o != 3:
                return "request %d: a foreign, corrupt or empty record was not answered with an error response (got %d)" % (i, o)
        elif o != 3:
            return "request %d: an empty request was not answered with an error response" % i
    if len(c["obs"]) != len(c["reqs"]):
        return "%d requests received %d responses" % (len(c["reqs"]), len(c["obs"]))
    return None


def main(tier, seed, replay):
    ck = Check("C19", tier, seed)
    ck.coq_theorems()
    runs = [["-replay", replay]] if replay else [["-seed", str(seed), "-n", "300" if tier == "quick" else "5000", "-tier", tier]]
    cases = envcheck.run_harness(ck, "srv", runs)
    if cases is None:
        return ck.finish()
    multi = [c for c in cases if c.get("multi")]
    cases = [c for c in cases if not c.get("multi")]
    ck.cov["concurrent_stream_scenarios"] = len(multi)
    mviol = [c for c in multi if c.get("viol")]
    ck.oblige(not mviol, "a stream keeps working while sibling streams of its partition end and the partition leaves the session cache (%d scenarios)" % len(multi), str(mviol[:1])[:1500])
    for c in cases:
        if not c.get("viol"):
            m = property_monitor(c)
            if m:
                c["viol"] = [m]
    viol = [c for c in cases if c.get("viol")]
    if replay and not cases:      # replay of a concurrent-stream scenario: nothing for the sequential model to compare
        ck.cov.update({"evaluations": len(multi), "distinct_nontrivial": len(multi), "rule": "replay"})
        if mviol:
            ck.violation(ck.replay_file("multi", {"what": mviol[0]["viol"], "Case": mviol[0]}))
        return ck.finish()
    terms = ["([%s], [%s])" % ("; ".join(req_term(s) for s in c["reqs"]), "; ".join(str(o) for o in c["obs"])) for c in cases]
    bad, errs, dt = vlib.coq_mismatches("c19", "From Asherah Require Import Base.Str Server.Stream Cases.C19Run.",
                                        "list (req srec nat) * list nat", terms, "mismatches_from", shard=600)
    for e in errs:
        ck.oblige(False, "correspondence-eval", e)
    ck.oblige(not bad and not errs, "correspondence model=impl on %d request sequences" % len(cases), json.dumps([cases[i] for i in bad[:3]]))
    nt = set(json.dumps(c["reqs"]) for c in cases if any(o in (1, 101, 102) for o in c["obs"]))
    ck.cov.update({
        "evaluations": len(cases), "distinct_nontrivial": len(nt), "exhaustive": True,
        "rule": "ALL sequences up to length %d over {get-session a/bb/empty id, encrypt, decrypt genuine own / genuine foreign partition / corrupt / "
                "empty record / record without parent key meta / record without key, empty request} plus random sequences of 4-15 requests, each on its own stream of one server; end-of-stream after each; "
                "non-trivial = distinct sequence with at least one successful encrypt/decrypt" % (3 if tier == "quick" else 5),
        "traces_validated_against_impl": len(cases) - len(bad),
        "samples": cases[40:43],
    })
    ck.cov["trusted_base"] += ["gRPC transport replaced by an in-memory AppEncryption_SessionServer; protobuf accessor semantics (nil-safe getters)",
                               "the SDK session behind the handler is abstract in the theorems (any behaviour); in the comparison it is the real SDK with memory metastore + static KMS"]
    if mviol:
        ck.violation(ck.replay_file("multi", {"what": mviol[0]["viol"], "Case": mviol[0]}))
    elif viol:
        ck.violation(ck.replay_file("impl", {"what": viol[0]["viol"], "Case": viol[0]}))
    elif bad:
        ck.violation(ck.replay_file("corr", {"obligation": "C19 correspondence (Cases/C19Run)", "Case": cases[bad[0]]}), False)
    elif ck.discharged != ck.obligations and not ck.violations:
        ck.violation(ck.replay_file("oblig", {"obligation": ck.cov.get("failed_obligations")}), False)
    return ck.finish()
