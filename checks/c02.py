"""C02 — see coq/Properties/C02.v (theorems) and lib/envcheck.py (tie + monitor)."""
import envcheck
from vlib import Check

RUNS = {
    "C01": lambda seed, n: [["-seed", str(seed), "-n", str(n)], ["-seed", str(seed + 1), "-n", str(n // 3), "-x", "nofault"]],
    "C02": lambda seed, n: [["-seed", str(seed), "-n", str(n)]],
    "C03": lambda seed, n: [["-seed", str(seed), "-n", str(n), "-x", "leak"]],
    "C04": lambda seed, n: [["-seed", str(seed), "-n", str(n)]],
    "C05": lambda seed, n: [["-seed", str(seed), "-n", str(n)]],
    "C07": lambda seed, n: [["-seed", str(seed), "-n", str(n), "-x", "malformed"]],
    "C09": lambda seed, n: [["-seed", str(seed), "-n", str(n)], ["-seed", str(seed + 1), "-n", str(n // 3), "-x", "malformed"]],
    "C10": lambda seed, n: [["-seed", str(seed), "-n", str(n)]],
    "C20": lambda seed, n: [["-seed", str(seed), "-n", str(n), "-x", "norevoke"]],
}

RULE = ("random histories over 14 configurations (default, minute precision, RevokeCheckInterval 0, no cache, SK-only, shared LRU-2, shared simple, SK LRU-1, IK SLRU-1, IK LFU-2, "
        "tinylfu, session cache 2, session cache 1 with expiry, no-cache+shared): 1-2 factories sharing one metastore, 1-3 partitions, encrypt/decrypt "
        "(25% with 1-2 injected faults: err / false duplicate / error-after-write on any boundary call), clock advances drawn from boundary values "
        "(+-1ns around RCI, expiry, precision), revocation of latest/older IK/SK, session close/reopen, factory restart, final decrypt of every record "
        "and full teardown; non-trivial = distinct history that reached the property's interesting state (envcheck.nontrivial)")


def main(tier, seed, replay):
    prop = "C02"
    ck = Check(prop, tier, seed)
    ck.coq_theorems()
    n = 240 if tier == "quick" else 2400
    is_meta_replay = bool(replay) and '"impl"' in open(replay).read()[:4000]
    # "whatever metastore calls failed ... or were lost": the real metastore implementations over their fakes, with one request in six
    # failing inside the service: a Store whose write failed must never report success (the envelope code trusts that boolean)
    if not replay or is_meta_replay:
        mruns = [["-replay", replay]] if replay else [["-seed", str(seed + 13), "-n", "600" if tier == "quick" else "6000"]]
        mcases = envcheck.run_harness(ck, "meta", mruns)
        if mcases is None:
            return ck.finish()
        mbad = [c for c in mcases if any("reported success although" in v for v in c.get("viol") or [])]
        ck.cov["metastore_store_under_service_faults"] = {"cases": len(mcases), "faulted_stores": sum(1 for c in mcases for o in c["ops"] if o.get("fault") and o["k"] == "store")}
        ck.oblige(not mbad, "no metastore implementation reports a failed write as stored (%d op sequences with injected service failures)" % len(mcases), str(mbad[:1])[:2000])
        if mbad:
            ck.violation(ck.replay_file("meta", {"what": [v for v in mbad[0]["viol"] if "reported success" in v][:3] +
                                                 ["the envelope code caches and returns a key whose Store reported success: records are then written under a key that is not in the metastore"],
                                                 "Case": mbad[0]}))
        if replay:
            ck.cov.update({"evaluations": len(mcases), "distinct_nontrivial": len(mcases), "rule": "replay"})
            return ck.finish()
    runs = [["-replay", replay]] if replay else RUNS[prop](seed, n)
    cases = envcheck.run_harness(ck, "env", runs)
    if cases is None:
        return ck.finish()
    return envcheck.finish_env(ck, prop, cases, RULE)
