"""C14 — racing key creators converge on persisted keys; the metastore is never overwritten.  Theorems: coq/Properties/C14.v.
Tie: 2-3 real processes (factories with their own caches) on one metastore, interleaved at the granularity of individual
metastore calls by the schedule controller (random and PCT-priority schedules) from cold / warm / IK-expired / SK-expired /
IK-revoked / SK-revoked starting states; monitors = the property statement."""
import json
import envcheck
from vlib import Check


def main(tier, seed, replay):
    ck = Check("C14", tier, seed)
    ck.coq_theorems()
    # key creation while time passes: KMS round trips during which the virtual clock crosses second / precision / interval boundaries
    # (sequential histories of the envelope harness, judged by the end state the property names: stored keys that others can load)
    slow_replay = bool(replay) and '"Ops"' in open(replay).read()[:4000]
    if not replay or slow_replay:
        scases = envcheck.run_harness(ck, "env", [["-replay", replay]] if replay else [["-seed", str(seed + 17), "-n", "150" if tier == "quick" else "1500", "-x", "slowkms"]])
        if scases is None:
            return ck.finish()
        sv = list(envcheck.MONITORS["C14"](scases))
        ck.oblige(not sv, "keys created while KMS round trips take time are stored under the stamps their users name (%d histories)" % len(scases), json.dumps(sv[:1])[:2000])
        ck.cov["histories_with_slow_kms"] = len(scases)
        ck.cov["operations_with_a_slow_kms"] = sum(1 for c in scases for o in c["ops"] if o.get("slowkms"))
        if sv:
            v = sv[0]
            ck.violation(ck.replay_file("slowkms", {"what": v["what"], "failing_op": v["op"], "Case": envcheck.shrink_ops(scases[v["case"]], v["op"]),
                                                    "observed": scases[v["case"]]["obs"][v["op"]]}))
        if slow_replay:
            ck.cov.update({"evaluations": len(scases), "distinct_nontrivial": len(scases), "rule": "replay"})
            return ck.finish()
    runs = [["-replay", replay]] if replay else [["-seed", str(seed), "-n", "480" if tier == "quick" else "6000"]]
    cases = envcheck.run_harness(ck, "race", runs) if not (replay and "metaconc" in replay) else []
    if cases is None:
        return ck.finish()
    viol = [c for c in cases if c.get("viol")]
    # the SDK's own in-memory metastore under racing Stores of one key: exactly one wins, a stored record is never replaced
    mruns = [["-replay", replay]] if replay and "metaconc" in replay else [["-seed", str(seed + 5), "-n", "120" if tier == "quick" else "1500"]]
    mcases = envcheck.run_harness(ck, "metaconc", mruns) if not (replay and "metaconc" not in replay) else []
    if mcases is None:
        return ck.finish()
    mviol = [c for c in mcases if c.get("viol")]
    ck.oblige(not mviol, "in-memory metastore: racing Stores of one key never replace a stored record (%d controlled schedules)" % len(mcases), json.dumps(mviol[:1])[:3000])
    ck.cov["memory_metastore_store_schedules"] = len(mcases)
    # a refused creator adopts a stored key by reading it back: the metastore implementations' reads must see every completed Store
    # (strong consistency), judged against the key-table specification inside Coq
    if not replay or '"impl"' in open(replay).read()[:3000]:
        import c13
        kruns = [["-replay", replay]] if replay else [["-seed", str(seed + 21), "-n", "600" if tier == "quick" else "6000"]]
        kcases = envcheck.run_harness(ck, "meta", kruns)
        if kcases is None:
            return ck.finish()
        kbad, kerrs, _ = c13.compare("c14m", kcases)
        for e in kerrs:
            ck.oblige(False, "correspondence-eval", e)
        ck.oblige(not kbad and not kerrs, "every metastore implementation answers reads like the key table on %d op sequences (what a refused creator reads back)" % len(kcases), json.dumps([kcases[i] for i in kbad[:1]])[:3000])
        ck.cov["metastore_read_back_sequences"] = len(kcases)
        if kbad:
            ck.violation(ck.replay_file("metastore", {"what": "a completed Store is not visible to a later read of the same metastore implementation: a creator whose insert was refused cannot adopt the stored key",
                                                      "Case": kcases[kbad[0]]}))
        if replay:
            ck.cov.update({"evaluations": len(kcases), "distinct_nontrivial": len(kcases), "rule": "replay"})
            return ck.finish()
    nt = set(json.dumps([c["state"], c["cfg"], c["procs"], c.get("trace")]) for c in cases if c.get("refused", 0) >= 1)
    ck.cov.update({
        "evaluations": len(cases), "distinct_nontrivial": len(nt),
        "rule": "one case = 2-3 processes each doing GetSession+Encrypt for the same partition, parked before every metastore call and released one at a time by a seeded "
                "(uniform or PCT-priority) schedule; 8 starting states (cold, warm, IK/SK expired, IK/SK revoked, and SK revoked / expired while one racer still trusts its cached copy) x {default, minute precision, no cache, shared LRU-2}; non-trivial = distinct (state, config, schedule) in which at "
                "least one insert was refused",
        "refused_inserts": sum(c.get("refused", 0) for c in cases), "starting_states": sorted(set(c["state"] for c in cases)),
        "samples": [{k: cases[0][k] for k in ("state", "cfg", "procs", "trace", "stores", "refused")}],
    })
    ck.cov["trusted_base"] += ["processes are goroutines with separate factories and caches sharing one in-memory metastore and KMS; interleaving granularity = metastore calls",
                               "the metastore spy is insert-only (C13 is about the real implementations)"]
    if mviol:
        v = mviol[0]
        ck.violation(ck.replay_file("metaconc", {"what": v["viol"], "Case": {k: v[k] for k in ("seed", "threads", "keys")}, "schedule": v.get("trace")}))
    elif viol:
        v = viol[0]
        ck.violation(ck.replay_file("race", {"what": v["viol"], "Case": {k: v[k] for k in ("state", "cfg", "procs", "seed")}, "schedule": v.get("trace")}))
    elif ck.discharged != ck.obligations and not ck.violations:
        ck.violation(ck.replay_file("oblig", {"obligation": ck.cov.get("failed_obligations")}), False)
    return ck.finish()
