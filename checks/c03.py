"""C03 — see coq/Properties/C03.v (theorems) and lib/envcheck.py (tie + monitor)."""
import envcheck, conccheck
from vlib import Check

RUNS = {
    "C01": lambda seed, n: [["-seed", str(seed), "-n", str(n)], ["-seed", str(seed + 1), "-n", str(n // 3), "-x", "nofault"]],
    "C02": lambda seed, n: [["-seed", str(seed), "-n", str(n)]],
    "C03": lambda seed, n: [["-seed", str(seed), "-n", str(n), "-x", "leak"]],
    "C04": lambda seed, n: [["-seed", str(seed), "-n", str(n)]],
    "C05": lambda seed, n: [["-seed", str(seed), "-n", str(n)]],
    "C07": lambda seed, n: [["-seed", str(seed), "-n", str(n), "-x", "malformed"]],
    "C09": lambda seed, n: [["-seed", str(seed), "-n", str(n)], ["-seed", str(seed + 1), "-n", str(n // 3), "-x", "malformed"]],
    "C10": lambda seed, n: [["-seed", str(seed), "-n", str(n)]],
    "C20": lambda seed, n: [["-seed", str(seed), "-n", str(n), "-x", "norevoke"]],
}

RULE = ("random histories over 14 configurations (default, minute precision, RevokeCheckInterval 0, no cache, SK-only, shared LRU-2, shared simple, SK LRU-1, IK SLRU-1, IK LFU-2, "
        "tinylfu, session cache 2, session cache 1 with expiry, no-cache+shared): 1-2 factories sharing one metastore, 1-3 partitions, encrypt/decrypt "
        "(25% with 1-2 injected faults: err / false duplicate / error-after-write on any boundary call), clock advances drawn from boundary values "
        "(+-1ns around RCI, expiry, precision), revocation of latest/older IK/SK, session close/reopen, factory restart, final decrypt of every record "
        "and full teardown; non-trivial = distinct history that reached the property's interesting state (envcheck.nontrivial)")


def kms_section(ck, tier, seed, replay):
    """The AWS KMS plugins with debug logging on: no plaintext key (system key, KMS data key) in any log line, in any rendering."""
    kruns = [["-replay", replay]] if replay else [["-seed", str(seed + 3), "-n", "400" if tier == "quick" else "4000", "-x", "leak"]]
    kcases = envcheck.run_harness(ck, "kms", kruns)
    if kcases is None:
        return False
    ck.cov["kms_plugin_cells_with_debug_log_scan"] = len(kcases)
    ck.cov["kms_plugin_cells_with_region_failover"] = sum(1 for c in kcases if c.get("wrapok") and c.get("genregion", 0) != c.get("pref", 0))
    kbad = [c for c in kcases if any("debug log line" in v for v in c.get("viol") or [])]
    if kbad:
        ck.violation(ck.replay_file("kms", {"what": [v for v in kbad[0]["viol"] if "debug log line" in v], "Case": kbad[0]}))
    return True


def main(tier, seed, replay):
    prop = "C03"
    ck = Check(prop, tier, seed)
    ck.coq_theorems()
    if replay and '"IKQ"' in open(replay).read():
        icases = envcheck.run_harness(ck, "c06", [["-replay", replay, "-n", "0"]])
        if icases is not None:
            shared = [c for c in icases if c.get("EncOK") and c["P"] != c["Q"] and c.get("IKQ") and c.get("IKQ") == c.get("IKP") and c.get("Suffix") == c.get("SuffixQ")]
            if shared:
                ck.violation(ck.replay_file("sharedik", {"what": "two different partitions get the same intermediate-key id", "Case": shared[0]}))
            ck.cov.update({"evaluations": len(icases), "distinct_nontrivial": len(icases), "rule": "replay"})
        return ck.finish()
    if replay and '"wrapv"' in open(replay).read():
        kms_section(ck, tier, seed, replay)
        ck.cov.update({"evaluations": 1, "distinct_nontrivial": 1, "rule": "replay"})
        return ck.finish()
    n = 240 if tier == "quick" else 2400
    runs = [["-replay", replay]] if replay else RUNS[prop](seed, n)
    if replay and "sched-" in replay:
        conccheck.run(ck, "keycache", tier, seed, replay, only="[hierarchy]")
        return ck.finish()
    cases = envcheck.run_harness(ck, "env", runs)
    if cases is None:
        return ck.finish()
    # a failing random source (nonce-sized reads fail during three encrypts): an Encrypt that still returns a record must not
    # carry a degenerate nonce, and no (intermediate key, nonce) pair may repeat; afterwards the session must work again
    if not replay or "randfault" in replay:
        rcases = envcheck.run_harness(ck, "randfault", [["-n", "4"]])
        if rcases is None:
            return ck.finish()
        ck.cov["random_source_fault_cases"] = len(rcases)
        for rc_ in rcases:
            what = list(rc_.get("viol") or [])
            seen = set()
            for o in rc_["outcomes"]:
                if o["r"] != "enc":
                    continue
                for which in ("data_nonce", "key_nonce"):
                    if o.get(which) and set(o[which]) == {"0"}:
                        what.append("Encrypt returned a record sealed with an all-zero %s while the random source was failing" % which.replace("_", " "))
                kn = (o.get("ik"), o.get("ikc"), o.get("key_nonce"))
                if kn in seen:
                    what.append("the same (intermediate key, nonce) pair wrapped two data keys: %s" % (kn,))
                seen.add(kn)
            if rc_["hits"] == 0:   # the injection had no effect (nonces no longer drawn through crypto/rand.Reader): nothing to judge
                ck.cov["random_source_fault_ineffective"] = ck.cov.get("random_source_fault_ineffective", 0) + 1
            if rc_["after"] != "ok":
                what.append("after the random source recovered the session does not work: " + rc_["after"])
            if what:
                ck.violation(ck.replay_file("randfault", {"what": what, "Case": rc_}))
                break
        if replay:
            return ck.finish()
    if not replay:
        if not kms_section(ck, tier, seed, None):
            return ck.finish()
    # "a data key only under the partition's intermediate key": different partitions of one service/product must not share an intermediate
    # key id (two million ids swept through the SDK's own id construction; a colliding pair is then run through real sessions)
    if not replay:
        icases = envcheck.run_harness(ck, "c06", [["-seed", str(seed), "-n", "1"]])
        if icases is None:
            return ck.finish()
        shared = [c for c in icases if c.get("EncOK") and c["P"] != c["Q"] and c.get("IKQ") and c.get("IKQ") == c.get("IKP") and c.get("Suffix") == c.get("SuffixQ")]
        ck.cov["partition_ids_swept_for_shared_intermediate_key_ids"] = 2000000
        ck.oblige(not shared, "no two partitions of one service/product share an intermediate-key id (sweep of 2,000,000 ids)", str(shared[:1])[:1500])
        if shared:
            ck.violation(ck.replay_file("sharedik", {"what": "two different partitions get the same intermediate-key id: the data keys of the one are wrapped under the other's intermediate key" +
                                                             (" and its session decrypts them" if shared[0].get("Foreign") == "plain" else ""), "Case": shared[0]}))
    # the key hierarchy under concurrency: goroutines of several partitions sharing the factory's caches (controlled schedules)
    if not replay:
        conccheck.run(ck, "keycache", tier, seed, None, n_quick=80, n_thorough=800, only="[hierarchy]")
    return envcheck.finish_env(ck, prop, cases, RULE)
