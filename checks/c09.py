"""C09 — see coq/Properties/C09.v (theorems) and lib/envcheck.py (tie + monitor)."""
import envcheck
from vlib import Check

RUNS = {
    "C01": lambda seed, n: [["-seed", str(seed), "-n", str(n)], ["-seed", str(seed + 1), "-n", str(n // 3), "-x", "nofault"]],
    "C02": lambda seed, n: [["-seed", str(seed), "-n", str(n)]],
    "C03": lambda seed, n: [["-seed", str(seed), "-n", str(n), "-x", "leak"]],
    "C04": lambda seed, n: [["-seed", str(seed), "-n", str(n)]],
    "C05": lambda seed, n: [["-seed", str(seed), "-n", str(n)]],
    "C07": lambda seed, n: [["-seed", str(seed), "-n", str(n), "-x", "malformed"]],
    "C09": lambda seed, n: [["-seed", str(seed), "-n", str(n)], ["-seed", str(seed + 1), "-n", str(n // 3), "-x", "malformed"]],
    "C10": lambda seed, n: [["-seed", str(seed), "-n", str(n)]],
    "C20": lambda seed, n: [["-seed", str(seed), "-n", str(n), "-x", "norevoke"]],
}

RULE = ("random histories over 14 configurations (default, minute precision, RevokeCheckInterval 0, no cache, SK-only, shared LRU-2, shared simple, SK LRU-1, IK SLRU-1, IK LFU-2, "
        "tinylfu, session cache 2, session cache 1 with expiry, no-cache+shared): 1-2 factories sharing one metastore, 1-3 partitions, encrypt/decrypt "
        "(25% with 1-2 injected faults: err / false duplicate / error-after-write on any boundary call), clock advances drawn from boundary values "
        "(+-1ns around RCI, expiry, precision), revocation of latest/older IK/SK, session close/reopen, factory restart, final decrypt of every record "
        "and full teardown; non-trivial = distinct history that reached the property's interesting state (envcheck.nontrivial)")


def main(tier, seed, replay):
    prop = "C09"
    ck = Check(prop, tier, seed)
    ck.coq_theorems()
    n = 240 if tier == "quick" else 2400
    runs = [["-replay", replay]] if replay else RUNS[prop](seed, n)
    cases = envcheck.run_harness(ck, "env", runs)
    if cases is None:
        return ck.finish()
    return envcheck.finish_env(ck, prop, cases, RULE)
