"""C06 — partition isolation.  Theorems: coq/Properties/C06.v.  Tie: real sessions over adversarial id
pairs vs the Partition model (ids the SDK used + guard outcome), plus the property monitor on the
implementation (foreign plaintext = violation unless it matches known finding B)."""
import json, os
import vlib
from vlib import Check, coq_str


def unh(h):
    return bytes.fromhex(h)


def opt(h):
    return "None" if h is None else "(Some %s)" % coq_str(unh(h))


def case_term(c):
    return ("{| c_p := %s; c_q := %s; c_svc := %s; c_prod := %s; c_sufp := %s; c_sufq := %s; "
            "o_ikq := %s; o_skq := %s; o_ikp := %s; o_foreign_plain := %s; o_empty_refused := %s |}") % (
        coq_str(unh(c["P"])), coq_str(unh(c["Q"])), coq_str(unh(c["Svc"])), coq_str(unh(c["Prod"])),
        opt(c["Suffix"]), opt(c["SuffixQ"]), coq_str(unh(c["IKQ"])), coq_str(unh(c["SKQ"])), coq_str(unh(c["IKP"])),
        "true" if c["Foreign"] == "plain" else "false", "true" if c["EmptyRefused"] else "false")


def ik_default(p, svc, prod):
    return b"_IK_" + p + b"_" + svc + b"_" + prod


def known_b(c):
    """Signature of known finding B: reader is region-suffixed and the foreign id extends the reader's
    unsuffixed IK id, or the two sessions run under DIFFERENT suffix configurations and the documented id construction
    gives both partitions the same id string.  (Two different partition ids under one configuration never share an id
    string by construction; if they do, that is a new violation, e.g. an id normalised before use.)"""
    p, svc, prod = unh(c["P"]), unh(c["Svc"]), unh(c["Prod"])
    ikq = unh(c["IKQ"])
    if c["IKQ"] == c["IKP"] and c["Suffix"] != c["SuffixQ"]:
        return True
    return c["Suffix"] is not None and ikq.startswith(ik_default(p, svc, prod))


def main(tier, seed, replay):
    ck = Check("C06", tier, seed)
    ck.coq_theorems()
    if replay and '"family"' in open(replay).read():
        import conccheck
        conccheck.run(ck, "sesscache", tier, seed, replay, only="record names intermediate key")
        ck.cov.update({"evaluations": 1, "distinct_nontrivial": 1, "rule": "replay"})
        return ck.finish()
    if replay and '"stress"' in open(replay).read():
        import c08
        c08.free_running(ck, tier, only="another partition's session")
        ck.cov.update({"evaluations": 1, "distinct_nontrivial": 1, "rule": "replay (free-running rounds are not deterministic)"})
        return ck.finish()
    n = 3000 if tier == "quick" else 40000
    binp, ok, blog = vlib.go_build("vrun")
    ck.oblige(ok, "harness-build", blog)
    if not ok:
        ck.violation(ck.replay_file("build", {"obligation": "harness build against /repo failed", "log": blog[-4000:]}), False)
        return ck.finish()
    try:
        outp = os.path.join(vlib.BUILD, "c06-%d.json" % os.getpid())
        args = [binp, "c06", "-seed", str(seed), "-n", str(n), "-out", outp]
        if replay:
            args += ["-replay", replay, "-n", "0"]
        rc, so, se, dt = vlib.run(args, timeout=600)
        ck.oblige(rc == 0, "harness-run", so + se)
        if rc != 0:
            ck.violation(ck.replay_file("run", {"obligation": "harness run failed", "log": (so + se)[-4000:]}), False)
            return ck.finish()
        cases = json.load(open(outp))["cases"]
        os.remove(outp)
        refused = [c for c in cases if c.get("Refused")]
        cases = [c for c in cases if not c.get("Refused")]
        ck.cov["non_empty_ids_refused_by_the_sdk"] = len(refused)
    finally:
        if os.path.exists(binp):
            os.remove(binp)

    # ---- property monitor on the implementation alone
    viol, known, nontrivial = [], 0, set()
    for c in cases:
        if c["P"] == c["Q"]:
            continue
        if not c["EncOK"] or c["Own"] != "plain":
            viol.append(("own-roundtrip", c))
            continue
        nontrivial.add((c["P"], c["Q"], c["Svc"], c["Prod"], c["Suffix"], c["SuffixQ"]))
        if c["Foreign"] == "plain" or c["Foreign"] == "other":
            if known_b(c):
                known += 1
            else:
                viol.append(("foreign-plaintext", c))
        if not c["EmptyRefused"]:
            viol.append(("empty-partition-accepted", c))
    # ---- correspondence with the model, evaluated inside Coq
    mism = []
    bad, errs, dt = vlib.coq_mismatches("c06", "From Asherah Require Import Base.Str Envelope.Partition Cases.C06Run.",
                                        "c06_case", [case_term(c) for c in cases], "mismatches_from")
    for e in errs:
        ck.oblige(False, "correspondence-eval", e)
        mism.append(("coq-eval-failed", None))
    for i in bad:
        mism.append(("model-disagrees", cases[i]))
    ck.oblige(not mism, "correspondence model=impl on %d id pairs" % len(cases),
              json.dumps([m[1] for m in mism[:3]]))
    ck.cov.update({
        "evaluations": len(cases), "distinct_nontrivial": len(nontrivial),
        "rule": "adversarial partition-id pairs (pieces: '_', service/product tokens, region tails, digits, NUL, UTF-8) "
                "x {default, same-region, reader-only-suffixed, different regions} x policy {default, shared IK cache, session cache, both, no cache} x "
                "{two factories, one factory whose caches already hold the other partition's keys}; non-trivial = distinct P!=Q case whose own round trip succeeded",
        "traces_validated_against_impl": len(cases) - len(mism),
        "known_finding_hits": known,
        "cells": {k: sum(1 for c in cases if (c.get("Pol") or "default") + ("/same-factory" if c.get("Same") else "") == k)
                  for k in sorted(set((c.get("Pol") or "default") + ("/same-factory" if c.get("Same") else "") for c in cases))},
        "samples": [{k: (bytes.fromhex(v).decode("latin-1") if isinstance(v, str) and k in ("P", "Q", "Svc", "Prod", "IKQ", "IKP") else v)
                     for k, v in c.items()} for c in cases[:3]],
    })
    ck.cov["trusted_base"] += ["fmt.Sprintf %s formatting and strings.Index are modelled by list append / prefix",
                               "AES-GCM + StaticKMS run for real in the harness; the model only predicts the guard outcome"]
    listed = any(f["id"] == "C06-B" for f in vlib.known_findings()["findings"])
    if known and not listed:
        viol.append(("foreign-plaintext (finding B not listed)", next(c for c in cases if c["P"] != c["Q"] and c["Foreign"] == "plain")))
    if known and listed:
        ck.known_finding("B: region-suffixed session accepts a foreign partition whose key id extends its unsuffixed id "
                         "(e.g. session 'a' decrypts partition 'a_svc_prod_x'); %d generated pairs hit it" % known)
    if not replay and not viol:
        # concurrent GetSession calls for different partitions on one factory (free-running goroutines, harness/cmd/vstress): the session handed
        # out for partition p must be p's - judged by the key id its records carry
        import c08, conccheck
        c08.free_running(ck, tier, only="another partition's session")
        # ... and the controlled schedules of the session-cache family (yield points before every lock acquisition of session_cache.go):
        # overlapping GetSession calls for different partitions; a record produced through the session of partition p names p's key id
        if not ck.violations:
            conccheck.run(ck, "sesscache", tier, seed, None, n_quick=120, n_thorough=1200, only="record names intermediate key")
    if viol:
        ck.violation(ck.replay_file("impl", {"what": viol[0][0], "Case": viol[0][1]}))
    elif mism and not ck.violations:
        # correspondence broke but the monitor saw no forbidden plaintext
        ck.violation(ck.replay_file("corr", {"obligation": "C06 correspondence (Cases/C06Run.c06_agree)", "what": mism[0][0], "Case": mism[0][1]}), False)
    elif ck.discharged != ck.obligations and not ck.violations:
        ck.violation(ck.replay_file("oblig", {"obligation": ck.cov.get("failed_obligations")}), False)
    return ck.finish()
