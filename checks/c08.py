"""C08 — a key in use is never destroyed underneath its user.  Theorems: coq/Properties/C08.v (KeyCache/KeyCacheConc.v).
Tie: seeded random schedules of 2-4 real goroutines (encrypt / decrypt / open / close sessions against one factory with
capacity-1/2 shared, per-session and system-key caches) under the cooperative controller; yield points are inserted by the
overlay before every lock acquisition, reference-count update and condition wait of key_cache.go / pkg/cache."""
import conccheck, envcheck
from vlib import Check


def once_only_callbacks(ck, tier, seed, replay):
    """The key caches release their reference on a key from the cache's eviction callback: a callback that runs twice for one entry
    (or for an entry that is no longer cached) releases a reference that belongs to a user of the key.  The generic cache is driven
    with op sequences over every policy and capacity threshold and each callback is matched against the entries present."""
    runs = [["-replay", replay]] if replay else [["-seed", str(seed + 11), "-n", "700" if tier == "quick" else "8000"]]
    cases = envcheck.run_harness(ck, "cache", runs)
    if cases is None:
        return False
    ck.cov["eviction_callback_once_only_cases"] = len(cases)
    bad = [c for c in cases if any("callback for key" in v or "unexpected callback" in v for v in c.get("viol") or [])]
    ck.oblige(not bad, "the eviction callback runs at most once per cached entry on %d op sequences (all policies)" % len(cases), str(bad[:1])[:2000])
    if bad:
        what = [v for v in bad[0]["viol"] if "callback" in v][:3]
        ck.violation(ck.replay_file("cachecb", {"what": what + ["the key cache's callback releases the cache's reference: a second run destroys a key its users still hold"],
                                               "Case": bad[0]}))
    return True


def main(tier, seed, replay):
    ck = Check("C08", tier, seed)
    ck.coq_theorems()
    if replay and "cachecb" in replay:
        once_only_callbacks(ck, tier, seed, replay)
        ck.cov.update({"evaluations": 1, "distinct_nontrivial": 1, "rule": "replay"})
        return ck.finish()
    if replay and "sesscache" in replay:
        conccheck.run(ck, "sesscache", tier, seed, replay, only="destroyed")
        return ck.finish()
    cases = conccheck.run(ck, "keycache", tier, seed, replay)
    if cases is not None and not replay:
        # "... or close of another session": holders of a cached session while other holders close it / it is evicted
        conccheck.run(ck, "sesscache", tier, seed, None, n_quick=90, n_thorough=900, only="destroyed")
        once_only_callbacks(ck, tier, seed, None)
    if cases is not None:
        s = ck.cov["schedules"]["keycache"]
        ck.cov.update({"evaluations": s["evaluations"], "distinct_nontrivial": s["distinct_schedules"],
                       "rule": "one schedule = seed-determined order in which parked goroutines are released at overlay yield points; 2-4 goroutines x 2 rounds of "
                               "get-session/encrypt/decrypt own/decrypt earlier record/close over 3 partitions, or several goroutines on one session; cache cells shared LRU-1, "
                               "shared SLRU-2, SK LRU-1, per-session LRU-1; monitors: every operation on an open session succeeds with the right bytes, no use-after-destroy, "
                               "no double release, no deadlock; non-trivial = distinct schedule with >= 8 releases",
                       "samples": [s["sample_trace"]]})
        ck.cov["trusted_base"] += ["the Go scheduler and memory model are represented by interleavings of the blocks between yield points; data-race freedom is assumed",
                                   "a released goroutine that does not reach its next yield point within 2 ms is treated as blocked in a native primitive"]
    if not ck.violations and ck.discharged != ck.obligations:
        ck.violation(ck.replay_file("oblig", {"obligation": ck.cov.get("failed_obligations")}), False)
    return ck.finish()
