"""C08 — a key in use is never destroyed underneath its user.  Theorems: coq/Properties/C08.v (KeyCache/KeyCacheConc.v).
Tie: seeded random schedules of 2-4 real goroutines (encrypt / decrypt / open / close sessions against one factory with
capacity-1/2 shared, per-session and system-key caches) under the cooperative controller; yield points are inserted by the
overlay before every lock acquisition, reference-count update and condition wait of key_cache.go / pkg/cache."""
import conccheck, envcheck
from vlib import Check


def once_only_callbacks(ck, tier, seed, replay):
    """The key caches release their reference on a key from the cache's eviction callback: a callback that runs twice for one entry
    (or for an entry that is no longer cached) releases a reference that belongs to a user of the key.  The generic cache is driven
    with op sequences over every policy and capacity threshold and each callback is matched against the entries present."""
    runs = [["-replay", replay]] if replay else [["-seed", str(seed + 11), "-n", "700" if tier == "quick" else "8000"]]
    cases = envcheck.run_harness(ck, "cache", runs)
    if cases is None:
        return False
    ck.cov["eviction_callback_once_only_cases"] = len(cases)
    bad = [c for c in cases if any("callback for key" in v or "unexpected callback" in v for v in c.get("viol") or [])]
    ck.oblige(not bad, "the eviction callback runs at most once per cached entry on %d op sequences (all policies)" % len(cases), str(bad[:1])[:2000])
    if bad:
        what = [v for v in bad[0]["viol"] if "callback" in v][:3]
        ck.violation(ck.replay_file("cachecb", {"what": what + ["the key cache's callback releases the cache's reference: a second run destroys a key its users still hold"],
                                               "Case": bad[0]}))
    return True


def free_running(ck, tier, only=None):
    """Uncontrolled goroutines under the Go race detector (harness/cmd/vstress): the controlled schedules cannot split a read-modify-write
    that sits between two yield points, and their hand-overs order every access; here the race detector reports conflicting accesses to
    the SDK's state that no lock orders, and the monitors are the property's own (operations on sessions nobody closed succeed)."""
    import json, os, re, vlib
    binp, ok, blog = vlib.go_build("vstress", race=True)
    ck.oblige(ok, "race-detector build of the free-running harness", blog)
    if not ok:
        ck.violation(ck.replay_file("build", {"obligation": "race-detector build of harness/cmd/vstress against /repo failed", "log": blog[-4000:]}), False)
        return False
    outp = os.path.join(vlib.BUILD, "%s-stress-%d.json" % (ck.prop, os.getpid()))
    env = dict(os.environ)
    env["GORACE"] = "halt_on_error=0 exitcode=0"
    try:
        rc, so, se, dt = vlib.run([binp, "-rounds", "12" if tier == "quick" else "120", "-out", outp], env=env, timeout=1500)
        cases = json.load(open(outp))["cases"] if rc == 0 and os.path.exists(outp) else []
    finally:
        for pth in (binp, outp):
            if os.path.exists(pth):
                os.remove(pth)
    ck.oblige(rc == 0, "free-running harness run", (so + se)[-3000:])
    blocks = [b for b in re.split(r"={18}\n", se) if "WARNING: DATA RACE" in b]
    sdk = [b for b in blocks if re.search(r"godaddy/asherah/go/(appencryption|securememory)[./(]", b)]
    if only:      # another property's clause on the same rounds (C06: "another partition's session")
        for c in cases:
            c["viol"] = [v for v in c.get("viol") or [] if only in v]
        sdk = []
    viol = [c for c in cases if c.get("viol")]
    ck.oblige(not sdk, "no unsynchronised conflicting accesses to SDK state in %d free-running rounds x %d scenarios (Go race detector)" % (
        cases[0]["rounds"] if cases else 0, len(cases)), sdk[0][:3000] if sdk else "")
    ck.oblige(not viol, "free-running: every operation on a session its holder has not closed succeeds", json.dumps(viol[:1])[:2000])
    ck.cov["free_running"] = {"scenarios": [c["scenario"] for c in cases], "rounds_each": cases[0]["rounds"] if cases else 0,
                              "operations": sum(c["ops"] for c in cases), "race_reports": len(blocks)}
    ck.cov["trusted_base"] += ["the Go race detector (happens-before over the accesses the free-running rounds actually performed)"]
    if rc != 0:
        ck.violation(ck.replay_file("stress", {"what": "the free-running harness crashed or hung", "log": (so + se)[-4000:], "Case": {"stress": True}}))
    elif viol:
        ck.violation(ck.replay_file("stress", {"what": viol[0]["viol"], "Case": {"stress": True, "scenario": viol[0]["scenario"]},
                                               "race_report": sdk[0][:4000] if sdk else None}))
    elif sdk:
        ck.violation(ck.replay_file("stress", {"what": "two goroutines access the same SDK state without any lock ordering them (an update of a reference / usage count can be lost: "
                                                       "a key or session is then closed underneath its user)", "race_report": sdk[0][:4000],
                                               "Case": {"stress": True, "scenarios": [c["scenario"] for c in cases]}}))
    return True


def main(tier, seed, replay):
    ck = Check("C08", tier, seed)
    ck.coq_theorems()
    if replay and '"stress"' in open(replay).read():
        free_running(ck, tier)
        ck.cov.update({"evaluations": 1, "distinct_nontrivial": 1, "rule": "replay (free-running rounds are not deterministic; the race detector reports the same pair of accesses)"})
        return ck.finish()
    if replay and "cachecb" in replay:
        once_only_callbacks(ck, tier, seed, replay)
        ck.cov.update({"evaluations": 1, "distinct_nontrivial": 1, "rule": "replay"})
        return ck.finish()
    if replay and "sesscache" in replay:
        conccheck.run(ck, "sesscache", tier, seed, replay, only="destroyed")
        return ck.finish()
    cases = conccheck.run(ck, "keycache", tier, seed, replay)
    if cases is not None and not replay:
        # "... or close of another session": holders of a cached session while other holders close it / it is evicted
        conccheck.run(ck, "sesscache", tier, seed, None, n_quick=90, n_thorough=900, only="destroyed")
        once_only_callbacks(ck, tier, seed, None)
        free_running(ck, tier)
    if cases is not None:
        s = ck.cov["schedules"]["keycache"]
        ck.cov.update({"evaluations": s["evaluations"], "distinct_nontrivial": s["distinct_schedules"],
                       "rule": "one schedule = seed-determined order in which parked goroutines are released at overlay yield points; 2-4 goroutines x 2 rounds of "
                               "get-session/encrypt/decrypt own/decrypt earlier record/close over 3 partitions, or several goroutines on one session; cache cells shared LRU-1, "
                               "shared SLRU-2, SK LRU-1, per-session LRU-1; monitors: every operation on an open session succeeds with the right bytes, no use-after-destroy, "
                               "no double release, no deadlock; non-trivial = distinct schedule with >= 8 releases",
                       "samples": [s["sample_trace"]]})
        ck.cov["trusted_base"] += ["the Go scheduler and memory model are represented by interleavings of the blocks between yield points; data-race freedom inside a block is checked by the free-running rounds under the race detector, not proved",
                                   "a released goroutine that does not reach its next yield point within 2 ms is treated as blocked in a native primitive"]
    if not ck.violations and ck.discharged != ck.obligations:
        ck.violation(ck.replay_file("oblig", {"obligation": ck.cov.get("failed_obligations")}), False)
    return ck.finish()
