"""C08 — a key in use is never destroyed underneath its user.  Theorems: coq/Properties/C08.v (KeyCache/KeyCacheConc.v).
Tie: seeded random schedules of 2-4 real goroutines (encrypt / decrypt / open / close sessions against one factory with
capacity-1/2 shared, per-session and system-key caches) under the cooperative controller; yield points are inserted by the
overlay before every lock acquisition, reference-count update and condition wait of key_cache.go / pkg/cache."""
import conccheck
from vlib import Check


def main(tier, seed, replay):
    ck = Check("C08", tier, seed)
    ck.coq_theorems()
    if replay and "sesscache" in replay:
        conccheck.run(ck, "sesscache", tier, seed, replay, only="destroyed")
        return ck.finish()
    cases = conccheck.run(ck, "keycache", tier, seed, replay)
    if cases is not None and not replay:
        # "... or close of another session": holders of a cached session while other holders close it / it is evicted
        conccheck.run(ck, "sesscache", tier, seed, None, n_quick=90, n_thorough=900, only="destroyed")
    if cases is not None:
        s = ck.cov["schedules"]["keycache"]
        ck.cov.update({"evaluations": s["evaluations"], "distinct_nontrivial": s["distinct_schedules"],
                       "rule": "one schedule = seed-determined order in which parked goroutines are released at overlay yield points; 2-4 goroutines x 2 rounds of "
                               "get-session/encrypt/decrypt own/decrypt earlier record/close over 3 partitions, or several goroutines on one session; cache cells shared LRU-1, "
                               "shared SLRU-2, SK LRU-1, per-session LRU-1; monitors: every operation on an open session succeeds with the right bytes, no use-after-destroy, "
                               "no double release, no deadlock; non-trivial = distinct schedule with >= 8 releases",
                       "samples": [s["sample_trace"]]})
        ck.cov["trusted_base"] += ["the Go scheduler and memory model are represented by interleavings of the blocks between yield points; data-race freedom is assumed",
                                   "a released goroutine that does not reach its next yield point within 2 ms is treated as blocked in a native primitive"]
    if not ck.violations and ck.discharged != ck.obligations:
        ck.violation(ck.replay_file("oblig", {"obligation": ck.cov.get("failed_obligations")}), False)
    return ck.finish()
