"""C10 — transient plaintext key copies are wiped.  Monitor: every buffer returned by AEAD/KMS key-unwrapping calls and every
buffer passed to a failing SecretFactory.New is re-read after the public call returns (env harness, under fault plans);
the data-key plaintext handed out by the regional KMS fakes is re-read after EncryptKey/DecryptKey of both AWS plugins."""
import envcheck
from vlib import Check
import c01


def main(tier, seed, replay):
    ck = Check("C10", tier, seed)
    ck.coq_theorems()
    n = 240 if tier == "quick" else 2400
    if replay:
        import json
        kind = "kms" if "wrapv" in json.dumps(json.load(open(replay))) else "env"
        cases = envcheck.run_harness(ck, kind, [["-replay", replay]])
        if cases is None:
            return ck.finish()
        if kind == "kms":
            bad = [c for c in cases if any("not wiped" in v for v in c.get("viol") or [])]
            if bad:
                ck.violation(ck.replay_file("kms", {"what": bad[0]["viol"], "Case": bad[0]}))
            ck.cov.update({"evaluations": len(cases), "distinct_nontrivial": max(2, len(cases)), "rule": "replay", "samples": cases[:1]})
            return ck.finish()
        return envcheck.finish_env(ck, "C10", cases, c01.RULE)
    kcases = envcheck.run_harness(ck, "kms", [["-seed", str(seed), "-n", "600" if tier == "quick" else "4000"],
                                              ["-seed", str(seed + 7), "-n", "300" if tier == "quick" else "2000", "-x", "partial"],
                                              ["-seed", str(seed + 9), "-n", "300" if tier == "quick" else "2000", "-x", "cancel"],
                                              ["-seed", str(seed + 11), "-n", "120" if tier == "quick" else "1000", "-x", "oversize"]])
    if kcases is None:
        return ck.finish()
    bad = [c for c in kcases if any("not wiped" in v for v in c.get("viol") or [])]
    ck.cov["kms_cells"] = len(kcases)
    ck.cov["kms_cells_with_unwrap"] = sum(1 for c in kcases if c.get("attempts"))
    ck.cov["kms_cells_with_incomplete_generate_response"] = sum(1 for c in kcases if c.get("partial"))
    ck.cov["kms_cells_with_context_ending_during_a_call"] = sum(1 for c in kcases if c.get("cancel"))
    ck.cov["kms_cells_with_data_keys_of_other_lengths"] = sum(1 for c in kcases if c.get("keylen"))
    if bad:
        ck.violation(ck.replay_file("kms", {"what": bad[0]["viol"], "Case": bad[0]}))
    # secure-memory release failures: WithBytesFunc hands back the callback's result TOGETHER WITH an error (what protectedmemory and memguard
    # do when the protection change after the callback fails); whatever the SDK does with that pair, the decrypted key bytes must be wiped.
    # These histories are judged by the wipe monitor alone (the envelope model has no such fault).
    rcases = envcheck.run_harness(ck, "env", [["-seed", str(seed + 5), "-n", str(n // 2), "-x", "relfail"]])
    if rcases is None:
        return ck.finish()
    rv = list(envcheck.MONITORS["C10"](rcases))
    ck.cov["histories_with_release_failures"] = len(rcases)
    ck.cov["operations_with_a_release_failure"] = sum(1 for c in rcases for o in c["ops"] if o.get("relfail") is not None)
    ck.oblige(not rv, "no plaintext key buffer survives an operation in which a secure-memory release failed (%d histories)" % len(rcases), str(rv[:1])[:1500])
    if rv:
        v = rv[0]
        ck.violation(ck.replay_file("relfail", {"what": v["what"], "failing_op": v["op"], "Case": envcheck.shrink_ops(rcases[v["case"]], v["op"]),
                                                "observed": rcases[v["case"]]["obs"][v["op"]]}))
    cases = envcheck.run_harness(ck, "env", [["-seed", str(seed), "-n", str(n)]])
    if cases is None:
        return ck.finish()
    return envcheck.finish_env(ck, "C10", cases, c01.RULE + "; plus %d wrap/unwrap cells of both AWS KMS plugins over fake regional clients "
                                                          "whose returned plaintext slices are re-read afterwards" % len(kcases))
